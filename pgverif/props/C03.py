"""C03 - redistribution across differently distributed layout groups (LayoutSwapper).

Decides (DESIGN 5/C03): field-location flow and effects over LayoutSwapper.transpose
(scatter / gather / same-group / multi-step paths, with and without buffer), manager
typestate, gathered/scattered role agreement of every getAxes result (index-ownership
typing), Allgather geometry and symmetric replication, permutation typing.
"""
from __future__ import annotations

import ast

from ..core import src, AnalysisError, parent, guards_of, contains
from ..resolve import Program, inline_locals, expand
from .. import units as U
from ..bufflow import Sym
from ..geometry import ShapeFlow, canon_product
from .. import permcheck
from .C01 import flow_check, unwrap

CLS = "LayoutSwapper"


def manager_final(chk, o, bdesc, n, path, same):
    cm = dict(o.tok.attrs).get("self._current_manager")
    want = {repr(Sym("mgr", Sym("name", "dest_name"))), repr(Sym("mgr", Sym("step", n - 1)))}
    if same:
        want.add(repr(Sym("mgr", Sym("name", "source_name"))))
    ok = cm is not None and repr(cm) in want
    chk.ob("M1-current-manager", None, f"LayoutSwapper.transpose[{bdesc}; route length {n}; {path}]", ok,
           "the current manager is the destination layout's handler at exit" if ok else
           f"_current_manager is {cm!r} at exit; nProcs/mpiCoords/nDistributedDirections would describe the wrong group",
           file=U.LAYOUT, func="LayoutSwapper.transpose")


# ------------------------------------------------------------------ getAxes ownership typing
def _layout_of_handler_expr(e, fn_env, handler_of):
    """self._managers[self._handlers[L.name]] -> 'L' ; Name h -> handler_of[h]"""
    s = src(e)
    if isinstance(e, ast.Name):
        return handler_of.get(e.id)
    if isinstance(e, ast.Subscript) and src(e.value) == "self._managers":
        k = e.slice
        if isinstance(k, ast.Subscript) and src(k.value) == "self._handlers":
            kk = k.slice
            if isinstance(kk, ast.Attribute) and kk.attr == "name" and isinstance(kk.value, ast.Name):
                return kk.value.id
            if isinstance(kk, ast.Name):
                return "name:" + kk.id
    return None


def axes_ownership(chk, mod, q):
    rel = mod.rel
    fn = mod.func(q)
    chk.functions.add(f"{rel}:{q}")
    # handler variables -> layout variables (h1 = self._managers[self._handlers[name1]]; l1 = h1.getLayout(name1))
    handler_of = {}
    hname = {}
    for n in ast.walk(fn):
        if isinstance(n, ast.Assign) and isinstance(n.targets[0], ast.Name):
            t = n.targets[0].id
            v = n.value
            if isinstance(v, ast.Subscript) and src(v.value) == "self._managers":
                hname[t] = src(v.slice)
            if isinstance(v, ast.Call) and isinstance(v.func, ast.Attribute) and v.func.attr == "getLayout" \
                    and isinstance(v.func.value, ast.Name):
                handler_of[v.func.value.id] = t
    # ndims variables -> layout
    nd_of = {}
    for n in ast.walk(fn):
        if isinstance(n, ast.Assign) and isinstance(n.targets[0], ast.Name) and isinstance(n.value, ast.Attribute) \
                and n.value.attr == "nDistributedDirections":
            L = _layout_of_handler_expr(n.value.value, None, handler_of)
            if L:
                nd_of[n.targets[0].id] = L
    # list variables derived from a layout's shape
    list_owner = {}
    sf = ShapeFlow(fn)
    n_calls = 0
    for call in [c for c in ast.walk(fn) if isinstance(c, ast.Call) and isinstance(c.func, ast.Attribute)
                 and c.func.attr == "getAxes"]:
        n_calls += 1
        st = call
        while not isinstance(st, ast.stmt):
            st = parent(st)
        if not (isinstance(st, ast.Assign) and isinstance(st.targets[0], ast.Tuple) and len(st.targets[0].elts) == 2
                and len(call.args) == 2 and all(isinstance(a, ast.Name) for a in call.args)):
            chk.ob("A1-getaxes-call-shape", call, src(st)[:100], None, "getAxes call is not `(a, b) = self.getAxes(G, S)`",
                   file=rel, func=q)
            continue
        G, S = call.args[0].id, call.args[1].id
        ig, is_ = [e.id if isinstance(e, ast.Name) else None for e in st.targets[0].elts]
        # which side is more distributed according to the enclosing guards
        larger = None
        facts = []
        for test, pol, kind in guards_of(st):
            if isinstance(test, ast.Compare) and len(test.ops) == 1 and isinstance(test.left, ast.Name) \
                    and isinstance(test.comparators[0], ast.Name):
                a, b = test.left.id, test.comparators[0].id
                if a in nd_of and b in nd_of:
                    facts.append((type(test.ops[0]).__name__, nd_of[a], nd_of[b], pol))
        # also the guards of earlier elif arms (an `else` arm inherits their negation through guards_of)
        for op, a, b, pol in facts:
            if op == "Gt" and pol:
                larger = a
            elif op == "Lt" and pol:
                larger = b
        if larger is None:
            neq = [(a, b) for op, a, b, pol in facts if op == "Eq" and not pol]
            ngt = [(a, b) for op, a, b, pol in facts if op == "Gt" and not pol]
            nlt = [(a, b) for op, a, b, pol in facts if op == "Lt" and not pol]
            if neq and ngt:
                larger = ngt[0][1]
            elif neq and nlt:
                larger = nlt[0][0]
        ok = larger is not None and larger == S
        chk.ob("A1-getaxes-role-order", call, src(st)[:100], ok if larger is not None else None,
               f"scattered argument `{S}` is the more distributed layout under the enclosing guard" if ok else
               (f"the enclosing guard makes `{larger}` the more distributed layout but `{S}` is passed as the scattered one"
                if larger is not None else "cannot derive from the enclosing guards which layout is more distributed"),
               file=rel, func=q, facts={"guards": [str(f) for f in facts]})
        # ownership of the two results
        owners = {ig: G, is_: S}
        # scope: statements after this call in the same block (until reassigned)
        block = parent(st)
        body = None
        for f in ("body", "orelse"):
            if st in getattr(block, f, []):
                body = getattr(block, f)
        if body is None:
            continue
        after = body[body.index(st) + 1:]
        comm_owner = {}
        for s2 in after:
            for n in ast.walk(s2):
                # comm = <handler>.communicators[idx]
                if isinstance(n, ast.Assign) and isinstance(n.targets[0], ast.Name) and isinstance(n.value, ast.Subscript) \
                        and isinstance(n.value.value, ast.Attribute) and n.value.value.attr == "communicators":
                    L = _layout_of_handler_expr(n.value.value.value, None, handler_of)
                    idx = n.value.slice
                    if isinstance(idx, ast.Name) and idx.id in owners:
                        okc = (L == owners[idx.id])
                        # communicators only exist on the scattered side for the changed direction
                        oks = (owners[idx.id] == S)
                        chk.ob("A1-index-ownership", n, src(n)[:110], (okc and oks) if L is not None else None,
                               f"communicator of `{L}`'s handler indexed by the axis getAxes returned for `{owners[idx.id]}`"
                               + ("" if okc and oks else " - index belongs to the other layout / the gathered side has no such communicator"),
                               file=rel, func=q)
                        comm_owner[n.targets[0].id] = L
                if isinstance(n, ast.Name) and isinstance(n.ctx, ast.Load) and n.id in owners:
                    p = parent(n)
                    cont = None
                    if isinstance(p, ast.Subscript) and p.slice is n:
                        c = p.value
                        if isinstance(c, ast.Attribute) and isinstance(c.value, ast.Name) and c.attr != "communicators":
                            cont = c.value.id
                        elif isinstance(c, ast.Name):
                            cont = _list_owner(fn, c.id, n.lineno)
                        elif isinstance(c, ast.Attribute) and c.attr == "communicators":
                            continue  # handled above
                    elif isinstance(p, ast.Call) and n in p.args and isinstance(p.func, ast.Attribute) \
                            and p.func.attr in ("mpi_starts", "mpi_lengths") and isinstance(p.func.value, ast.Name):
                        cont = p.func.value.id
                    else:
                        continue
                    if cont is None:
                        chk.ob("A1-index-ownership", n, src(enclosing(n))[:110], None,
                               f"cannot identify the layout that `{src(p)[:40]}` belongs to", file=rel, func=q)
                        continue
                    ok2 = cont == owners[n.id]
                    chk.ob("A1-index-ownership", n, src(enclosing(n))[:110], ok2,
                           f"`{n.id}` (axis of `{owners[n.id]}`) indexes a table of `{cont}`" +
                           ("" if ok2 else " - the index was computed for the other layout"), file=rel, func=q)
    return n_calls


def _list_owner(fn, name, lineno, depth=0):
    """layout variable whose .shape a list variable was derived from (following list-to-list derivations)"""
    import re
    best = None
    for nn in ast.walk(fn):
        if isinstance(nn, ast.Assign) and isinstance(nn.targets[0], ast.Name) and nn.targets[0].id == name \
                and nn.lineno <= lineno:
            if best is None or nn.lineno > best.lineno:
                best = nn
    if best is None or depth > 4:
        return None
    vs = src(best.value)
    m = re.search(r"(\w+)\.shape", vs)
    if m:
        return m.group(1)
    for other in re.findall(r"\b([A-Za-z_]\w*)\b", vs):
        if other != name and other not in ("slice", "list", "for", "in", "x", "n", "tuple"):
            o = _list_owner(fn, other, best.lineno, depth + 1)
            if o:
                return o
    return None


def enclosing(n):
    while not isinstance(n, ast.stmt):
        n = parent(n)
    return n


# ------------------------------------------------------------------ gather geometry
GATHER_TEMPLATE = """
idx_d, idx_s = self.getAxes(layout_dest, layout_source)
comm = self._managers[self._handlers[layout_source.name]].communicators[idx_s]
mpi_size = comm.Get_size()
blockShape = list(layout_source.shape)
blockShape[idx_s] = layout_source.max_block_shape[idx_s]
blockSize = np.prod(blockShape)
sourceView = np.split(source, [blockSize])[0]
destView = np.split({recv}, [blockSize * mpi_size])[0]
comm.Allgather((sourceView, MPI.DOUBLE), (destView, MPI.DOUBLE))
blocks = np.split({recv}, blockSize * np.arange(1, mpi_size + 1))
destView = np.split({out}, [layout_dest.size])[0].reshape(layout_dest.shape)
slices = [slice(x) for x in layout_dest.shape]
transposition = [layout_source.dims_order.index(i) for i in layout_dest.dims_order]
for i, b in enumerate(blocks[:-1]):
    blockShape = list(layout_source.shape)
    blockShape[idx_s] = layout_source.mpi_lengths(idx_s)[i]
    blockSize = np.prod(blockShape)
    slices[idx_d] = slice(layout_source.mpi_starts(idx_s)[i], layout_source.mpi_starts(idx_s)[i] + layout_source.mpi_lengths(idx_s)[i])
    block = np.split(b, [blockSize])[0].reshape(blockShape)
    destView[tuple(slices)] = np.transpose(block, transposition)
"""


def gather_geometry(chk, mod, q, recv_name):
    """Allgather of padded blocks; unpack with the sender's true block shape (template with metavariables)."""
    from ..core import find
    rel = mod.rel
    fn = mod.func(q)
    ag = [c for c in ast.walk(fn) if isinstance(c, ast.Call) and isinstance(c.func, ast.Attribute)
          and c.func.attr in ("Allgather", "Gather", "Allgatherv", "allgather", "gather")]
    if len(ag) != 1:
        raise AnalysisError(f"C03: expected exactly one gather collective in {q}, found {len(ag)}")
    c = ag[0]
    chk.ob("R1-symmetric-replication", c, src(c)[:100], c.func.attr == "Allgather",
           "the gather is an Allgather: every rank of the communicator receives all blocks (replicas identical)"
           if c.func.attr == "Allgather" else f"`{c.func.attr}` does not deliver the blocks to every rank", file=rel, func=q)
    out = "source" if recv_name == "dest" else "dest"
    tmpl = GATHER_TEMPLATE.format(recv=recv_name, out=out)
    bind = find(fn, tmpl, vars=("x",))
    ok = bind is not None
    what = ("every rank sends one block padded to max_block_shape along the scattered axis and receives communicator-size such "
            "blocks (uniform counts); the chunk of rank i is cut to and viewed with the sender's true block shape "
            "(mpi_lengths(idx_s)[i]) and placed at [start_i, start_i+len_i) of the source partition along the gathered axis")
    bad = None
    if not ok:
        # recognised wrong forms
        arm = parent(enclosing(c))
        body = arm.orelse if enclosing(c) in getattr(arm, "orelse", []) else arm.body
        loops = [n for n in body if isinstance(n, ast.For)]
        for lp in loops:
            for n in ast.walk(lp):
                if isinstance(n, ast.Call) and isinstance(n.func, ast.Attribute) and n.func.attr == "reshape" and n.args \
                        and isinstance(n.args[0], ast.Name):
                    shp = n.args[0].id
                    inloop = [a_ for a_ in ast.walk(lp) if isinstance(a_, ast.Assign) and isinstance(a_.targets[0], ast.Subscript)
                              and src(a_.targets[0].value) == shp]
                    outer = [a_ for a_ in body if isinstance(a_, ast.Assign) and isinstance(a_.targets[0], ast.Subscript)
                             and src(a_.targets[0].value) == shp and "max_block_shape" in src(a_.value)]
                    if not inloop and outer:
                        bad = (f"the received chunk of rank i is viewed with the padded block shape `{shp}` ({src(outer[0])}); the sender's "
                               "block is contiguous in its true shape, so for uneven blocks elements are mis-assigned unless the gathered "
                               "axis is the leading one")
            for n in ast.walk(lp):
                if isinstance(n, ast.Call) and isinstance(n.func, ast.Attribute) and n.func.attr in ("mpi_lengths", "mpi_starts") \
                        and src(n.func.value) == "layout_dest":
                    bad = f"the unpack loop uses `{src(n)}`: blocks were cut by the source layout's partition, not the destination's"
        # a shortcut taken when THIS rank's block is unpadded: the other ranks' blocks may still be padded
        for n in ast.walk(fn):
            if isinstance(n, ast.If) and any(isinstance(x, ast.Compare) and "max_block_shape" in src(x) and ".shape" in src(x)
                                             for x in ast.walk(n.test)) and any(c is x or True for x in [c]):
                cmp_ = [x for x in ast.walk(n.test) if isinstance(x, ast.Compare) and "max_block_shape" in src(x)][0]
                bad = (f"`{src(cmp_)}` compares this rank's own block length with the padded length to decide how the gathered buffer is "
                       "read: on an uneven distribution the ranks holding a full-size block take the 'no padding' path although the shorter "
                       "blocks of the other ranks arrive padded - the padding is read as data, and the ranks disagree on the result")
        # explicit element counts with MPI.DOUBLE: the count is in doubles, complex data has two per element
        for spec in list(c.args):
            if isinstance(spec, (ast.List, ast.Tuple)) and len(spec.elts) == 3 and src(spec.elts[2]) == "MPI.DOUBLE":
                bad = (f"`{src(spec)}` passes an explicit count with MPI.DOUBLE: the count is the number of array ELEMENTS, but a complex "
                       "buffer holds two doubles per element, so only half of each block is exchanged (the two-element form lets mpi4py "
                       "derive the count from the buffer's size in bytes)")
    chk.pat("G4-gather-geometry", c, f"gather arm of {q.split('.')[-1]}", ok, what, bad, file=rel, func=q)


SCATTER_TEMPLATE = """
idx_s, idx_d = self.getAxes(layout_source, layout_dest)
comm = self._managers[self._handlers[layout_dest.name]].communicators[idx_d]
rank = comm.Get_rank()
start = layout_dest.mpi_starts(idx_d)[rank]
length = layout_dest.mpi_lengths(idx_d)[rank]
sourceSlice = [slice(n) for n in layout_source.shape]
sourceSlice[idx_s] = slice(start, start + length)
transposition = [layout_source.dims_order.index(i) for i in layout_dest.dims_order]
destView[:] = np.transpose(sourceView[tuple(sourceSlice)], transposition)
"""


def scatter_geometry(chk, mod, q):
    from ..core import find
    rel = mod.rel
    fn = mod.func(q)
    b = find(fn, SCATTER_TEMPLATE, vars=("n", "sourceView", "destView"))
    bad = None
    if b is None:
        for n in ast.walk(fn):
            if isinstance(n, ast.Call) and isinstance(n.func, ast.Attribute) and n.func.attr == "Get_rank":
                arm = enclosing(n)
                blk = parent(arm)
                body = blk.body if arm in getattr(blk, "body", []) else getattr(blk, "orelse", [])
                txt = "".join(src(x) for x in body)
                if "layout_source.mpi_starts" in txt or "layout_source.mpi_lengths" in txt:
                    bad = "the scatter slice is taken from the source layout's partition table: the local block is defined by the destination's"
    chk.pat("G4-scatter-slice", fn, "scatter arm of " + q.split(".")[-1], b is not None,
            "the local slice is [start_r, start_r+len_r) of the destination partition, for this rank's coordinate on the "
            "destination communicator, taken along the source axis of the scattered dimension", bad, file=rel, func=q)


INIT_GATHER_TEMPLATE = """
blockShape1 = list(l1.shape)
blockShape1[idx_1] = l1.max_block_shape[idx_1]
blockSize1 = np.prod(blockShape1)
blockShape2 = list(l2.shape)
blockShape2[idx_2] = l2.max_block_shape[idx_2]
blockSize2 = np.prod(blockShape2)
if blockSize1 > blockSize2:
    comm = h2.communicators[idx_2]
    mpi_size = comm.Get_size()
    self._buffer_size = max(self._buffer_size, blockSize2 * mpi_size)
else:
    comm = h1.communicators[idx_1]
    mpi_size = comm.Get_size()
    self._buffer_size = max(self._buffer_size, blockSize1 * mpi_size)
"""


HANDLER_BUFFER_TEMPLATE = """
blockshape = list(l1.shape)
axis = self._get_swap_axes(l1, l2)
if len(axis) != 0:
    blockshape[axis[0]] = l1.max_block_shape[axis[0]]
    blockshape[axis[1]] = l2.max_block_shape[axis[0]]
"""


def handler_buffer(chk, mod):
    """LayoutHandler.__init__: the block of every connected pair starts from that pair's own local shape"""
    from ..core import find
    rel, q = mod.rel, "LayoutHandler.__init__"
    fn = mod.func(q)
    b = find(fn, HANDLER_BUFFER_TEMPLATE, vars=("l1", "l2"))
    bad = None
    if b is None:
        calls = [n for n in ast.walk(fn) if isinstance(n, ast.Call) and src(n.func) == "self._get_swap_axes"]
        if calls:
            def loops(n):
                out = []
                while n is not fn:
                    n = parent(n)
                    if isinstance(n, (ast.For, ast.While)):
                        out.append(n)
                return out
            inner = loops(calls[0])
            tgt = None
            for n in ast.walk(fn):
                if isinstance(n, ast.Assign) and isinstance(n.targets[0], ast.Subscript) and isinstance(n.targets[0].value, ast.Name) \
                        and "max_block_shape" in src(n.value):
                    tgt = n.targets[0].value.id
            if tgt:
                init = [n for n in ast.walk(fn) if isinstance(n, ast.Assign) and src(n.targets[0]) == tgt]
                if init and len(loops(init[0])) < len(inner):
                    bad = (f"`{src(init[0])}` (line {init[0].lineno}) is created outside the loop over connected layouts but its entries are "
                           "overwritten for every pair: a layout connected to two others through different axes keeps the padded extent "
                           "of the previous pair, and bufferSize can come out smaller than a block the transposes move")
    chk.pat("G4-bufsize-handler-block", fn, "blockshape = list(l1.shape) per connected pair, then the two swapped extents padded", b is not None,
            "for every connected pair the exchange block is this pair's local shape with the concatenated and the split axis padded to "
            "the largest block; the advertised size is the maximum over pairs", bad, file=rel, func=q)
    ok = contains(fn, "if buffsize > self._buffer_size:\n    self._buffer_size = buffsize", vars=("buffsize",)) is not None and \
        contains(fn, "self._buffer_size = X.size", vars=("X",)) is not None
    chk.pat("G4-bufsize-handler-block", fn, "self._buffer_size = max(first layout's size, every pair's block)", ok,
            "the advertised size starts from a local block and only grows", file=rel, func=q)


def init_buffer(chk, mod):
    """advertised size covers every handler's size and every gather's receive size"""
    from ..core import find
    rel = mod.rel
    handler_buffer(chk, mod)
    q = "LayoutSwapper.__init__"
    fn = mod.func(q)
    ok1 = contains(fn, "buffSize = [x.bufferSize for x in self._managers]\nself._buffer_size = max(buffSize)", vars=("x",))
    chk.pat("G4-bufsize-handlers", fn, "self._buffer_size = max(buffSize)", ok1, "swapper buffer covers the largest handler buffer",
            file=rel, func=q)
    ok2 = find(fn, INIT_GATHER_TEMPLATE, vars=("l1", "l2", "h1", "h2", "idx_1", "idx_2")) is not None
    chk.pat("G4-bufsize-gather", fn, "gather receive size in __init__", ok2,
            "buffer covers (padded scattered block) x (size of the scattered side's communicator) for every gather pair",
            file=rel, func=q)


def comm_identity_diagnosis(fn):
    """communicators of two handlers compared through a derived quantity (size, rank) instead of as objects"""
    for n in ast.walk(fn):
        if isinstance(n, ast.Assign) and isinstance(n.targets[0], ast.Name) and isinstance(n.value, (ast.ListComp, ast.Call)):
            v = n.value
            if isinstance(v, ast.ListComp) and "communicators" in src(v.generators[0].iter) and isinstance(v.elt, ast.Call) \
                    and isinstance(v.elt.func, ast.Attribute) and v.elt.func.attr in ("Get_size", "Get_rank", "Get_dim"):
                return (f"`{src(n)}`: the communicators of the two handlers are matched by `{v.elt.func.attr}()`: two different process "
                        "axes with the same extent (square process grids) are taken for the same communicator, so the wrong axis is "
                        "gathered/scattered (or the layouts are declared unconnected)")
    for n in ast.walk(fn):
        if isinstance(n, ast.Compare) and any(isinstance(x, ast.Call) and isinstance(x.func, ast.Attribute) and x.func.attr == "Get_size"
                                              for x in [n.left] + n.comparators) and isinstance(n.ops[0], (ast.In, ast.Eq)):
            return (f"`{src(n)}` matches communicators by size: process axes of equal extent are confused")
    return None


def run(chk):
    chk.explanation = (
        "Field-location flow over LayoutSwapper.transpose (same-group, scatter, gather, multi-step; buf None/given; "
        "route lengths 1..7, 2-periodic), manager typestate at every exit, index-ownership typing of every getAxes "
        "result (6 call sites), Allgather geometry (uniform padded counts, unpack with the sender's true block "
        "shape, placement by the source partition), scatter slice, buffer sizing, permutation typing of the 6 "
        "block transposes. Decides the structural necessary conditions of C03; the communicator-matching heuristic "
        "of __init__ and element-level placement are not decided.")
    chk.assumptions += [
        "LayoutHandler.transpose satisfies its contract (decided by C01)",
        "source, dest, buf distinct non-overlapping arrays of bufferSize elements",
        "numpy view/copy and Allgather contracts of DESIGN.md section 3",
        "not the plot-only rank (self._buffer_size != 0)",
    ]
    mod = chk.mod(U.LAYOUT)
    chk.in_file(U.LAYOUT)
    prog = Program(chk.repo, [U.LAYOUT])
    flow_check(chk, prog, U.LAYOUT, CLS, extra_final=manager_final)
    ncalls = 0
    for q in ("LayoutSwapper._transpose", "LayoutSwapper._transpose_source_intact", "LayoutSwapper.__init__"):
        ncalls += axes_ownership(chk, mod, q)
    chk.require(ncalls >= 6, f"C03: only {ncalls} getAxes call sites found (6 confirmed by reading)")
    gather_geometry(chk, mod, "LayoutSwapper._transpose", "dest")
    gather_geometry(chk, mod, "LayoutSwapper._transpose_source_intact", "buf")
    scatter_geometry(chk, mod, "LayoutSwapper._transpose")
    scatter_geometry(chk, mod, "LayoutSwapper._transpose_source_intact")
    init_buffer(chk, mod)
    permcheck.check_layout_swapper(chk, mod)
    # the cached route map is only read by the transposes
    from .. import lints
    for q in (f"{CLS}.transpose", f"{CLS}._transposeRedirect", f"{CLS}._transposeRedirect_source_intact"):
        f_ = mod.func(q)
        muts = lints.shared_state_mutations(f_, lambda s_: s_.startswith("self._route_map") or s_.startswith("self._layouts") or s_.startswith("self._handlers"))
        chk.ob("G2-no-shared-mutation", f_, f"{q} vs the cached route map", not muts,
               "the route map and layout tables are only read" if not muts else "; ".join(d for _, d in muts) +
               " - the stored route is shortened/changed by a transpose: the next transpose between the same layouts takes a wrong route",
               file=U.LAYOUT, func=q)
    # getAxes itself: returns (position in gathered ordering of the scattered dimension, scattered axis)
    ga = mod.func("LayoutSwapper.getAxes")
    okga = contains(ga, """
handlerG = self._managers[self._handlers[layout_gathered.name]]
handlerS = self._managers[self._handlers[layout_scattered.name]]
possComms = list(handlerS.communicators)
for c in handlerG.communicators:
    if c in possComms:
        i = possComms.index(c)
        possComms[i] = None
idx_s = np.nonzero(np.array(possComms) != None)[0][0]
idx_g = layout_gathered.dims_order.index(layout_scattered.dims_order[idx_s])
return (idx_g, idx_s)
""")
    bad = None
    if not okga:
        bad = comm_identity_diagnosis(ga)
    chk.pat("A1-getaxes-definition", ga, "getAxes", okga,
            "returns (axis of the gathered layout carrying the scattered dimension, process axis of the scattered handler "
            "whose communicator the gathered handler lacks)", bad, file=U.LAYOUT, func="LayoutSwapper.getAxes")
    # the same matching in _compatibleLayout: communicators are matched as objects
    for q in ("LayoutSwapper._compatibleLayout", "LayoutSwapper.getAxes"):
        f_ = mod.func(q)
        d = comm_identity_diagnosis(f_)
        chk.ob("A1-communicator-identity", f_, f"{q}: handlers' communicators matched as objects", d is None,
               "a process axis of one handler is identified with an axis of the other only if both hold the very same communicator"
               if d is None else d, file=U.LAYOUT, func=q)
    chk.floor("D2-result-in-dest", 14)
    chk.floor("M1-current-manager", 14)
    chk.floor("A1-index-ownership", 16)
    chk.floor("A1-getaxes-role-order", 6)
    chk.floor("P1-", 6)
