"""C08 - interpolants reproduce their data (narrow claim: the structural clauses).

Decided: the collocation matrix is built from the attributes of the one basis, with the columns
[span-degree, span] (mod nb when periodic) and accumulation on repeated columns; factorisation and
solve routine are selected as a pair and by dtype *equality*, by THIS interpolator's dtype; the
solve receives the factors the factorisation produced; LAPACK band storage; every periodic 1-D
solve is followed by the coefficient wrap; the 2-D interpolation leaves in EVERY entry of the
spline's coefficient array the twice-solved coefficient that belongs there, on the four
combinations of periodic / clamped dimensions (region analysis, below).
S(x_i) = u_i, polynomial reproduction, conditioning: numerical, declined.

How the 2-D rule works (no execution): the method is specialised to one combination of
periodicities (C07.Specialiser: branches on `periodic` resolved, private helpers and attribute
aliases written back).  Every array the method touches is an abstract buffer whose axes are
labelled with the dimension they run along (x1 / x2) and whose index range along a dimension is
cut at the symbolic points 0, degree, nbasis, nbasis+degree, ... (ordered by a linear argument over
degree >= 1, nbasis >= degree).  Each block carries a typestate: stale | data | solved along x1 |
solved along x2 | solved along both | misplaced.  Slicing, transposition, row/column loops, copies
and the two kinds of 1-D solve are transfer functions on these typestates.  The obligation is that
at the end every block of `spl.coeffs` is `solved along both` and in its own place.
"""
from __future__ import annotations

import ast

import sympy as sp

from ..core import src
from .. import units as U
from .. import agree
from .C07 import Specialiser, walk_guarded, own_exprs, _int_attr, _polarity, _Sub, clone as _clone

C1 = "SplineInterpolator1D"
C2 = "SplineInterpolator2D"


def _flat(body):
    return [st for st, _g in walk_guarded(body)]


def _facts1(per):
    return {"self._basis.periodic": per, "basis.periodic": per, "self._basis._periodic": per}


def _same(a, b):
    return sp.expand(a - b) == 0


# ======================================================================================
# 1-D interpolator
# ======================================================================================
ROLE = {"nb": "nbasis", "knots": "knots", "degree": "degree", "xgrid": "greville", "periodic": "periodic",
        "cubic_uniform_splines": "cubic_uniform"}
BASIS_ATTRS = {"nbasis", "ncells", "knots", "degree", "greville", "periodic", "cubic_uniform", "breaks", "domain", "integrals"}


def collocation(chk, imod):
    init_q = f"{C1}.__init__"
    init = chk.func(U.INTERP, init_q)
    cm = chk.func(U.INTERP, f"{C1}.collocation_matrix")
    formals = [a.arg for a in cm.args.args]
    known_sig = formals == list(ROLE)
    chk.pat("H1-collocation-arguments", cm, "collocation_matrix signature", known_sig, "positional roles match the call", file=U.INTERP,
            func=f"{C1}.collocation_matrix", nontrivial=False)
    body = Specialiser(imod, C1, keep={"collocation_matrix"}).run("__init__")
    calls = [c for st in _flat(body) for c in own_exprs(st) if isinstance(c, ast.Call) and isinstance(c.func, ast.Attribute)
             and c.func.attr == "collocation_matrix"]
    ok, bad = False, None
    if len(calls) == 1 and known_sig:
        b = agree.bind_call(calls[0], formals)
        if any(isinstance(a_, ast.Starred) for a_ in calls[0].args) or any(k_.arg is None for k_ in calls[0].keywords):
            b, starred = None, True          # star arguments: which parameter receives what is not followed
        else:
            starred = False
        if b is None and starred:
            bad = None
        elif b is None:
            bad = f"`{src(calls[0])[:80]}` does not fit the signature {formals}: the constructor raises"
        else:
            wrong, unknown = [], []
            for f_, attr in ROLE.items():
                a = b.get(f_)
                s_ = src(a) if a is not None else None
                if s_ in (f"basis.{attr}", f"self._basis.{attr}"):
                    continue
                if s_ is not None and s_.split(".")[-1] in BASIS_ATTRS and s_.rsplit(".", 1)[0] in ("basis", "self._basis"):
                    wrong.append(f"parameter `{f_}` receives `{s_}` instead of the basis' `{attr}`")
                else:
                    unknown.append(f_)
            if wrong:
                bad = "; ".join(wrong) + ": the matrix is not the collocation matrix B_j(x_i) of this basis at its interpolation points"
            elif not unknown:
                ok = True
    chk.pat("H1-collocation-arguments", calls[0] if calls else init, "collocation_matrix(basis.nbasis, knots, degree, greville, periodic, cubic_uniform)",
            ok, "number of basis functions, knots, degree, interpolation points, periodicity and family all come from the one basis", bad,
            file=U.INTERP, func=init_q)
    # ---- columns of row i and the way the values are stored: read per kind of space (periodic / clamped)
    collocation_fill(chk, cm)


class _Cols:
    """index set {first + k (mod `mod`) : 0 <= k < count} along the columns of the matrix"""

    def __init__(self, first, count, mod=None):
        self.first, self.count, self.mod = first, count, mod

    def __repr__(self):
        return f"[{self.first}, {self.first} + {self.count})" + (f" mod {self.mod}" if self.mod is not None else "")


def collocation_analysis(cm, k_cu):
    """Abstract reading of collocation_matrix on each kind of space (periodic / clamped x uniform-cubic / general family): branches on the
    two flags are resolved, local functions are written back at their call sites, names are bound to index sets (ranges, slices, index
    arrays, closures over the span, shifted / taken modulo) and every store into a matrix is recorded with the index set of its columns,
    its kind (unbuffered accumulation, assignment, buffered in-place addition), the array it goes to and the loop it sits in.  Column
    positions are expressed relative to `first`, the index of the first basis function that does not vanish at the point of the row:
    the general span search returns first + degree, the uniform one first + k_cu (its own convention, established by C07).  Nothing is
    executed.  -> {(periodic, family): state}"""
    first, degree, nb, s, nx = sp.symbols("first degree nb s nx", integer=True)
    formals = [a.arg for a in cm.args.args]
    per_name = "periodic" if "periodic" in formals else None
    fam_name = next((f_ for f_ in formals if "uniform" in f_), None)
    span_fam = {}
    for n in ast.walk(cm):
        if isinstance(n, ast.Assign) and isinstance(n.value, ast.Call) and src(n.value.func) in ("nu_find_span", "cu_find_span"):
            fam = src(n.value.func)[:2]
            t = n.targets[0]
            t = t.elts[0] if isinstance(t, ast.Tuple) and fam == "cu" and t.elts else t
            if isinstance(t, ast.Name):
                span_fam[t.id] = fam
            elif isinstance(t, ast.Subscript) and isinstance(t.value, ast.Name):
                span_fam[t.value.id] = fam
    basis_arrays = {src(c.args[-1]).split("[")[0] for c in ast.walk(cm) if isinstance(c, ast.Call) and
                    src(c.func) in ("nu_basis_funs", "cu_basis_funs") and c.args}

    class Unknown(Exception):
        pass

    class State:
        def __init__(self):
            self.fills, self.bufs, self.parts, self.folds, self.returned, self.loops, self.notes = [], {}, {}, [], None, [], []
            self.unmodelled = []

    def flag_value(test, flags):
        t, sw = _polarity(test)
        if src(t) in flags:
            return flags[src(t)] != sw
        return None

    def opaque(e):
        return sp.Symbol("<" + src(e)[:40] + ">", integer=True)

    def ev(e, env, flags):
        """sympy scalar or _Cols; raises Unknown"""
        if isinstance(e, ast.Constant) and isinstance(e.value, int) and not isinstance(e.value, bool):
            return sp.Integer(e.value)
        if isinstance(e, ast.Name):
            if e.id in env:
                v = env[e.id]
                if v is None or isinstance(v, tuple):
                    raise Unknown(e.id)
                return v
            if e.id in span_fam:
                if span_fam[e.id] == "cu":
                    if k_cu is None:
                        raise Unknown("index convention of cu_find_span")
                    return first + k_cu
                return first + degree
            if e.id in ("degree", "nb", "nx"):
                return {"degree": degree, "nb": nb, "nx": nx}[e.id]
            raise Unknown(e.id)
        if isinstance(e, ast.UnaryOp) and isinstance(e.op, ast.USub):
            v = ev(e.operand, env, flags)
            if isinstance(v, _Cols):
                raise Unknown(src(e))
            return -v
        if isinstance(e, ast.IfExp) and flag_value(e.test, flags) is not None:
            return ev(e.body if flag_value(e.test, flags) else e.orelse, env, flags)
        if isinstance(e, ast.Subscript):
            base = e.value
            items = e.slice.elts if isinstance(e.slice, ast.Tuple) else [e.slice]
            reshaping = all((isinstance(x, ast.Slice) and x.lower is None and x.upper is None and x.step is None) or
                            (isinstance(x, ast.Constant) and x.value is None) or src(x) == "np.newaxis" for x in items)
            if isinstance(base, ast.Name) and base.id in span_fam:
                return ev(base, env, flags)         # the span of the row (of every row, broadcast)
            if reshaping:
                return ev(base, env, flags)
            raise Unknown(src(e))
        if isinstance(e, ast.BinOp) and isinstance(e.op, (ast.Add, ast.Sub)):
            a, b = ev(e.left, env, flags), ev(e.right, env, flags)
            if isinstance(a, _Cols) and isinstance(b, _Cols):
                raise Unknown(src(e))
            if isinstance(a, _Cols) or isinstance(b, _Cols):
                c, k = (a, b) if isinstance(a, _Cols) else (b, a)
                if c.mod is not None or (isinstance(e.op, ast.Sub) and c is b):
                    raise Unknown(src(e))
                return _Cols(c.first + k if isinstance(e.op, ast.Add) else c.first - k, c.count, None)
            return a + b if isinstance(e.op, ast.Add) else a - b
        if isinstance(e, ast.BinOp) and isinstance(e.op, ast.Mult):
            a, b = ev(e.left, env, flags), ev(e.right, env, flags)
            if isinstance(a, _Cols) or isinstance(b, _Cols):
                raise Unknown(src(e))
            return a * b
        if isinstance(e, ast.BinOp) and isinstance(e.op, ast.Mod):
            a, m = ev(e.left, env, flags), ev(e.right, env, flags)
            if isinstance(m, _Cols):
                raise Unknown(src(e))
            if isinstance(a, _Cols):
                if a.mod is not None:
                    raise Unknown(src(e))
                return _Cols(a.first, a.count, m)
            return opaque(e)                        # a scalar position folded into the period: not followed further
        if isinstance(e, ast.Call):
            f = src(e.func)
            if f in ("np.arange", "range", "slice") and not e.keywords and 1 <= len(e.args) <= 2:
                vals = [ev(a, env, flags) for a in e.args]
                if any(isinstance(v, _Cols) for v in vals):
                    raise Unknown(src(e))
                lo, hi = (sp.Integer(0), vals[0]) if len(vals) == 1 else vals
                return _Cols(lo, hi - lo, None)
            if f in ("np.mod", "np.remainder") and len(e.args) == 2:
                a, m = ev(e.args[0], env, flags), ev(e.args[1], env, flags)
                if isinstance(a, _Cols) and a.mod is None and not isinstance(m, _Cols):
                    return _Cols(a.first, a.count, m)
                if not isinstance(a, _Cols) and not isinstance(m, _Cols):
                    return opaque(e)
                raise Unknown(src(e))
            if f in ("min", "max", "int") and e.args and not e.keywords:
                for a in e.args:
                    if isinstance(ev(a, env, flags), _Cols):
                        raise Unknown(src(e))
                return opaque(e)
            if f in ("np.array", "np.asarray", "list", "np.atleast_1d") and len(e.args) >= 1:
                return ev(e.args[0], env, flags)
            if isinstance(e.func, ast.Name) and isinstance(env.get(e.func.id), tuple) and env[e.func.id][0] == "closure" and \
                    len(e.args) == 1 and not e.keywords:
                _k, par, body, cenv, pre = env[e.func.id]
                inner = dict(cenv)
                inner[par] = ev(e.args[0], env, flags)
                for x in pre:                       # locals of the closure, in order
                    try:
                        inner[x.targets[0].id] = ev(x.value, inner, flags)
                    except Unknown:
                        inner[x.targets[0].id] = None
                return ev(body, inner, flags)
            raise Unknown(src(e))
        if isinstance(e, ast.ListComp) and len(e.generators) == 1 and isinstance(e.generators[0].target, ast.Name) and not e.generators[0].ifs:
            g = e.generators[0]
            rng = ev(g.iter, env, flags)
            if not isinstance(rng, _Cols) or rng.mod is not None:
                raise Unknown(src(e))
            inner = dict(env)
            inner[g.target.id] = s
            elt, mod = e.elt, None
            if isinstance(elt, ast.BinOp) and isinstance(elt.op, ast.Mod):
                mod = ev(elt.right, inner, flags)
                elt = elt.left
            val = ev(elt, inner, flags)
            if isinstance(val, _Cols) or isinstance(mod, _Cols) or sp.expand(val).coeff(s) != 1:
                raise Unknown(src(e))
            return _Cols(sp.expand(val).subs(s, rng.first), rng.count, mod)
        raise Unknown(src(e))

    def cols_of(e, env, flags, width):
        """index set denoted by the column part of a subscript"""
        if e is None:
            return None
        try:
            if isinstance(e, ast.Slice):
                if e.step is not None:
                    return None
                lo = sp.Integer(0) if e.lower is None else ev(e.lower, env, flags)
                hi = width if e.upper is None else ev(e.upper, env, flags)
                if hi is None or isinstance(lo, _Cols) or isinstance(hi, _Cols):
                    return None
                return _Cols(lo, hi - lo, None)
            v = ev(e, env, flags)
            return v if isinstance(v, _Cols) else None
        except Unknown:
            return None

    def full(x):
        return isinstance(x, ast.Slice) and x.lower is None and x.upper is None and x.step is None

    def target_parts(t):
        """(buffer name, row part, column part) of a store target `B[r, c]` / `B[r][c]`, or None"""
        if not isinstance(t, ast.Subscript):
            return None
        if isinstance(t.value, ast.Name):
            if isinstance(t.slice, ast.Tuple) and len(t.slice.elts) == 2:
                return t.value.id, t.slice.elts[0], t.slice.elts[1]
            return t.value.id, t.slice, None
        if isinstance(t.value, ast.Subscript) and isinstance(t.value.value, ast.Name) and not isinstance(t.value.slice, (ast.Tuple, ast.Slice)):
            return t.value.value.id, t.value.slice, t.slice
        return None

    def part_of(e, st8, env, flags):
        """`U[:, a:b]` (optionally `.copy()`) of a recorded matrix -> (U, a, b)"""
        if isinstance(e, ast.Call) and isinstance(e.func, ast.Attribute) and e.func.attr == "copy" and not e.args:
            e = e.func.value
        if isinstance(e, ast.Call) and src(e.func) in ("np.array", "np.copy", "np.ascontiguousarray") and len(e.args) == 1:
            e = e.args[0]
        tp = target_parts(e) if isinstance(e, ast.Subscript) else None
        if tp is None or tp[0] not in st8.bufs or not full(tp[1]) or not isinstance(tp[2], ast.Slice):
            return None
        c = cols_of(tp[2], env, flags, st8.bufs[tp[0]])
        if c is None:
            return None
        return tp[0], c.first, c.first + c.count

    def inline(call, env):
        """statements of a local function with its parameters replaced by the actual arguments (syntactic substitution: the
        parameters are not assigned in its body), and the expression it returns"""
        kind, params, body = env[call.func.id][:3]
        if call.keywords or len(call.args) != len(params):
            return None
        stored = {n.id for x in body for n in ast.walk(x) if isinstance(n, ast.Name) and isinstance(n.ctx, ast.Store)}
        if stored & set(params):
            return None
        sub = dict(zip(params, call.args))
        stmts = [_Sub(sub).visit(_clone(x)) for x in body]
        rets = [x for x in stmts for r in ast.walk(x) if isinstance(r, ast.Return)]
        if any(isinstance(r, ast.Return) for x in stmts[:-1] for r in ast.walk(x)):
            return None
        ret = stmts[-1].value if stmts and isinstance(stmts[-1], ast.Return) else None
        return [x for x in stmts if not isinstance(x, ast.Return)], ret

    def walk(stmts, env, flags, st8):
        """-> True when a `return` was reached"""
        for st in stmts:
            if isinstance(st, ast.Expr) and isinstance(st.value, ast.Constant):
                continue
            if isinstance(st, ast.FunctionDef):
                params = [a.arg for a in st.args.args]
                body_ = [x for x in st.body if not (isinstance(x, ast.Expr) and isinstance(x.value, ast.Constant))]
                rets = [r.value for r in ast.walk(st) if isinstance(r, ast.Return)]
                straight = all(isinstance(x, ast.Assign) and len(x.targets) == 1 and isinstance(x.targets[0], ast.Name) for x in body_[:-1]) and \
                    bool(body_) and isinstance(body_[-1], ast.Return)
                if len(params) == 1 and len(rets) == 1 and straight and not any(isinstance(c, ast.Call) and "find_span" in src(c.func)
                                                                                for c in ast.walk(st)):
                    env[st.name] = ("closure", params[0], rets[0], dict(env), body_[:-1])
                else:
                    env[st.name] = ("proc", params, body_)
                continue
            if isinstance(st, ast.Return):
                if isinstance(st.value, ast.Name):
                    st8.returned = st.value.id
                else:
                    p_ = part_of(st.value, st8, env, flags) if st.value is not None else None
                    if p_ is not None:
                        st8.parts["<returned>"] = p_
                        st8.bufs["<returned>"] = p_[2] - p_[1]
                        st8.returned = "<returned>"
                    else:
                        st8.notes.append(f"`{src(st)[:60]}` does not return a recorded matrix")
                return True
            # calls of local functions written back in place
            call = st.value if isinstance(st, (ast.Expr, ast.Assign)) and isinstance(st.value, ast.Call) else None
            if call is not None and isinstance(call.func, ast.Name) and isinstance(env.get(call.func.id), tuple) and \
                    env[call.func.id][0] == "proc":
                got = inline(call, env)
                if got is None:
                    st8.notes.append(f"`{src(st)[:60]}`: call of a local function not followed")
                    continue
                body_, ret = got
                if walk(body_, env, flags, st8):
                    return True
                if isinstance(st, ast.Assign) and ret is not None:
                    if walk([ast.copy_location(ast.Assign(targets=st.targets, value=ret, lineno=st.lineno), st)], env, flags, st8):
                        return True
                continue
            if isinstance(st, ast.Assign) and len(st.targets) == 1 and isinstance(st.targets[0], ast.Name):
                name = st.targets[0].id
                v = st.value
                if isinstance(v, ast.Lambda) and len(v.args.args) == 1:
                    env[name] = ("closure", v.args.args[0].arg, v.body, dict(env), [])
                    continue
                if isinstance(v, ast.Call) and src(v.func) in ("np.zeros", "np.empty") and v.args and isinstance(v.args[0], ast.Tuple) \
                        and len(v.args[0].elts) == 2:
                    try:
                        w = ev(v.args[0].elts[1], env, flags)
                        st8.bufs[name] = None if isinstance(w, _Cols) else w
                    except Unknown:
                        st8.bufs[name] = None
                    continue
                p_ = part_of(v, st8, env, flags)
                if p_ is not None:
                    st8.parts[name] = p_
                    st8.bufs[name] = p_[2] - p_[1]
                    continue
                if isinstance(v, ast.Name) and v.id in st8.bufs:
                    st8.bufs[name] = st8.bufs[v.id]
                    st8.parts[name] = (v.id, sp.Integer(0), st8.bufs[v.id])
                    continue
                if name in span_fam:
                    continue
                try:
                    env[name] = ev(v, env, flags)
                except Unknown:
                    env[name] = None
                continue
            if isinstance(st, ast.AugAssign) and isinstance(st.target, ast.Name) and st.target.id in env:
                try:
                    env[st.target.id] = ev(ast.BinOp(left=st.target, op=st.op, right=st.value), env, flags)
                except Unknown:
                    env[st.target.id] = None
                continue
            # stores into a matrix
            kind, tp, value = None, None, None
            if isinstance(st, ast.Expr) and isinstance(st.value, ast.Call) and src(st.value.func) in ("np.add.at", "numpy.add.at") and len(st.value.args) == 3 \
                    and isinstance(st.value.args[0], ast.Name) and st.value.args[0].id in st8.bufs:
                ix = st.value.args[1]
                kind, value = "add.at", st.value.args[2]
                tp = (st.value.args[0].id, ix.elts[0], ix.elts[1]) if isinstance(ix, ast.Tuple) and len(ix.elts) == 2 else (st.value.args[0].id, ix, None)
            elif isinstance(st, (ast.Assign, ast.AugAssign)):
                t = st.targets[0] if isinstance(st, ast.Assign) else st.target
                tp = target_parts(t)
                if tp is not None and tp[0] in st8.bufs:
                    kind, value = ("assign" if isinstance(st, ast.Assign) else "iadd"), st.value
                else:
                    tp = None
            if kind is not None:
                buf, row, col = tp
                # whole-matrix addition of a block of columns of another matrix onto a block of this one
                if kind == "iadd" and isinstance(st.op, ast.Add) and full(row):
                    src_part = part_of(value, st8, env, flags)
                    c = cols_of(col, env, flags, st8.bufs[buf])
                    if src_part is not None and c is not None and c.mod is None:
                        st8.folds.append((buf, c.first, c.first + c.count, src_part[0], src_part[1], src_part[2], st))
                        continue
                cols = cols_of(col, env, flags, st8.bufs[buf])
                raw = isinstance(value, ast.Name) and value.id in basis_arrays or \
                    (isinstance(value, ast.Subscript) and isinstance(value.value, ast.Name) and value.value.id in basis_arrays)
                st8.fills.append({"kind": kind, "cols": cols, "st": st, "buf": buf, "loop": st8.loops[-1] if st8.loops else None,
                                  "raw": bool(raw), "whole": full(row)})
                continue
            if isinstance(st, ast.If):
                fv = flag_value(st.test, flags)
                if fv is not None:
                    if walk(st.body if fv else st.orelse, env, flags, st8):
                        return True
                else:
                    e1, e2 = dict(env), dict(env)
                    r1 = walk(st.body, e1, flags, st8)
                    r2 = walk(st.orelse, e2, flags, st8)
                    for k in set(e1) | set(e2):
                        a, b = e1.get(k), e2.get(k)
                        same = (isinstance(a, _Cols) and isinstance(b, _Cols) and repr(a) == repr(b)) or (not isinstance(a, _Cols) and a is b) \
                            or (isinstance(a, sp.Basic) and isinstance(b, sp.Basic) and a == b)
                        env[k] = a if same else None
                    if r1 and r2:
                        return True
                    if r1 or r2:
                        st8.notes.append(f"`if {src(st.test)[:40]}`: returns on one arm only")
                continue
            if isinstance(st, (ast.For, ast.While, ast.With)):
                # names (re)bound by the loop header or inside a loop body hold another value on every pass: what was known about them
                # before the loop is not what a store inside the loop sees
                for x in ast.walk(st):
                    if isinstance(x, ast.Name) and isinstance(x.ctx, ast.Store) and x.id in env and not isinstance(env[x.id], tuple):
                        env[x.id] = None
                st8.loops.append(st)
                try:
                    if walk(st.body, env, flags, st8):
                        st8.notes.append("return inside a loop")
                finally:
                    st8.loops.pop()
                continue
            # ---- anything else: a statement the reading does not model.  ASSUMPTION of every verdict: the index sets and matrices are
            # changed by the modelled statements only.  A store through a name that holds an index set (`js[js >= nb] -= nb`), a method
            # called on it or on a matrix (`js.sort()`, `mat.fill(0)`), a call that receives one (`np.put(mat, ...)`, `np.mod(js, nb,
            # out=js)`) may change it: the name is forgotten, a matrix is marked as touched (its verdicts become UNDECIDED).
            touched = set()
            for x in ast.walk(st):
                if isinstance(x, (ast.Subscript, ast.Attribute)) and isinstance(x.ctx, (ast.Store, ast.Del)):
                    r = x
                    while isinstance(r, (ast.Subscript, ast.Attribute)):
                        r = r.value
                    if isinstance(r, ast.Name):
                        touched.add(r.id)
                if isinstance(x, ast.Name) and isinstance(x.ctx, (ast.Store, ast.Del)):
                    touched.add(x.id)
                if isinstance(x, ast.Call):
                    if isinstance(x.func, ast.Attribute) and isinstance(x.func.value, ast.Name):
                        touched.add(x.func.value.id)
                    if isinstance(st, ast.Expr) or any(k.arg == "out" for k in x.keywords):
                        for a in list(x.args) + [k.value for k in x.keywords]:
                            if isinstance(a, ast.Name):
                                touched.add(a.id)
            for n_ in touched:
                if n_ in env and not isinstance(env[n_], tuple):
                    env[n_] = None
                if n_ in st8.bufs:
                    st8.unmodelled.append(f"`{src(st)[:60]}` works on the matrix `{n_}` in a way that is not modelled")
        return False

    out = {}
    for per in (True, False):
        for fam in ("cu", "nu"):
            flags = {}
            if per_name:
                flags[per_name] = per
            if fam_name:
                flags[fam_name] = fam == "cu"
            st8 = State()
            walk(cm.body, {}, flags, st8)
            out[(per, fam)] = st8
    out["symbols"] = {"first": first, "degree": degree, "nb": nb}
    return out


def collocation_verdicts(cm, k_cu):
    """-> (columns verdict, diagnosis, node), (accumulation verdict, diagnosis, node) over the four kinds of space"""
    res = collocation_analysis(cm, k_cu)
    first, degree, nb = (res["symbols"][k] for k in ("first", "degree", "nb"))
    okj, badj, okf, badf = True, None, True, None
    nodej = nodef = cm
    whyj = whyf = None

    def undec_j(why):
        nonlocal okj, whyj
        if okj:
            okj, whyj = None, why

    def undec_f(why):
        nonlocal okf, whyf
        if okf:
            okf, whyf = None, why
    for (per, fam) in ((True, "cu"), (True, "nu"), (False, "cu"), (False, "nu")):
        st8 = res[(per, fam)]
        what = ("periodic" if per else "clamped") + (" uniform cubic" if fam == "cu" else "")
        sub = {degree: 3} if fam == "cu" else {}

        def same(a, b):
            return sp.expand((a - b).subs(sub)) == 0
        if st8.unmodelled:
            undec_j(f"on a {what} space {st8.unmodelled[0]}")
            undec_f(whyj or "")
            continue
        R = st8.returned
        if R is None or R not in st8.bufs:
            cands = [b for b, w in st8.bufs.items() if w is not None and _same(w, nb)]
            R = cands[0] if len(cands) == 1 and st8.returned is None else None
        if R is None or not st8.fills:
            undec_j(f"on a {what} space the matrix returned is not one the analysis has recorded the stores of" +
                    (": " + "; ".join(st8.notes[:2]) if st8.notes else ""))
            undec_f(whyj or "")
            continue
        # where the returned matrix takes its content from
        source, folded = R, False
        wR = st8.bufs.get(R)
        if not any(f["buf"] == R for f in st8.fills) and R in st8.parts:
            U, lo, hi = st8.parts[R]
            wU = st8.bufs.get(U)
            if wU is None or not _same(lo, 0):
                undec_j(f"on a {what} space the matrix returned is a part of `{U}` that is not followed")
                undec_f(whyj or "")
                continue
            source = U
            if not same(hi, wU):
                # the columns beyond the part kept must be added back onto its first columns
                fl = [f for f in st8.folds if f[0] == R and f[3] == U]
                if len(fl) == 1 and same(fl[0][1], 0) and same(fl[0][4], hi) and same(fl[0][5], wU) and same(fl[0][2] - fl[0][1], wU - hi):
                    folded = True
                else:
                    undec_j(f"on a {what} space the matrix returned keeps the columns [0, {hi}) of `{U}` ({wU} columns); what happens to the "
                            "others is not followed")
                    undec_f(whyj or "")
                    continue
            wR = hi - lo
        if wR is None or not same(wR, nb):
            undec_j(f"on a {what} space the matrix returned has {wR} columns, not nb")
            undec_f(whyj or "")
            continue
        fills = [f for f in st8.fills if f["buf"] == source]
        others = [f for f in st8.fills if f["buf"] != source and f["buf"] == R]
        if not fills or others:
            undec_j(f"on a {what} space the stores into the matrix returned are not followed")
            undec_f(whyj or "")
            continue
        for f in fills:
            cols, kind, st = f["cols"], f["kind"], f["st"]
            if cols is None or cols.first.atoms(sp.Symbol) - {first, degree, nb} or cols.count.atoms(sp.Symbol) - {first, degree, nb}:
                undec_j(None)
            else:
                eff_mod = cols.mod if cols.mod is not None else (wR if folded else None)
                probs = []
                if not same(cols.first, first) or not same(cols.count, degree + 1):
                    lo_ = sp.expand((cols.first - first).subs(sub))
                    probs.append(f"on a {what} space row i gets the {sp.expand(cols.count.subs(sub))} columns that start {lo_} after the first "
                                 f"non-vanishing basis function (`{src(st)[:70]}`; the span search of this family returns first + "
                                 f"{'degree' if fam == 'nu' else k_cu}): the non-vanishing basis functions at a point are the degree+1 functions "
                                 "first .. first+degree = span-degree .. span")
                if per and (eff_mod is None or not same(eff_mod, nb)):
                    probs.append("on a periodic space the column indices are not taken modulo the number of basis functions: the functions "
                                 "that wrap around the period fall outside the matrix" if eff_mod is None else
                                 f"on a periodic space the column indices are taken modulo {eff_mod} instead of nb")
                if not per and cols.mod is not None and not same(cols.mod, nb) and not probs:
                    undec_j(None)          # indices of a clamped space taken modulo something else: not decided
                if probs and okj is not False:
                    okj, badj, nodej = False, "; ".join(probs), st
            if not per:
                continue
            # periodic: values that fall on the same (wrapped) column must add up
            if kind == "add.at" or (folded and source != R):
                continue
            if cols is not None and cols.mod is not None:
                if okf is not False:
                    okf, nodef = False, st
                    badf = (f"`{src(st)[:80]}` " + ("assigns" if kind == "assign" else "adds with a buffered in-place operation (one write per "
                                                     "distinct index)") +
                            " the basis values at the wrapped columns: when a periodic space has as many cells as the "
                            "degree the same column occurs twice among the degree+1 wrapped indices and only the last value is kept instead of "
                            "the sum - the matrix is not the collocation matrix, interpolants do not reproduce their data")
                continue
            if cols is None or not f["raw"]:
                undec_f(None)
                continue
        if per and okf is not False:
            # pigeonhole: degree+1 raw basis values stored into one row of nb columns without accumulation
            groups = {}
            for f in fills:
                if f["kind"] != "add.at" and f["raw"] and f["cols"] is not None and not (folded and source != R) and f["cols"].mod is None:
                    groups.setdefault(id(f["loop"]), []).append(f)
            for g in groups.values():
                total = sum((f["cols"].count for f in g), sp.Integer(0))
                if same(total, degree + 1) and same(st8.bufs.get(g[0]["buf"]), nb):
                    okf, nodef = False, g[0]["st"]
                    badf = (" and ".join(f"`{src(f['st'])[:60]}`" for f in g) + (" assign" if len(g) > 1 else " assigns") +
                            " the degree+1 basis values of a point into one row of the nb-column matrix of a periodic space (each column "
                            "written at most once per statement, nothing is added): a periodic space may have as many cells as its degree "
                            "(nb == degree), the degree+1 functions of a span then fall on degree columns, one column receives two values and "
                            "keeps the last one instead of their sum - the matrix is not the collocation matrix (interpolants do not "
                            "reproduce their data, quadrature weights do not sum to the domain length)")
                    break
    return (okj, badj or whyj, nodej), (okf, badf or whyf, nodef)


def collocation_fill(chk, cm, rules=("H1-collocation-columns", "H1-collocation-accumulate")):
    fq = f"{C1}.collocation_matrix"
    from .C07 import uniform_span_analysis
    try:
        k_cu = uniform_span_analysis(chk.mod(U.CU).func("cu_find_span"))["K"]
    except Exception:
        k_cu = None
    (okj, badj, nodej), (okf, badf, nodef) = collocation_verdicts(cm, k_cu)
    chk.ob(rules[0], nodej, "columns [span-degree, span] (mod nb when periodic)", okj,
           "row i holds the degree+1 non-vanishing basis values at columns span-degree..span, wrapped modulo the number of basis "
           "functions on periodic spaces" if okj else (badj or "the column indices of a store into the matrix are not followed (index expression "
                                                       "outside ranges / slices / shifted and wrapped index arrays / closures over the span)"),
           file=U.INTERP, func=fq)
    chk.ob(rules[1], nodef, "np.add.at(mat, (i, js(span)), basis) on both arms", okf,
           "values falling on the same (wrapped) column are added (unbuffered accumulation)" if okf else
           (badf or "a store into the matrix is not followed: cannot decide whether repeated wrapped columns accumulate"),
           file=U.INTERP, func=fq)


LAPACK_ROLES = ["ab", "kl", "ku", "b", "ipiv"]
FACTORS = {"ab": "self._bmat", "kl": "self._l", "ku": "self._u", "ipiv": "self._ipiv"}


def banded_solve_roles(call):
    """-> (wrong, unknown, bound) for a call of the LAPACK banded solve xgbtrs(ab, kl, ku, b, ipiv, ...)"""
    got = {n_: a for n_, a in zip(LAPACK_ROLES, call.args)}
    for k in call.keywords:
        if k.arg in LAPACK_ROLES:
            got[k.arg] = k.value
    wrong = [f"`{k}` receives `{src(got[k])}` instead of `{w}`" for k, w in FACTORS.items() if k in got and src(got[k]) != w
             and src(got[k]) in FACTORS.values()]
    unknown = [k for k, w in FACTORS.items() if k not in got or (src(got[k]) != w and src(got[k]) not in FACTORS.values())]
    return wrong, unknown, got


def _mentions_dtype(e):
    return any(isinstance(x, ast.Name) and x.id == "dtype" for x in ast.walk(e))


def _complex_test(t):
    """(is a test for complex data?, kind) kind: 'eq' equality / 'is' identity; None when the test is not understood.
    polarity: True when the test is true for complex data"""
    if isinstance(t, ast.Compare) and len(t.ops) == 1 and {src(t.left), src(t.comparators[0])} in (
            {"dtype", "complex"}, {"np.dtype(dtype)", "complex"}, {"dtype", "np.complex128"}, {"np.dtype(dtype)", "np.dtype(complex)"},
            {"np.dtype(dtype)", "np.complex128"}):
        op = t.ops[0]
        if isinstance(op, (ast.Eq, ast.NotEq)):
            return isinstance(op, ast.Eq), "eq"
        if isinstance(op, (ast.Is, ast.IsNot)):
            return isinstance(op, ast.Is), "is"
    if isinstance(t, ast.Call) and src(t.func) in ("np.issubdtype", "np.iscomplexobj") and t.args and "dtype" in src(t.args[0]):
        return True, "eq"
    return None


def _bindings(flat, case_test=None, case=None):
    """name / `self.attr` -> value expression (or (call, k) for the k-th result of a call), from the straight-line statements in order"""
    env = {}
    for st in flat:
        if not isinstance(st, ast.Assign) or len(st.targets) != 1:
            continue
        t, v = st.targets[0], st.value
        pairs = []
        if isinstance(t, ast.Tuple):
            if isinstance(v, ast.Tuple) and len(v.elts) == len(t.elts):
                pairs = list(zip(t.elts, v.elts))
            else:
                pairs = [(el, (v, k)) for k, el in enumerate(t.elts)]
        else:
            pairs = [(t, v)]
        for a, b in pairs:
            if isinstance(a, ast.Name) or (isinstance(a, ast.Attribute) and src(a.value) == "self"):
                env[src(a)] = b
    return env


def _routine(e, env, case_test, case, depth=0):
    """what a callable expression denotes: ('name', routine) for a module-level routine, ('lapack', k-th name, call) for a result of
    get_lapack_funcs, None otherwise"""
    if depth > 6:
        return None
    if isinstance(e, tuple):
        call, k = e
        if isinstance(call, ast.Call) and src(call.func).endswith("get_lapack_funcs") and call.args:
            names = call.args[0]
            if isinstance(names, (ast.Tuple, ast.List)) and k < len(names.elts) and isinstance(names.elts[k], ast.Constant):
                return ("lapack", names.elts[k].value, call)
        return None
    if isinstance(e, ast.IfExp) and case_test is not None and src(_polarity(e.test)[0]) == case_test:
        take_body = case != _polarity(e.test)[1]
        return _routine(e.body if take_body else e.orelse, env, case_test, case, depth + 1)
    if isinstance(e, (ast.Name, ast.Attribute)):
        s_ = src(e)
        if s_ in env:
            return _routine(env[s_], env, case_test, case, depth + 1)
        if isinstance(e, ast.Name):
            return ("name", e.id)
    if isinstance(e, ast.Call) and src(e.func).endswith("get_lapack_funcs") and e.args and isinstance(e.args[0], ast.Constant):
        return ("lapack", e.args[0].value, e)
    return None


# ---- routines selected by a table lookup keyed by the interpolator's dtype -------------------------------------------------------------
# A dictionary finds a key by HASH and then equality.  `np.dtype(complex) == complex` is True (numpy converts the right-hand side) but
# hash(np.dtype(complex)) != hash(complex): a table keyed by the Python / numpy scalar TYPES is found by `dtype=complex` and missed by
# `dtype=np.dtype(complex)` (or an array's `.dtype`), which the equality test `dtype == complex` of the reference accepts.  The objects are
# therefore put in classes: ('py', letter) the builtin types, ('nps', letter) numpy scalar types, ('dt', letter) dtype instances; a lookup
# hits iff class and letter agree (builtin `complex` and np.complex128 are different objects and compare unequal).
_KEY_CLASS = {"complex": ("py", "z"), "float": ("py", "d"),
              "np.complex128": ("nps", "z"), "numpy.complex128": ("nps", "z"), "np.cdouble": ("nps", "z"),
              "np.float64": ("nps", "d"), "numpy.float64": ("nps", "d"), "np.double": ("nps", "d"),
              "np.dtype(complex)": ("dt", "z"), "np.dtype('complex128')": ("dt", "z"), "np.dtype(np.complex128)": ("dt", "z"),
              "numpy.dtype(complex)": ("dt", "z"),
              "np.dtype(float)": ("dt", "d"), "np.dtype('float64')": ("dt", "d"), "np.dtype(np.float64)": ("dt", "d"),
              "numpy.dtype(float)": ("dt", "d")}
# the spellings of the interpolator's dtype the reference treats as complex / as real data (`dtype == complex`)
_PASSED = {("py", "z"): "complex", ("dt", "z"): "np.dtype(complex)", ("py", "d"): "float", ("dt", "d"): "np.dtype(float)"}


def _as_lookup(v, env, depth=0):
    """the expression `T.get(K[, D])` / `T[K]` (K mentions the interpolator's dtype) a value denotes, through locals; None otherwise"""
    if depth > 6 or isinstance(v, tuple):
        return None
    if isinstance(v, ast.Name) and v.id in env:
        return _as_lookup(env[v.id], env, depth + 1)
    if isinstance(v, ast.Call) and isinstance(v.func, ast.Attribute) and v.func.attr == "get" and 1 <= len(v.args) <= 2 and not v.keywords \
            and _mentions_dtype(v.args[0]):
        return v
    if isinstance(v, ast.Subscript) and _mentions_dtype(v.slice):
        return v
    return None


def _lookup_component(e, env, depth=0):
    """-> (lookup expression, k) when the callable `e` is the k-th component of the value of a dtype-keyed table lookup"""
    if depth > 6:
        return None
    if isinstance(e, tuple):
        lk = _as_lookup(e[0], env)
        return (lk, e[1]) if lk is not None else None
    if isinstance(e, (ast.Name, ast.Attribute)) and src(e) in env:
        return _lookup_component(env[src(e)], env, depth + 1)
    if isinstance(e, ast.Subscript) and isinstance(e.slice, ast.Constant) and isinstance(e.slice.value, int) and not _mentions_dtype(e.slice):
        lk = _as_lookup(e.value, env)
        return (lk, e.slice.value) if lk is not None else None
    return None


def _table_literal(t, env, imod, depth=0):
    """the dictionary display a table expression denotes (a display, a local, or a module-level name assigned once and never modified)"""
    if depth > 4:
        return None
    if isinstance(t, ast.Dict):
        return t if all(k is not None for k in t.keys) else None
    if isinstance(t, ast.Call) and src(t.func) == "dict" and len(t.args) == 1 and not t.keywords:
        return _table_literal(t.args[0], env, imod, depth + 1)
    if not isinstance(t, ast.Name):
        return None
    if t.id in env:
        return None if isinstance(env[t.id], tuple) else _table_literal(env[t.id], env, imod, depth + 1)
    defs_ = [st for st in imod.tree.body if isinstance(st, ast.Assign) and any(isinstance(x, ast.Name) and x.id == t.id for x in st.targets)]
    if len(defs_) != 1 or len(defs_[0].targets) != 1:
        return None
    for n in ast.walk(imod.tree):
        # any other store to the name, store into it, or mutating method call: the table is not the display read here
        if isinstance(n, ast.Name) and n.id == t.id and isinstance(n.ctx, (ast.Store, ast.Del)) and n is not defs_[0].targets[0]:
            return None
        if isinstance(n, ast.Subscript) and isinstance(n.ctx, (ast.Store, ast.Del)) and src(n.value) == t.id:
            return None
        if isinstance(n, ast.Call) and isinstance(n.func, ast.Attribute) and src(n.func.value) == t.id and \
                n.func.attr in ("update", "pop", "popitem", "setdefault", "clear", "__setitem__", "__delitem__"):
            return None
    return _table_literal(defs_[0].value, env, imod, depth + 1)


def _entry_routines(v, env, imod, depth=0):
    """the (factorisation, solve) routine names a table value / default denotes: a 2-tuple of routines, or `T[<literal key>]`"""
    if depth > 4 or v is None:
        return None
    if isinstance(v, ast.Name) and v.id in env and not isinstance(env[v.id], tuple):
        return _entry_routines(env[v.id], env, imod, depth + 1)
    if isinstance(v, (ast.Tuple, ast.List)) and len(v.elts) == 2:
        rs = [_routine(el, env, None, None) for el in v.elts]
        if all(r is not None and r[0] == "name" for r in rs):
            return tuple(r[1] for r in rs)
        return None
    if isinstance(v, ast.Subscript) and src(v.slice) in _KEY_CLASS:
        tab = _table_literal(v.value, env, imod)
        if tab is None:
            return None
        hits = [val for k, val in zip(tab.keys, tab.values) if src(k) == src(v.slice)]
        return _entry_routines(hits[-1], env, imod, depth + 1) if hits else None
    return None


def table_dispatch(lookup, env, imod):
    """what a dtype-keyed lookup `T.get(K[, D])` / `T[K]` yields for each spelling of the interpolator's dtype the reference accepts.
    -> {('py'|'dt', 'z'|'d'): (factorisation, solve) | 'raises' | None (not followed)}, text; or None when the lookup is not understood.
    MODELLED: T a dictionary display whose keys are all spellings listed in _KEY_CLASS; K the dtype itself or np.dtype(dtype)."""
    if isinstance(lookup, ast.Call):
        t, k, has_default, default = lookup.func.value, lookup.args[0], len(lookup.args) == 2, (lookup.args[1] if len(lookup.args) == 2 else None)
    else:
        t, k, has_default, default = lookup.value, lookup.slice, False, None
    tab = _table_literal(t, env, imod)
    if tab is None or any(src(key) not in _KEY_CLASS for key in tab.keys):
        return None
    ks = src(k)
    if ks == "dtype":
        norm = (lambda c: c)
    elif ks in ("np.dtype(dtype)", "numpy.dtype(dtype)"):
        norm = (lambda c: ("dt", c[1]))
    else:
        return None
    out = {}
    for passed in _PASSED:
        eff = norm(passed)
        hits = [val for key, val in zip(tab.keys, tab.values) if _KEY_CLASS[src(key)] == eff]
        if hits:
            out[passed] = _entry_routines(hits[-1], env, imod)
        elif isinstance(lookup, ast.Subscript):
            out[passed] = "raises"
        elif has_default:
            out[passed] = _entry_routines(default, env, imod)
        else:
            out[passed] = None
    return out, f"`{src(lookup)[:90]}` with `{src(t)[:30]}` = `{src(tab)[:90]}`"


def _table_pair(fac_func, solve_expr, env, imod):
    """factorisation and solve both come from ONE dtype-keyed table lookup (components 0 / 1 of its value) -> (outcomes, text, lookup)"""
    a, b = _lookup_component(fac_func, env), _lookup_component(solve_expr, env)
    if a is None or b is None or a[0] is not b[0] or a[1] not in (0, 1) or b[1] not in (0, 1):
        return None
    td = table_dispatch(a[0], env, imod)
    if td is None:
        return None
    out = {k_: ((v[a[1]], v[b[1]]) if isinstance(v, tuple) else v) for k_, v in td[0].items()}
    return out, td[1], a[0]


_DTYPE_LETTER = {"complex": "z", "np.complex128": "z", "np.complex_": "z", "np.cdouble": "z", "numpy.complex128": "z", "'D'": "z",
                 "'complex128'": "z", "'complex'": "z", "np.dtype(complex)": "z", "np.dtype('complex128')": "z", "np.dtype(np.complex128)": "z",
                 "float": "d", "np.float64": "d", "np.float_": "d", "np.double": "d", "numpy.float64": "d", "'d'": "d", "'float64'": "d",
                 "'float'": "d", "np.dtype(float)": "d", "np.dtype('float64')": "d", "np.dtype(np.float64)": "d",
                 "np.complex64": "c", "'F'": "c", "'complex64'": "c", "np.csingle": "c",
                 "np.float32": "s", "'f'": "s", "'float32'": "s", "np.single": "s"}


def _dtype_kind(e, flat, case_test, case, depth=0):
    """what a dtype expression denotes in the constructor specialised to one outcome of the (single) test on the interpolator's dtype:
    'by-dtype' (the interpolator's dtype itself, possibly wrapped in np.dtype), a LAPACK precision letter 'z' 'd' 'c' 's' for a literal
    spelling, None when not followed.  Locals are followed through their single definition; a conditional expression on the case test
    is resolved to the arm taken in this case."""
    if depth > 6 or e is None:
        return None
    if isinstance(e, ast.IfExp):
        if case_test is not None and src(_polarity(e.test)[0]) == case_test:
            take_body = case != _polarity(e.test)[1]
            return _dtype_kind(e.body if take_body else e.orelse, flat, case_test, case, depth + 1)
        return None
    s_ = src(e)
    if s_ in ("dtype", "np.dtype(dtype)", "numpy.dtype(dtype)"):
        return "by-dtype"
    if s_ in _DTYPE_LETTER:
        return _DTYPE_LETTER[s_]
    if isinstance(e, ast.Constant) and isinstance(e.value, str):
        return _DTYPE_LETTER.get(repr(e.value))
    if isinstance(e, ast.Name) or (isinstance(e, ast.Attribute) and src(e.value) == "self"):
        defs_ = [st for st in flat if any(isinstance(n, (ast.Name, ast.Attribute)) and isinstance(getattr(n, "ctx", None), ast.Store) and
                                          src(n) == s_ for n in ast.walk(st))]
        if len(defs_) == 1 and isinstance(defs_[0], ast.Assign) and len(defs_[0].targets) == 1 and src(defs_[0].targets[0]) == s_:
            return _dtype_kind(defs_[0].value, flat, case_test, case, depth + 1)
        return None
    if isinstance(e, ast.Call) and src(e.func) in ("np.dtype", "numpy.dtype") and len(e.args) == 1 and not e.keywords:
        return _dtype_kind(e.args[0], flat, case_test, case, depth + 1)
    return None


def _lapack_flavour(call, flat, case_test=None, case=None):
    """how scipy.linalg.get_lapack_funcs(names, arrays=(), dtype=None) chooses the precision: from the arrays when there are any (the dtype
    argument is then ignored), otherwise from dtype.  -> ('by-dtype' | 'fixed' | 'z' 'd' 'c' 's' (explicit dtype of that LAPACK letter in
    this case of the dtype test) | None, text)"""
    arrays = call.args[1] if len(call.args) > 1 else next((k.value for k in call.keywords if k.arg == "arrays"), None)
    dt = call.args[2] if len(call.args) > 2 else next((k.value for k in call.keywords if k.arg == "dtype"), None)
    if arrays is not None and not (isinstance(arrays, (ast.Tuple, ast.List)) and not arrays.elts):
        if not isinstance(arrays, (ast.Tuple, ast.List)):
            return None, ""
        kinds = []
        for el in arrays.elts:
            d = None
            if isinstance(el, ast.Name):
                for st in flat:
                    if isinstance(st, ast.Assign) and len(st.targets) == 1 and src(st.targets[0]) == el.id:
                        d = st.value
            if isinstance(d, ast.Call) and src(d.func) in ("np.zeros", "np.empty", "np.ones", "np.full"):
                adt = next((k.value for k in d.keywords if k.arg == "dtype"), None)
                if adt is None and src(d.func) != "np.full" and len(d.args) > 1:
                    adt = d.args[1]
                kinds.append("by-dtype" if adt is not None and _mentions_dtype(adt) else "fixed" if adt is None else None)
            else:
                kinds.append(None)
        if any(k is None for k in kinds):
            return None, ""
        if "by-dtype" in kinds:
            return "by-dtype", ""
        return "fixed", (f"`{src(call)[:90]}` is given the array(s) `{src(arrays)}`: scipy then deduces the LAPACK precision from these arrays"
                         + (" and ignores its `dtype` argument" if dt is not None else "") +
                         "; the band matrix is a real array whatever the interpolator's dtype")
    if dt is not None:
        # an explicit dtype: follow where it comes from (the interpolator's dtype itself, or a literal chosen by the test on it)
        k_ = _dtype_kind(dt, flat, case_test, case)
        if k_ is not None:
            return k_, f"`{src(call)[:90]}` with `{src(dt)}`"
        if _mentions_dtype(dt):
            return "by-dtype", ""
        return None, ""
    return "fixed", f"`{src(call)[:90]}` is given neither arrays nor the interpolator's dtype: the double-precision real routines are returned"


def _table_verdict(tp, fac_st):
    """verdict of H2-factor-solve-pair when the pair is selected by a dtype-keyed table lookup -> (ok, bad, node)"""
    out, text, lookup = tp
    node = fac_st
    Z, D = ("zgbtrf", "zgbtrs"), ("dgbtrf", "dgbtrs")
    allowed = {(a, b) for a in (Z[0], D[0]) for b in (Z[1], D[1])}
    # ASSUMPTION of every VIOLATED below: the outcome of the lookup for this spelling of the dtype was followed to two module-level LAPACK
    # routines (table display read completely, never modified; default followed)
    if any(v is None or (isinstance(v, tuple) and v not in allowed) for v in out.values()):
        return None, None, node
    for passed, v in out.items():
        if isinstance(v, tuple) and v[0][0] != v[1][0]:
            return False, (f"{text}: for dtype={_PASSED[passed]} the constructor takes {v}: factorisation and solve are not of one precision, "
                           "so complex factors are solved by the real routine or the reverse"), node
    if out[("py", "z")] == D and out[("dt", "z")] == D:
        return False, (f"{text}: complex data take the real pair {D}: the real solve drops the imaginary part of complex data"), node
    if out[("py", "z")] == Z and out[("dt", "z")] == D:
        return False, (f"{text}: the routines are found by a dictionary lookup keyed by the dtype object itself; a dictionary finds a key by hash "
                       "and equality, and although np.dtype(complex) == complex is True its hash is not hash(complex): dtype=complex finds "
                       f"{Z}, but the same dtype given as a numpy dtype object (np.dtype(complex), an array's .dtype), which the equality test "
                       f"`dtype == complex` accepts, misses the key and falls back to {D}: the real routines silently drop the imaginary part"), node
    if out[("dt", "z")] == Z and out[("py", "z")] == D:
        return False, (f"{text}: the table is keyed by numpy dtype objects and looked up with the dtype as given: dtype=complex (the builtin "
                       f"type) misses the key and falls back to {D}: the real routines drop the imaginary part of complex data"), node
    fargs_ok = len(fac_st.value.args) >= 3 and [src(a) for a in fac_st.value.args[1:3]] == ["self._l", "self._u"]
    if out[("py", "z")] == Z and out[("dt", "z")] == Z and out[("py", "d")] == D and out[("dt", "d")] == D and fargs_ok:
        return True, None, node
    return None, None, node         # a spelling raises KeyError, or real data take the complex pair (wasteful, not wrong)


def routine_pair(imod, body, init):
    """which factorisation produces the factors and which solve routine is kept, for complex and for real data -> (ok, bad, node)"""
    flat0 = _flat(body)
    tests = {}
    for st in flat0:
        cands = [st.test] if isinstance(st, ast.If) else []
        cands += [x.test for x in own_exprs(st) if isinstance(x, ast.IfExp)]
        for t in cands:
            if _mentions_dtype(t):
                tests.setdefault(src(_polarity(t)[0]), _polarity(t)[0])
    node = init
    if len(tests) > 1:
        return None, None, node
    case_src = next(iter(tests), None)
    cases = {}
    for case in ((True, False) if case_src else (None,)):
        facts = dict(_facts1(False))
        if case_src:
            facts[case_src] = case
        try:
            cb = Specialiser(imod, C1, facts=facts, keep={"collocation_matrix"}).run("__init__")
        except Exception:
            return None, None, node
        flat = _flat(cb)
        env = _bindings(flat)
        fac_st = None
        for st in flat:
            if isinstance(st, ast.Assign) and len(st.targets) == 1:
                t = st.targets[0]
                names = [src(x) for x in (t.elts if isinstance(t, ast.Tuple) else [t])]
                if names and names[0] == "self._bmat" and isinstance(st.value, ast.Call):
                    fac_st = st
        if fac_st is None or "self._solveFunc" not in env:
            if not any("_solveFunc" in src(st) for st in flat):
                return None, None, node
            return None, None, fac_st or node
        node = fac_st
        if case_src is None:
            tp = _table_pair(fac_st.value.func, env["self._solveFunc"], env, imod)
            if tp is not None:
                return _table_verdict(tp, fac_st)
        cases[case] = (_routine(fac_st.value.func, env, case_src, case), _routine(env["self._solveFunc"], env, case_src, case), fac_st, flat)
    if any(f is None or s_ is None for f, s_, _st, _fl in cases.values()):
        return None, None, node
    # routines obtained from scipy's table
    laps = [(f, s_, fl) for f, s_, _st, fl in cases.values() if f[0] == "lapack" or s_[0] == "lapack"]
    if laps:
        if len(laps) != len(cases):
            return None, None, node
        letters = {}
        for case, (f, s_, _st, fl) in cases.items():
            if f[0] != "lapack" or s_[0] != "lapack" or f[2] is not s_[2]:
                return None, None, node
            if not (str(f[1]).endswith("gbtrf") and str(s_[1]).endswith("gbtrs")):
                return None, None, node
            flav, text = _lapack_flavour(f[2], fl, case_src, case)
            if flav is None:
                return None, None, node
            if flav == "fixed":
                return False, (text + ": the real pair is selected for dtype=complex too, and the real solve drops the imaginary part of "
                               "complex data"), node
            letters[case] = (flav, text)
        if all(v[0] == "by-dtype" for v in letters.values()):
            return True, None, node
        # explicit literal dtypes: which one is taken for complex data is decided by the (understood) test on the interpolator's dtype
        if case_src is None:
            flav, text = letters[None]
            if flav == "d":
                return False, (text + ": the double-precision real routines are taken whatever the interpolator's dtype: the real solve "
                               "drops the imaginary part of complex data"), node
            return None, None, node
        ct = _complex_test(tests[case_src])
        if ct is None:
            return None, None, node
        pol, kind = ct
        if kind == "is":
            return False, (f"the complex pair is selected by `{case_src}`: an identity test is False for np.dtype(complex)/array.dtype, which then "
                           "silently takes the real LAPACK pair and drops the imaginary part"), node
        cflav, ctext = letters[pol]
        rflav, _rtext = letters[not pol]
        if cflav == "d":
            return False, (f"for complex data (`{case_src}`) {ctext} selects the real double-precision pair: the real solve drops the "
                           "imaginary part of complex data"), node
        if cflav in ("z", "by-dtype") and rflav in ("d", "by-dtype"):
            return True, None, node
        return None, None, node
    names = {case: (f[1], s_[1]) for case, (f, s_, _st, _fl) in cases.items()}
    allowed = {(a, b) for a in ("zgbtrf", "dgbtrf") for b in ("zgbtrs", "dgbtrs")}
    if not set(names.values()) <= allowed:
        return None, None, node
    if case_src is None:
        pair = names[None]
        if pair == ("dgbtrf", "dgbtrs"):
            return False, ("the constructor always takes (dgbtrf, dgbtrs), whatever the interpolator's dtype: the real solve drops the "
                           "imaginary part of complex data"), node
        if pair[0][0] != pair[1][0]:
            return False, f"the constructor takes {pair}: factorisation and solve are not of one precision", node
        return None, None, node
    ct = _complex_test(tests[case_src])
    if ct is None:
        return None, None, node
    pol, kind = ct
    arms = {True: names[pol], False: names[not pol]}          # complex data / real data
    fargs_ok = all(len(st.value.args) >= 3 and [src(a) for a in st.value.args[1:3]] == ["self._l", "self._u"] for _f, _s, st, _fl in cases.values())
    if kind == "is":
        return False, (f"the complex pair is selected by `{case_src}`: an identity test is False for np.dtype(complex)/array.dtype, which then "
                       "silently takes the real LAPACK pair and drops the imaginary part"), node
    want = {True: ("zgbtrf", "zgbtrs"), False: ("dgbtrf", "dgbtrs")}
    if arms != want:
        return False, (f"for complex data (`{case_src}`) the constructor takes {arms[True]}, otherwise {arms[False]}: factorisation and solve "
                       "are not the (z, z) / (d, d) pairs of one precision, so complex factors are solved by the real routine or the reverse"), node
    if not fargs_ok:
        return None, None, node
    return True, None, node


def _complex_handled_elsewhere(imod):
    """ASSUMPTION of "the real pair is taken for complex data, the imaginary part is dropped": complex data reach the solve as they are.
    An interpolator that splits them into real and imaginary parts (or views them as reals) anywhere solves complex data correctly with
    the real pair.  -> text naming the place, or None"""
    try:
        ms = imod.methods(C1)
    except Exception:
        return "methods of the interpolator not read"
    for mname, m in ms.items():
        for n in ast.walk(m):
            if isinstance(n, ast.Attribute) and n.attr in ("real", "imag"):
                return f"`{C1}.{mname}` takes `.{n.attr}` of an array (`{src(n)[:40]}`)"
            if isinstance(n, ast.Call) and src(n.func).split(".")[-1] in ("real", "imag", "iscomplexobj", "iscomplex", "view", "real_if_close"):
                return f"`{C1}.{mname}` calls `{src(n.func)}`"
    return None


def factor_solve_pair(chk, imod):
    init_q = f"{C1}.__init__"
    init = chk.func(U.INTERP, init_q)
    body = Specialiser(imod, C1, facts=_facts1(False), keep={"collocation_matrix"}).run("__init__")
    ok, bad, node = routine_pair(imod, body, init)
    if bad is not None and "imaginary part" in bad and _complex_handled_elsewhere(imod) is not None:
        bad = None
    chk.pat("H2-factor-solve-pair", node, "dtype == complex -> (zgbtrf, zgbtrs) else (dgbtrf, dgbtrs)", ok,
            "complex data selects the complex factorisation together with the complex solve, real data the real pair; the test is an "
            "equality, so every spelling of the complex dtype (complex, np.dtype(complex)) takes the complex pair", bad,
            file=U.INTERP, func=init_q)
    # ---- factors shared between interpolators through a table must be keyed by everything they depend on
    params = [a.arg for a in init.args.args if a.arg != "self"]
    mod_names = {t.id for st in imod.tree.body if isinstance(st, ast.Assign) for t in st.targets if isinstance(t, ast.Name)}
    cls_names = {t.id for st in imod.cls(C1).body if isinstance(st, ast.Assign) for t in st.targets if isinstance(t, ast.Name)}
    shared, node2, unfollowed = [], init, []
    raw = Specialiser(imod, C1, keep=set(imod.methods(C1)) - {"__init__"}).run("__init__")
    for st in _flat(raw):
        if isinstance(st, ast.Assign) and isinstance(st.targets[0], ast.Subscript):
            tab = st.targets[0].value
            root = tab
            while isinstance(root, ast.Attribute):
                root = root.value
            is_shared = (isinstance(tab, ast.Name) and tab.id in mod_names) or \
                (isinstance(tab, ast.Attribute) and isinstance(root, ast.Name) and root.id in (C1, "cls", "type(self)") and tab.attr in cls_names) or \
                (isinstance(tab, ast.Attribute) and src(tab.value) in ("self.__class__", "type(self)"))
            if not is_shared:
                continue
            # ASSUMPTION of VIOLATED: the parameters the key depends on are ALL found.  Locals are resolved through their (single)
            # definitions; a local that is defined more than once, by unpacking, or not in this constructor makes the set unknown.
            flat_raw = _flat(raw)

            def deps(e, depth=0):
                """parameters an expression depends on, through single-definition locals; None when not followed"""
                out = set()
                for x in ast.walk(e):
                    if not isinstance(x, ast.Name) or not isinstance(x.ctx, ast.Load):
                        continue
                    if x.id in params:
                        out.add(x.id)
                        continue
                    defs_ = [d for d in flat_raw if isinstance(d, (ast.Assign, ast.AugAssign, ast.For, ast.With)) and
                             any(isinstance(n, ast.Name) and n.id == x.id and isinstance(n.ctx, ast.Store) for n in ast.walk(d))]
                    if not defs_:
                        continue            # a global / builtin / `self`
                    if len(defs_) != 1 or not isinstance(defs_[0], ast.Assign) or len(defs_[0].targets) != 1 or \
                            not isinstance(defs_[0].targets[0], ast.Name) or depth > 5:
                        return None
                    sub = deps(defs_[0].value, depth + 1)
                    if sub is None:
                        return None
                    out |= sub
                return out
            key_deps, val_deps = deps(st.targets[0].slice), deps(st.value)
            if key_deps is None or val_deps is None:
                unfollowed.append(st)
                continue
            used = any(isinstance(x, ast.Subscript) and isinstance(x.ctx, ast.Load) and src(x.value) == src(tab) for s2 in flat_raw for x in ast.walk(s2))
            if used and val_deps - key_deps:
                shared.append((st, src(tab), sorted(val_deps - key_deps), sorted(key_deps)))
    if shared:
        st, tab, missing, keyd = shared[0]
        node2 = st
    chk.ob("H2-factor-solve-pair", node2 if not unfollowed or shared else unfollowed[0],
           "factors and solve routine are this interpolator's own (not shared under an incomplete key)",
           False if shared else (None if unfollowed else True),
           ("nothing the constructor stores is taken from a table shared between interpolators" if not unfollowed else
            f"`{src(unfollowed[0])[:70]}` stores into a table shared between interpolators; what its key and its value depend on is not followed")
           if not shared else
           f"`{src(shared[0][0])[:80]}`: the table `{shared[0][1]}` is shared by all interpolators and keyed by {shared[0][3]} only, but the stored "
           f"value also depends on {shared[0][2]}: an interpolator built later with the same {'/'.join(shared[0][3])} and another "
           f"{'/'.join(shared[0][2])} receives the first one's factors and solve routine (e.g. the real LAPACK solve for complex data, which "
           "drops the imaginary part)", file=U.INTERP, func=init_q)
    # ---- state of the interpolator kept in a class-level container / mutable default filled in place by the constructor
    from .C07 import state_shared_between_instances
    for verdict, node_, text in state_shared_between_instances(
            imod, C1, ("compute_interpolant", "_solve_system_nonperiodic", "_solve_system_periodic"),
            "an interpolator built earlier solves with the factors / routine / sizes of the one built last: its coefficients do not "
            "interpolate the data"):
        chk.ob("H2-factor-solve-pair", node_, "state used by the solves is this interpolator's own (not a container shared by all instances)",
               verdict, text, file=U.INTERP, func=init_q)
    # ---- band storage
    band_storage(chk, imod, body, init, init_q)
    # ---- periodic: sparse LU of the collocation matrix
    pbody = Specialiser(imod, C1, facts=_facts1(True), keep={"collocation_matrix"}).run("__init__")
    lus = [st for st in _flat(pbody) if isinstance(st, ast.Assign) and src(st.targets[0]) == "self._splu" and isinstance(st.value, ast.Call)]
    okl = bool(lus) and src(lus[0].value.func) in ("splu", "scipy.sparse.linalg.splu", "factorized") and "self._imat" in src(lus[0].value)
    chk.pat("H3-periodic-wrap", lus[0] if lus else init, "periodic: sparse LU of the collocation matrix", okl, "", file=U.INTERP,
            func=init_q, nontrivial=False)


def _sparse_lu_is_plain(imod):
    """the sparse LU the constructor keeps on a periodic space is that of the collocation matrix `self._imat` itself (possibly converted to
    another sparse format), not of its transpose"""
    try:
        pbody = Specialiser(imod, C1, facts=_facts1(True), keep={"collocation_matrix"}).run("__init__")
    except Exception:
        return False
    lus = [st for st in _flat(pbody) if isinstance(st, ast.Assign) and src(st.targets[0]) == "self._splu" and isinstance(st.value, ast.Call)]
    if len(lus) != 1 or not lus[0].value.args:
        return False
    a = lus[0].value.args[0]
    while isinstance(a, ast.Call) and src(a.func).split(".")[-1] in ("csc_matrix", "csr_matrix", "csc_array", "tocsc") and len(a.args) <= 1:
        a = a.args[0] if a.args else a.func.value
    if isinstance(a, ast.Call) and isinstance(a.func, ast.Attribute) and a.func.attr in ("tocsc", "tocsr", "copy") and not a.args:
        a = a.func.value
    return src(a) == "self._imat"


def _band_matrix_is_plain(imod):
    """the band array given to the factorisation holds the collocation matrix itself: established when rule H2-band-storage holds"""
    from ..core import Check, HOLDS
    sub = Check("C08", "quick")
    try:
        body = Specialiser(imod, C1, facts=_facts1(False), keep={"collocation_matrix"}).run("__init__")
        band_storage(sub, imod, body, imod.func(f"{C1}.__init__"), f"{C1}.__init__")
    except Exception:
        return False
    return bool(sub.obs) and all(o.status == HOLDS for o in sub.obs)


def band_storage(chk, imod, body, init, init_q):
    """LAPACK general band storage: ab[kl + ku + i - j, j] = A[i, j], 2 kl + ku + 1 rows.  The band array is the first argument of the
    factorisation (the call whose first result becomes `self._bmat`); its fill is read with i / j = row / column of a non-zero entry, either
    from a loop over `zip(*M.nonzero())` or from index arrays `rows, cols = np.nonzero(M)` used in one vectorised store; the band widths
    are extrema of the diagonal offsets j - i (or i - j) of these entries."""
    l, u, i, j = sp.symbols("l u i j", integer=True)
    flat = _flat(body)
    ok, bad, node = False, None, init
    # the band array
    band = None
    for st in flat:
        if isinstance(st, ast.Assign) and len(st.targets) == 1 and isinstance(st.value, ast.Call) and st.value.args:
            t = st.targets[0]
            names = [src(x) for x in (t.elts if isinstance(t, ast.Tuple) else [t])]
            if names and names[0] == "self._bmat" and isinstance(st.value.args[0], ast.Name):
                band = st.value.args[0].id
    alloc = None
    for st in flat:
        if isinstance(st, ast.Assign) and len(st.targets) == 1 and src(st.targets[0]) == band and isinstance(st.value, ast.Call) \
                and src(st.value.func) in ("np.zeros", "np.empty") and st.value.args and isinstance(st.value.args[0], ast.Tuple) \
                and len(st.value.args[0].elts) == 2:
            alloc = st
    # row / column index names of the non-zero entries, and the matrix they index
    idx = None
    for st in flat:
        it = None
        if isinstance(st, ast.For) and isinstance(st.target, ast.Tuple) and len(st.target.elts) == 2 and \
                all(isinstance(x, ast.Name) for x in st.target.elts) and "nonzero" in src(st.iter):
            idx = (st.target.elts[0].id, st.target.elts[1].id, [x for x in ast.walk(st) if isinstance(x, ast.stmt) and x is not st])
        if isinstance(st, ast.Assign) and len(st.targets) == 1 and isinstance(st.targets[0], ast.Tuple) and len(st.targets[0].elts) == 2 and \
                all(isinstance(x, ast.Name) for x in st.targets[0].elts) and "nonzero" in src(st.value):
            idx = (st.targets[0].elts[0].id, st.targets[0].elts[1].id, flat)
    # ASSUMPTIONS of the VIOLATED verdicts: (1) the (row, column) pairs enumerated are those of the collocation matrix itself - `nonzero`
    # applied to a transposed matrix enumerates (column, row); (2) the routine the band array is handed to is a LAPACK ?gbtrf, whose layout
    # is the one stated below (scipy's solve_banded / ?gbsv take kl + ku + 1 rows).
    if idx is not None:
        for st in flat:
            e = st.iter if isinstance(st, ast.For) else st.value if isinstance(st, ast.Assign) else None
            if e is not None and "nonzero" in src(e) and any((isinstance(x, ast.Attribute) and x.attr in ("T", "transpose")) or
                                                             (isinstance(x, ast.Call) and src(x.func).split(".")[-1] == "transpose")
                                                             for x in ast.walk(e)):
                idx = None
    fac = None
    for st in flat:
        if isinstance(st, ast.Assign) and len(st.targets) == 1 and isinstance(st.value, ast.Call):
            t = st.targets[0]
            if [src(x) for x in (t.elts if isinstance(t, ast.Tuple) else [t])][:1] == ["self._bmat"]:
                fac = st
    if fac is not None:
        env_ = _bindings(flat)
        tests_ = {src(_polarity(t)[0]) for st in flat for t in ([st.test] if isinstance(st, ast.If) else []) +
                  [x.test for x in own_exprs(st) if isinstance(x, ast.IfExp)] if _mentions_dtype(t)}
        cs_ = [(next(iter(tests_)), True), (next(iter(tests_)), False)] if len(tests_) == 1 else [(None, None)]
        rs_ = [_routine(fac.value.func, env_, ct, case) for ct, case in cs_]
        if not all(r is not None and str(r[1]).endswith("gbtrf") for r in rs_):
            tp_ = _table_pair(fac.value.func, env_.get("self._solveFunc"), env_, imod) if "self._solveFunc" in env_ else None
            if tp_ is None or not all(isinstance(v, tuple) and str(v[0]).endswith("gbtrf") for v in tp_[0].values() if v != "raises"):
                band = None
    if band is None or alloc is None or idx is None:
        chk.pat("H2-band-storage", node, "LAPACK band storage", False, "", None, file=U.INTERP, func=init_q)
        return
    I, J, scope = idx
    tab = {"self._l": l, "self._u": u, I: i, J: j}
    # locals that are integer combinations of the indices (below = rows - cols, ...)
    for st in flat:
        if isinstance(st, ast.Assign) and len(st.targets) == 1 and isinstance(st.targets[0], ast.Name) and st.targets[0].id not in (I, J):
            v = _int_attr(st.value, tab)
            if v is not None:
                tab[st.targets[0].id] = v
    # diagonal offsets of a sparse DIA matrix: offset k holds the entries with j - i = k
    for st in flat:
        if isinstance(st, ast.Assign) and isinstance(st.targets[0], ast.Name) and isinstance(st.value, ast.Call) and \
                src(st.value.func) in ("dia_matrix", "scipy.sparse.dia_matrix"):
            tab[st.targets[0].id + ".offsets"] = j - i

    def bandwidth(e):
        """'lower' / 'upper' for max(i - j) resp. max(j - i) written as an extremum of an expression over the entries; None otherwise"""
        inner, absd, neg = e, False, False
        if isinstance(inner, ast.Call) and src(inner.func) in ("abs", "np.abs") and len(inner.args) == 1:
            inner, absd = inner.args[0], True
        if isinstance(inner, ast.UnaryOp) and isinstance(inner.op, ast.USub):
            inner, neg = inner.operand, True
        ext, arr = None, None
        if isinstance(inner, ast.Call) and isinstance(inner.func, ast.Attribute) and inner.func.attr in ("min", "max") and not inner.args:
            ext, arr = inner.func.attr, inner.func.value
        elif isinstance(inner, ast.Call) and src(inner.func) in ("np.max", "np.min", "max", "min", "np.amax", "np.amin") and len(inner.args) == 1:
            ext, arr = src(inner.func).split(".")[-1].replace("amax", "max").replace("amin", "min"), inner.args[0]
        if ext is None:
            return None
        d = _int_attr(arr, tab)
        if d is None:
            return None
        if ext == "min":
            if not (neg or absd):
                return None
            d, ext = -d, "max"          # -min(d) = max(-d); |min(d)| = -min(d) because the main diagonal (offset 0) is never empty
        elif neg or absd:
            if neg:
                return None
        if _same(d, i - j):
            return "lower"
        if _same(d, j - i):
            return "upper"
        return None
    defs = {}
    for st in flat:
        if isinstance(st, ast.Assign) and len(st.targets) == 1 and src(st.targets[0]) in ("self._l", "self._u"):
            defs[src(st.targets[0])] = st
    bw = {k: bandwidth(st.value) for k, st in defs.items()}
    fills = [x for x in scope if isinstance(x, ast.Assign) and len(x.targets) == 1 and isinstance(x.targets[0], ast.Subscript)
             and src(x.targets[0].value) == band and isinstance(x.targets[0].slice, ast.Tuple) and len(x.targets[0].slice.elts) == 2]
    if len(defs) == 2 and len(fills) == 1:
        node = fills[0]
        rows = _int_attr(alloc.value.args[0].elts[0], tab)
        r = _int_attr(fills[0].targets[0].slice.elts[0], tab)
        c = _int_attr(fills[0].targets[0].slice.elts[1], tab)
        v = fills[0].value
        v_ok = isinstance(v, ast.Subscript) and isinstance(v.slice, ast.Tuple) and len(v.slice.elts) == 2 and \
            [_int_attr(x, tab) for x in v.slice.elts] == [i, j]
        if bw.get("self._l") == "upper" and bw.get("self._u") == "lower":
            bad = ("the lower bandwidth is taken from the super-diagonals and the upper one from the sub-diagonals: the band array and the "
                   "LAPACK calls describe the transposed pattern")
        elif rows is not None and r is not None and c is not None and bw.get("self._l") == "lower" and bw.get("self._u") == "upper" and v_ok:
            if not _same(rows, 2 * l + u + 1):
                bad = f"the band array has {rows} rows: xgbtrf needs 2 kl + ku + 1 (kl extra rows for the fill-in of the pivoting)"
            elif not _same(r, u + l + i - j) or not _same(c, j):
                bad = (f"entry (i, j) is stored at row {r}, column {c}: LAPACK band storage holds it at row kl + ku + i - j of column j, so the "
                       "factorised matrix is not the collocation matrix")
            else:
                ok = True
    chk.pat("H2-band-storage", node, "LAPACK band storage", ok, "entry (i,j) is stored at row u+l+i-j of a (1+u+2l)-row band array (general "
            "band storage with room for fill-in), l / u = number of sub- / super-diagonals", bad, file=U.INTERP, func=init_q)


def _init_assigns(imod, per, attrs):
    """does the constructor, read on a periodic / clamped space, assign one of these attributes of the interpolator?  None: not followed"""
    try:
        body = Specialiser(imod, C1, facts=_facts1(per), keep={"collocation_matrix"}).run("__init__")
    except Exception:
        return None
    for st in _flat(body):
        for t in (st.targets if isinstance(st, ast.Assign) else []):
            for el in (t.elts if isinstance(t, ast.Tuple) else [t]):
                if src(el) in attrs:
                    return True
    return False


def _solve_is_gbtrs(imod):
    """the routine the constructor keeps as `self._solveFunc` is a LAPACK ?gbtrs (whose positional arguments are ab, kl, ku, b, ipiv)"""
    try:
        body = Specialiser(imod, C1, facts=_facts1(False), keep={"collocation_matrix"}).run("__init__")
    except Exception:
        return False
    flat = _flat(body)
    env = _bindings(flat)
    if "self._solveFunc" not in env:
        return False
    tests = {src(_polarity(t)[0]) for st in flat for t in ([st.test] if isinstance(st, ast.If) else []) +
             [x.test for x in own_exprs(st) if isinstance(x, ast.IfExp)] if _mentions_dtype(t)}
    cases = [(next(iter(tests)), True), (next(iter(tests)), False)] if len(tests) == 1 else [(None, None)]
    for ct, case in cases:
        r = _routine(env["self._solveFunc"], env, ct, case)
        if r is None and ct is None:
            lc = _lookup_component(env["self._solveFunc"], env)
            td = table_dispatch(lc[0], env, imod) if lc is not None else None
            return td is not None and lc[1] in (0, 1) and all(
                isinstance(v, tuple) and str(v[lc[1]]).endswith("gbtrs") for v in td[0].values() if v != "raises")
        if r is None or not str(r[1]).endswith("gbtrs"):
            return False
    return True


def _reader_side_ok(chk):
    """ASSUMPTION behind every "the wrapped coefficients are missing / stale / misplaced" verdict: the last `degree` coefficients of a
    periodic spline are READ as coefficients of their own (the kernels take the window c[span-degree .. span] without folding the index,
    C07 rule E4) and no spline class wraps its coefficients itself before evaluating.  -> (bool, text)"""
    from .C07 import wrap_done_by_reader, readers_take_linear_window
    try:
        smod = chk.mod(U.SPLINES)
        r = wrap_done_by_reader(smod)
        if r is not None:
            return False, r
        if not readers_take_linear_window(chk):
            return False, "the evaluation kernels were not established to read the window c[span-degree .. span] without folding the index"
    except Exception as e:
        return False, f"reader side not followed ({type(e).__name__})"
    return True, ""


def solves_1d(chk, imod):
    ci_q = f"{C1}.compute_interpolant"
    ci = chk.func(U.INTERP, ci_q)
    for q in ("_solve_system_nonperiodic", "_solve_system_periodic"):
        if imod.has(f"{C1}.{q}"):
            chk.functions.add(f"{U.INTERP}:{C1}.{q}")
    n, p = sp.Symbol("n", integer=True, positive=True), sp.Symbol("p", integer=True, positive=True)
    table = {"self._basis.nbasis": n, "self._basis.degree": p, "self._basis.ncells": n, "self._basis._nbasis": n, "self._basis._degree": p}
    # ---- clamped
    body = Specialiser(imod, C1, facts=_facts1(False)).run("compute_interpolant")
    calls = [(st, c) for st in _flat(body) for c in own_exprs(st) if isinstance(c, ast.Call) and src(c.func) == "self._solveFunc"]
    other = [c for st in _flat(body) for c in own_exprs(st) if isinstance(c, ast.Call) and src(c.func) == "self._splu.solve"]
    ok, bad, node = False, None, ci
    if other and not calls:
        # ASSUMPTION checked: the constructor does not build the sparse LU on a clamped space (read with the same specialisation)
        if _init_assigns(imod, False, ("self._splu",)) is False:
            bad = ("on a clamped basis the interpolation calls the sparse LU, which the constructor builds for periodic bases only: the call fails "
                   "(the dispatch between the periodic and the clamped solve is inverted)")
    elif len(calls) == 1:
        st, c = calls[0]
        node = st
        wrong, unknown, got = banded_solve_roles(c)
        tr = [k.value for k in c.keywords if k.arg == "trans"] or list(c.args[5:6])
        ow = [k for k in c.keywords if k.arg and k.arg.startswith("overwrite") and isinstance(k.value, ast.Constant) and k.value.value]
        rhs = got.get("b")
        tgt = None
        if isinstance(st, ast.Assign):
            t0 = st.targets[0]
            tgt = t0.elts[0] if isinstance(t0, ast.Tuple) and t0.elts else t0
        cints = {}
        for x in _flat(body):
            if isinstance(x, ast.Assign) and len(x.targets) == 1 and isinstance(x.targets[0], ast.Name):
                v_ = _int_attr(x.value, {**table, **cints})
                if v_ is not None:
                    cints[x.targets[0].id] = v_

        def covers_all(t):
            """a store target that is the whole coefficient array of a clamped spline (nbasis entries)"""
            if not (isinstance(t, ast.Subscript) and src(t.value) in ("spl.coeffs", "spl._coeffs")):
                return False
            if isinstance(t.slice, ast.Constant) and t.slice.value is Ellipsis:
                return True
            if isinstance(t.slice, ast.Slice) and t.slice.step is None:
                lo = sp.Integer(0) if t.slice.lower is None else _int_attr(t.slice.lower, {**table, **cints})
                hi = n if t.slice.upper is None else _int_attr(t.slice.upper, {**table, **cints})
                return lo is not None and hi is not None and _same(lo, 0) and _same(hi, n)
            return False
        full_store = covers_all(tgt)
        # ASSUMPTIONS of the VIOLATED verdicts below: the positional arguments have the LAPACK roles (ab, kl, ku, b, ipiv[, trans]) - the
        # routine kept by the constructor is a ?gbtrs; the band matrix factorised is the collocation matrix itself (rule H2-band-storage),
        # so `trans` must be 'no transpose'; `ug` is still the caller's array (never re-bound here); nothing is returned to a caller who
        # could store the solution himself.
        gbtrs = _solve_is_gbtrs(imod)
        ug_rebound = any(isinstance(n_, ast.Name) and n_.id == "ug" and isinstance(n_.ctx, ast.Store) for x in _flat(body) for n_ in ast.walk(x))
        returns = any(isinstance(x, ast.Return) and x.value is not None and not isinstance(x.value, ast.Constant) for x in _flat(body))
        if wrong and gbtrs:
            bad = "; ".join(wrong) + ": the banded solve is given the factors in the wrong places"
        elif wrong:
            bad = None
        elif tr and not (isinstance(tr[0], ast.Constant) and tr[0].value in (0, False, "N")):
            if gbtrs and isinstance(tr[0], ast.Constant) and _band_matrix_is_plain(imod):
                bad = f"`{src(c)[:80]}` solves the transposed system: the coefficients do not interpolate the data"
        elif ow and rhs is not None and isinstance(rhs, ast.Name) and rhs.id == "ug":
            if not ug_rebound:
                bad = (f"`{ow[0].arg}=True` lets LAPACK solve in place: the caller's data array `ug` (or the row of the caller's 2-D field) is "
                       "replaced by spline coefficients")
        elif ow and isinstance(rhs, ast.Name) and rhs.id != "ug":
            # the routine may overwrite a LOCAL right-hand side.  Where is the solution taken from afterwards?
            # ASSUMPTIONS of VIOLATED: (1) `overwrite_b=True` is a permission, not a guarantee: the f2py wrapper of ?gbtrs works in the
            # array it is given only when that array already has the routine's dtype (and Fortran layout), otherwise it converts into a
            # new array, solves there and RETURNS it (scipy's documented behaviour); (2) the local is a copy of the caller's data made
            # without a dtype, so it has whatever dtype the caller's data have; (3) the returned array is not used: the name it is bound to
            # is never read; (4) the coefficients are stored from the local, over the whole array.
            flat_ = _flat(body)
            defs_ = [x for x in flat_ if any(isinstance(n_, ast.Name) and n_.id == rhs.id and isinstance(n_.ctx, ast.Store) for n_ in ast.walk(x))]
            copy_of_ug = False
            if len(defs_) == 1 and isinstance(defs_[0], ast.Assign) and len(defs_[0].targets) == 1 and isinstance(defs_[0].targets[0], ast.Name) \
                    and isinstance(defs_[0].value, ast.Call):
                dv = defs_[0].value
                fn_ = src(dv.func)
                if fn_ in ("np.array", "np.copy", "np.asfortranarray", "np.ascontiguousarray", "numpy.array", "numpy.copy") and dv.args and \
                        src(dv.args[0]) == "ug" and len(dv.args) == 1 and not any(k.arg == "dtype" for k in dv.keywords):
                    copy_of_ug = True
                elif fn_ == "ug.copy" and not any(k.arg == "dtype" for k in dv.keywords):
                    copy_of_ug = True
            ret_read = isinstance(tgt, ast.Name) and any(isinstance(n_, ast.Name) and n_.id == tgt.id and isinstance(n_.ctx, ast.Load)
                                                         for x in flat_ for n_ in ast.walk(x))
            ret_dropped = (isinstance(st, ast.Expr) or isinstance(tgt, ast.Name)) and not ret_read
            stores = [x for x in flat_ if isinstance(x, ast.Assign) and len(x.targets) == 1 and covers_all(x.targets[0])]
            from_rhs = len(stores) == 1 and isinstance(stores[0].value, ast.Name) and stores[0].value.id == rhs.id and \
                flat_.index(stores[0]) > flat_.index(st)
            if not wrong and not unknown and gbtrs and copy_of_ug and ret_dropped and from_rhs and not returns:
                bad = (f"`{src(c)[:90]}`: the array the routine returns is dropped and the coefficients are taken from `{rhs.id}` "
                       f"(`{src(stores[0])}`), a copy of the data with the data's own dtype; `{ow[0].arg}=True` is only a permission: LAPACK "
                       f"works inside `{rhs.id}` only when it already has the routine's dtype (float64 for dgbtrs, complex128 for zgbtrs), "
                       "for any other data (integer, float32, ...) the wrapper solves in a converted copy and `" + rhs.id +
                       "` keeps the data: the stored coefficients are the data themselves and do not interpolate them")
        elif isinstance(tgt, ast.Name):
            later = [x for x in _flat(body) if isinstance(x, (ast.Assign, ast.AugAssign)) and "spl" in src(x.targets[0] if isinstance(x, ast.Assign) else x.target)
                     or (isinstance(x, ast.Expr) and "spl" in src(x) and x is not st)]
            if not later and returns:
                bad = None
            elif not later:
                bad = (f"`{src(st)[:70]}` binds the solution to the local name `{tgt.id}` and nothing is stored into the spline: its "
                       "coefficient array is not changed")
            elif not unknown and isinstance(rhs, ast.Name) and rhs.id == "ug" and not ow and len(later) == 1 and isinstance(later[0], ast.Assign) and \
                    isinstance(later[0].value, ast.Name) and later[0].value.id == tgt.id and covers_all(later[0].targets[0]):
                ok = True
        elif not unknown and isinstance(rhs, ast.Name) and rhs.id == "ug" and full_store and not ow:
            ok = True
    chk.pat("H2-factor-solve-pair", node, "solve(bmat, l, u, ug, ipiv)", ok, "the solve receives the factors, band widths and pivots the "
            "factorisation produced and the data as right-hand side; the solution fills the spline's coefficients", bad, file=U.INTERP, func=ci_q)
    # ---- periodic: c[0:n] = splu.solve(ug); c[n:n+p] = c[0:p]
    body = Specialiser(imod, C1, facts=_facts1(True)).run("compute_interpolant")
    flat = _flat(body)
    ints = {}
    for st in flat:
        if isinstance(st, ast.Assign) and len(st.targets) == 1 and isinstance(st.targets[0], ast.Name):
            v = _int_attr(st.value, {**table, **ints})
            if v is not None:
                ints[st.targets[0].id] = v
    table = {**table, **ints}
    COEF = ("spl.coeffs", "spl._coeffs")

    def bounds(sub, length):
        if not isinstance(sub, ast.Subscript) or not isinstance(sub.slice, ast.Slice) or sub.slice.step is not None:
            return None
        lo = sp.Integer(0) if sub.slice.lower is None else _int_attr(sub.slice.lower, table)
        hi = length if sub.slice.upper is None else _int_attr(sub.slice.upper, table)
        if lo is None or hi is None:
            return None
        return (lo + length if lo.is_negative else lo), (hi + length if hi.is_negative else hi)
    solve = [(k, st) for k, st in enumerate(flat) if isinstance(st, ast.Assign) and isinstance(st.value, ast.Call) and src(st.value.func) == "self._splu.solve"]
    banded = [st for st in flat for c in own_exprs(st) if isinstance(c, ast.Call) and src(c.func) == "self._solveFunc"]
    wraps = [(k, st) for k, st in enumerate(flat) if isinstance(st, ast.Assign) and isinstance(st.targets[0], ast.Subscript) and
             src(st.targets[0].value) in COEF and isinstance(st.value, ast.Subscript) and src(st.value.value) in COEF]
    ok, bad, node = False, None, ci
    reader_ok, reader_text = _reader_side_ok(chk)
    if banded and not solve:
        if _init_assigns(imod, True, ("self._bmat", "self._solveFunc")) is False:
            bad = ("on a periodic basis the interpolation calls the banded solve, whose factors the constructor builds for clamped bases only: the "
                   "call fails (the dispatch between the periodic and the clamped solve is inverted)")
    elif len(solve) == 1:
        ks, st = solve[0]
        node = st
        tb = bounds(st.targets[0], n + p) if src(getattr(st.targets[0], "value", None)) in COEF else None
        rhs = st.value.args[0] if st.value.args else None
        tr = [k_.value for k_ in st.value.keywords if k_.arg == "trans"] or list(st.value.args[1:2])
        if tr and not (isinstance(tr[0], ast.Constant) and tr[0].value == "N"):
            # ASSUMPTION checked: the sparse LU is that of the collocation matrix itself, not of its transpose
            if isinstance(tr[0], ast.Constant) and _sparse_lu_is_plain(imod):
                bad = f"`{src(st.value)[:60]}` solves the transposed system: the coefficients do not interpolate the data"
        elif isinstance(st.targets[0], ast.Name):
            if not [x for x in flat if isinstance(x, (ast.Assign, ast.AugAssign)) and any(c_ in src(x.targets[0] if isinstance(x, ast.Assign) else x.target)
                                                                                          for c_ in COEF)] and \
                    not any(isinstance(x, ast.Return) and x.value is not None and not isinstance(x.value, ast.Constant) for x in flat) and \
                    not any(isinstance(x, ast.Expr) and isinstance(x.value, ast.Call) and "spl" in src(x) for x in flat):
                bad = f"`{src(st)[:70]}` binds the solution to a local name and nothing is stored into the spline: its coefficients are not changed"
        elif tb is not None and isinstance(rhs, ast.Name) and rhs.id == "ug":
            if not (_same(tb[0], 0) and _same(tb[1], n)):
                bad = f"the n periodic coefficients are stored at [{tb[0]}, {tb[1]}) instead of [0, n)"
            elif not wraps:
                others = [x for x in flat if x is not st and isinstance(x, (ast.Assign, ast.AugAssign, ast.Expr)) and any(c_ in src(x) for c_ in COEF)
                          and not isinstance(x, ast.Expr) or (isinstance(x, ast.Expr) and isinstance(x.value, ast.Call) and any(c_ in src(x) for c_ in COEF))]
                if not others:
                    bad = ("the periodic solve is not followed by the coefficient wrap (nothing else touches the coefficients): entries n..n+p-1 "
                           "of the spline's coefficients keep their old content, and the spline is wrong in the last cells of the period")
            else:
                kw, w = wraps[0]
                node = w
                a, b = bounds(w.targets[0], n + p), bounds(w.value, n + p)
                if a is None or b is None:
                    bad = None
                elif kw < ks:
                    bad = f"`{src(w)}` is executed before the solve: the wrapped copy is taken from the previous content"
                elif not (_same(a[0], n) and _same(a[1], n + p) and _same(b[0], 0) and _same(b[1], p)):
                    bad = (f"`{src(w)}` copies the entries [{b[0]}, {b[1]}) onto [{a[0]}, {a[1]}): the wrapped coefficients are the first p "
                           "ones repeated after the n-th (c[n+i] = c[i])")
                else:
                    ok = True
    if bad is not None and "wrap" in bad and not reader_ok:
        bad = None          # the wrapped copy is a contract with the readers of the coefficients, which was not established (reader_text)
    chk.pat("H3-periodic-wrap", node, "c[0:n] = solve(ug); c[n:n+p] = c[0:p]", ok, "the n periodic coefficients are followed by a copy of "
            "the first `degree` of them", bad, file=U.INTERP, func=ci_q)


# ======================================================================================
# 2-D interpolator: typestates of index regions
# ======================================================================================
class Undec(Exception):
    def __init__(self, why, node=None):
        super().__init__(why)
        self.why, self.node = why, node


class Broken(Exception):
    def __init__(self, why, node=None, rule="H3-periodic-wrap"):
        super().__init__(why)
        self.why, self.node, self.rule = why, node, rule


NS = {d: sp.Symbol(f"n{d}", integer=True) for d in (1, 2)}       # nbasis of dimension d
PS = {d: sp.Symbol(f"p{d}", integer=True) for d in (1, 2)}       # degree of dimension d
_Q = {d: sp.Symbol(f"q{d}", integer=True) for d in (1, 2)}       # degree - 1 >= 0
_M = {d: sp.Symbol(f"m{d}", integer=True) for d in (1, 2)}       # nbasis - degree >= 0

KIND_TEXT = {"stale": "content left from before the call (never written)", "data": "raw data", "c1": "coefficients of the x1 solve only",
             "c2": "coefficients of the x2 solve only", "c12": "final coefficients", "zero": "a constant fill"}


def nonneg(e):
    """is the integer expression >= 0 for every degree >= 1 and nbasis >= degree?  True / False (provably negative somewhere is not
    needed: only True is used) / None"""
    e = sp.expand(sp.sympify(e).subs({NS[1]: 1 + _Q[1] + _M[1], NS[2]: 1 + _Q[2] + _M[2], PS[1]: 1 + _Q[1], PS[2]: 1 + _Q[2]}))
    syms = [_Q[1], _Q[2], _M[1], _M[2]]
    try:
        poly = sp.Poly(e, *syms)
    except sp.PolynomialError:
        return None
    if poly.total_degree() > 1:
        return None
    cs = [poly.coeff_monomial(s_) for s_ in syms] + [poly.coeff_monomial(1)]
    if all(c >= 0 for c in cs):
        return True
    if all(c <= 0 for c in cs) and any(c < 0 for c in cs):
        return False
    return None


def le(a, b):
    r = nonneg(b - a)
    if r is True:
        return True
    r2 = nonneg(a - b)
    if r2 is True and not _same(a, b):
        return False
    return None


class Buf:
    """abstract array: axes labelled with dimensions, block typestates"""

    def __init__(self, name, dims, extents, kind, from_data=False):
        self.name, self.dims, self.extents, self.from_data = name, tuple(dims), tuple(extents), from_data
        self.initial = kind
        self.cells = {tuple(sp.Integer(0) for _ in dims): kind}

    def __repr__(self):
        return f"<{self.name} {self.dims} {self.extents}>"


class Idx:
    """the index of a row/column loop: ranges over [lo, hi)"""

    def __init__(self, name, lo, hi, node):
        self.name, self.lo, self.hi, self.node = name, lo, hi, node


class View:
    """rectangular part of a buffer; sel[k] (one per buffer axis) is ('iv', lo, hi) or ('ix', Idx, offset); order = buffer axes shown"""

    def __init__(self, buf, sel, order):
        self.buf, self.sel, self.order = buf, list(sel), tuple(order)

    @property
    def ndim(self):
        return len(self.order)


class Scratch:
    """coefficient vector of a 1-D work spline after a solve"""

    def __init__(self, dim, extent):
        self.dim, self.extent = dim, extent
        self.idx = None            # loop index of the row it was solved for
        self.other_sel = None      # ('ix', Idx, off) or ('iv', lo, hi) position along the other dimension
        self.kinds = None          # list of (lo, hi, kind) along the OTHER dimension (per row segment)
        self.valid = False


class Regions:
    def __init__(self, chk, imod, smod, per, body, init_body):
        self.chk, self.imod, self.smod, self.per = chk, imod, smod, per
        self.body, self.init_body = body, init_body
        self.E = {d: NS[d] + PS[d] if per[d] else NS[d] for d in (1, 2)}
        self.cuts = {d: [sp.Integer(0), self.E[d]] for d in (1, 2)}
        self.bufs = {}
        self.names = {}            # local name -> View
        self.ints = {}
        self.scratch = {}
        self.solves = []           # (node, K, ok-text)
        self.dtype_bad = []
        self.loop = None
        self.loop_acc = None
        self.table = {}
        for d in (1, 2):
            for recv in (f"self._basis{d}", f"basis{d}", f"spl.basis[{d - 1}]", f"spl._basis{d}"):
                self.table[f"{recv}.nbasis"] = NS[d]
                self.table[f"{recv}.degree"] = PS[d]
                self.table[f"{recv}.ncells"] = NS[d] if per[d] else NS[d] - PS[d]

    # ---- integer expressions
    def ival(self, e, node=None):
        tab = {**self.table, **self.ints}
        v = _int_attr(e, tab)
        if v is not None:
            return v
        if isinstance(e, ast.Call) and src(e.func) == "len" and len(e.args) == 1:
            vw = self.view(e.args[0], quiet=True)
            if vw is not None and vw.ndim >= 1:
                s_ = vw.sel[vw.order[0]]
                return s_[2] - s_[1]
        if isinstance(e, ast.Subscript) and isinstance(e.value, ast.Attribute) and e.value.attr == "shape" and isinstance(e.slice, ast.Constant):
            vw = self.view(e.value.value, quiet=True)
            if vw is not None and isinstance(e.slice.value, int) and 0 <= e.slice.value < vw.ndim:
                s_ = vw.sel[vw.order[e.slice.value]]
                return s_[2] - s_[1]
        if isinstance(e, ast.BinOp) and isinstance(e.op, (ast.Add, ast.Sub, ast.Mult)):
            a, b = self.ival(e.left, node), self.ival(e.right, node)
            return a + b if isinstance(e.op, ast.Add) else a - b if isinstance(e.op, ast.Sub) else a * b
        raise Undec(f"integer expression `{src(e)[:50]}` is not a combination of nbasis / degree / ncells of the two bases", node or e)

    # ---- cuts
    def add_cut(self, d, c):
        cs = self.cuts[d]
        c = sp.expand(c)
        for x in cs:
            if _same(x, c):
                return
        pos = None
        for k, x in enumerate(cs):
            r = le(c, x)
            if r is None:
                raise Undec(f"cannot order the index positions {c} and {x} along x{d}")
            if r:
                pos = k
                break
        if pos is None:
            cs.append(c)       # beyond the largest extent: kept for comparisons only
            return
        if pos == 0:
            raise Undec(f"negative index position {c} along x{d}")
        below = cs[pos - 1]
        cs.insert(pos, c)
        for b in self.bufs.values():
            self.split(b, d, below, c)

    def split(self, b, d, below, c):
        for ax, dd in enumerate(b.dims):
            if dd != d or le(b.extents[ax], c) is not False and not (le(c, b.extents[ax]) and not _same(c, b.extents[ax])):
                continue
            for key in list(b.cells):
                if _same(key[ax], below):
                    nk = list(key)
                    nk[ax] = c
                    b.cells[tuple(nk)] = b.cells[key]

    @staticmethod
    def cell_get(b, key):
        for key2, val in b.cells.items():
            if all(_same(x, y) for x, y in zip(key2, key)):
                return val
        return "stale"

    @staticmethod
    def cell_set(b, key, val):
        for key2 in b.cells:
            if all(_same(x, y) for x, y in zip(key2, key)):
                b.cells[key2] = val
                return
        b.cells[tuple(sp.expand(x) for x in key)] = val

    def segs(self, d, lo, hi):
        """atomic segments [a, b) of dimension d inside [lo, hi)"""
        self.add_cut(d, lo)
        self.add_cut(d, hi)
        cs = self.cuts[d]
        out = []
        for a, b in zip(cs, cs[1:]):
            if le(lo, a) and le(b, hi):
                out.append((a, b))
        return out

    # ---- buffers
    def new_buf(self, name, dims, extents, kind, from_data=False):
        b = Buf(name, dims, extents, kind, from_data)
        # existing cuts apply to the new buffer
        for ax, d in enumerate(dims):
            cs = self.cuts[d]
            for below, c in zip(cs, cs[1:]):
                if le(c, extents[ax]) and not _same(c, extents[ax]):
                    for key in list(b.cells):
                        if _same(key[ax], below):
                            nk = list(key)
                            nk[ax] = c
                            b.cells[tuple(nk)] = b.cells[key]
        self.bufs[name] = b
        for ax, d in enumerate(dims):
            self.add_cut(d, extents[ax])
        return b

    def dims_of_shape(self, exts, node):
        dims = []
        for e in exts:
            ds = [d for d in (1, 2) if e.has(NS[d]) or e.has(PS[d])]
            if len(ds) != 1:
                raise Undec(f"extent {e} of an array does not belong to one dimension", node)
            dims.append(ds[0])
        return dims

    def shape_expr(self, e, node):
        if isinstance(e, ast.Tuple):
            return [self.ival(x, node) for x in e.elts]
        if isinstance(e, ast.Attribute) and e.attr == "shape":
            vw = self.view(e.value)
            return [vw.sel[a][2] - vw.sel[a][1] for a in vw.order]
        return [self.ival(e, node)]

    def buffer_named(self, s_, node):
        if s_ in self.bufs:
            return self.bufs[s_]
        if s_ == "ug":
            return self.new_buf("ug", (1, 2), (NS[1], NS[2]), "data")
        if s_ in ("spl.coeffs", "spl._coeffs"):
            # shape given by Spline2D.__init__
            init = self.smod.func("Spline2D.__init__")
            shp = None
            ints = {}
            for st in init.body:
                if isinstance(st, ast.Assign) and isinstance(st.targets[0], ast.Name) and isinstance(st.value, ast.Tuple):
                    try:
                        ints[st.targets[0].id] = [self.ival(x, st) for x in st.value.elts]
                    except Undec:
                        pass
                if isinstance(st, ast.Assign) and src(st.targets[0]) == "self._coeffs" and isinstance(st.value, ast.Call) and st.value.args:
                    a = st.value.args[0]
                    shp = ints.get(a.id) if isinstance(a, ast.Name) else (self.shape_expr(a, st) if isinstance(a, ast.Tuple) else None)
            if shp is None or len(shp) != 2:
                raise Undec("shape of Spline2D.coeffs not recognised in Spline2D.__init__", node)
            dims = self.dims_of_shape(shp, node)
            if dims != [1, 2] or not _same(shp[0], self.E[1]) or not _same(shp[1], self.E[2]):
                raise Undec(f"Spline2D.coeffs has shape {shp}, expected (ncells1 + degree1, ncells2 + degree2)", node)
            return self.new_buf("spl.coeffs", (1, 2), shp, "stale")
        if s_.startswith("self._") and not s_.startswith("self._spline") and not s_.startswith("self._interp") and not s_.startswith("self._basis"):
            # an array allocated by the constructor
            for st in _flat(self.init_body):
                if isinstance(st, ast.Assign) and src(st.targets[0]) == s_ and isinstance(st.value, ast.Call) and \
                        src(st.value.func) in ("np.zeros", "np.empty", "np.ones") and st.value.args:
                    ints_saved = self.ints
                    self.ints = dict(self.init_ints)
                    try:
                        shp = self.shape_expr(st.value.args[0], st)
                    finally:
                        self.ints = ints_saved
                    if len(shp) != 2:
                        raise Undec(f"`{s_}` is not a 2-D array", node)
                    dims = self.dims_of_shape(shp, st)
                    # (a shape that does not fit shows up as a shape error of the copies)
                    return self.new_buf(s_, dims, shp, "stale")
            raise Undec(f"allocation of `{s_}` not found in the constructor", node)
        return None

    def scratch_of(self, e, node):
        """(K, lo, hi) if e denotes (a slice of) the coefficients of work spline K"""
        sl = None
        if isinstance(e, ast.Subscript) and isinstance(e.slice, ast.Slice) and src(e.value).startswith("self._spline"):
            sl, e = e.slice, e.value
        s_ = src(e)
        for K in (1, 2):
            if s_ in (f"self._spline{K}.coeffs", f"self._spline{K}._coeffs"):
                lo, hi = sp.Integer(0), self.E[K]
                if sl is not None:
                    if sl.step is not None:
                        raise Undec(f"strided slice `{src(sl)}`", node)
                    if sl.lower is not None:
                        lo = self.ival(sl.lower, node)
                    if sl.upper is not None:
                        hi = self.ival(sl.upper, node)
                return K, lo, hi
        return None

    # ---- views
    def view(self, e, quiet=False):
        try:
            return self._view(e)
        except Undec:
            if quiet:
                return None
            raise

    def _view(self, e):
        if isinstance(e, ast.Name) and e.id in self.names:
            v = self.names[e.id]
            return View(v.buf, v.sel, v.order)
        s_ = src(e)
        if isinstance(e, ast.Attribute) and e.attr == "T":
            v = self._view(e.value)
            return View(v.buf, v.sel, tuple(reversed(v.order)))
        b = self.buffer_named(s_, e) if isinstance(e, (ast.Name, ast.Attribute)) else None
        if b is not None:
            return View(b, [("iv", sp.Integer(0), x) for x in b.extents], range(len(b.dims)))
        if isinstance(e, ast.Call) and isinstance(e.func, ast.Attribute) and e.func.attr == "copy" and not e.args and not e.keywords:
            return self._view(e.func.value)       # the content at this moment (a name bound to it is handled by `bind`)
        if isinstance(e, ast.Call) and isinstance(e.func, ast.Attribute) and e.func.attr == "transpose" and not e.args and not e.keywords:
            v = self._view(e.func.value)
            return View(v.buf, v.sel, tuple(reversed(v.order)))
        if isinstance(e, ast.Call) and src(e.func) in ("np.transpose",) and len(e.args) == 1:
            v = self._view(e.args[0])
            return View(v.buf, v.sel, tuple(reversed(v.order)))
        if isinstance(e, ast.Call) and src(e.func) in ("np.asarray", "np.ascontiguousarray") and len(e.args) == 1 and not e.keywords:
            return self._view(e.args[0])
        if isinstance(e, ast.Subscript):
            v = self._view(e.value)
            items = list(e.slice.elts) if isinstance(e.slice, ast.Tuple) else [e.slice]
            if len(items) > v.ndim:
                raise Undec(f"too many indices in `{s_[:50]}`", e)
            sel, order = list(v.sel), list(v.order)
            drop = []
            for k, it in enumerate(items):
                ax = v.order[k]
                kind, lo, hi = sel[ax]
                if kind != "iv":
                    raise Undec(f"`{s_[:50]}`", e)
                if isinstance(it, ast.Slice):
                    if it.step is not None:
                        raise Undec(f"strided slice in `{s_[:50]}`", e)
                    nlo, nhi = lo, hi
                    if it.lower is not None:
                        a = self.ival(it.lower, e)
                        nlo = (hi + a) if nonneg(-a - 1) is True else lo + a
                    if it.upper is not None:
                        a = self.ival(it.upper, e)
                        nhi = (hi + a) if nonneg(-a - 1) is True else lo + a
                    if le(nhi, hi) is not True:
                        if le(hi, nhi) is True:
                            nhi = hi          # numpy clips a slice at the end of the axis
                        else:
                            raise Undec(f"cannot compare the slice end {nhi} with the extent {hi}", e)
                    if le(nlo, nhi) is not True:
                        if le(nhi, nlo) is True:
                            nlo = nhi         # empty slice
                        else:
                            raise Undec(f"cannot compare the slice bounds {nlo} and {nhi}", e)
                    sel[ax] = ("iv", nlo, nhi)
                elif isinstance(it, ast.Name) and self.loop is not None and it.id == self.loop.name:
                    sel[ax] = ("ix", self.loop, lo)
                    drop.append(ax)
                else:
                    raise Undec(f"index `{src(it)}` in `{s_[:50]}` is neither a slice nor the loop index", e)
            order = [a for a in order if a not in drop]
            return View(v.buf, sel, order)
        raise Undec(f"`{s_[:60]}` is not an array expression the analysis follows", e)

    # ---- regions of a view: per dimension [lo, hi) or loop-indexed
    def spans(self, v):
        """dict buffer-axis -> (lo, hi) in buffer coordinates, loop-indexed axes expanded to the loop's range"""
        out = {}
        for ax, s_ in enumerate(v.sel):
            if s_[0] == "iv":
                out[ax] = (s_[1], s_[2])
            else:
                out[ax] = (s_[2] + s_[1].lo, s_[2] + s_[1].hi)
        return out

    def note_access(self, v, mode):
        if self.loop is None:
            return
        ix = [ax for ax, s_ in enumerate(v.sel) if s_[0] == "ix"]
        self.loop_acc.append((v.buf.name, tuple(ix), mode))

    # ---- statements
    def run(self):
        # integers of the constructor (shape of the work array)
        self.init_ints = {}
        saved = self.ints
        self.ints = self.init_ints
        for st in _flat(self.init_body):
            self.int_assign(st)
        self.ints = saved
        self.block(self.body)

    def int_assign(self, st):
        if isinstance(st, ast.Assign) and len(st.targets) == 1:
            t, v = st.targets[0], st.value
            pairs = [(t, v)]
            if isinstance(t, ast.Tuple) and isinstance(v, ast.Tuple) and len(t.elts) == len(v.elts):
                pairs = list(zip(t.elts, v.elts))
            done = False
            for a, b in pairs:
                if isinstance(a, ast.Name):
                    try:
                        self.ints[a.id] = self.ival(b)
                        done = True
                    except Undec:
                        self.ints.pop(a.id, None)
            return done
        return False

    def mentions_arrays(self, st):
        for x in ast.walk(st):
            if isinstance(x, ast.Name) and (x.id in self.names or x.id == "ug"):
                return True
            if isinstance(x, ast.Attribute) and src(x) in ("spl.coeffs", "spl._coeffs", "self._bwork") or \
                    (isinstance(x, ast.Attribute) and src(x).startswith("self._spline")) or (isinstance(x, ast.Attribute) and src(x) in self.bufs):
                return True
        return False

    def block(self, stmts):
        for k, st in enumerate(stmts):
            if isinstance(st, ast.If) and self.mentions_arrays(st) and self.if_(st, stmts[k + 1:]):
                return
            self.stmt(st)

    # ---- statements that run on some paths only: the blocks they write hold the new content on those paths and the old one on the others
    def _effects(self, stmts):
        return any(self.mentions_arrays(x) for x in stmts)

    def if_(self, st, rest):
        """-> True when the rest of the statement list was consumed (a guard that skips it)"""
        jumps = [x for x in ast.walk(st) if isinstance(x, (ast.Break, ast.Return, ast.Continue))]
        body, orelse = st.body, st.orelse
        skip_body = bool(body) and isinstance(body[-1], ast.Continue) and not self._effects(body[:-1])
        skip_else = bool(orelse) and isinstance(orelse[-1], ast.Continue) and not self._effects(orelse[:-1])
        text = src(st.test)[:60]
        if self.loop is not None and len(jumps) == 1 and (skip_body and not self._effects(orelse) or skip_else and not self._effects(body)):
            # `if c: continue`: the rest of the iteration runs only when c is false
            cond = f"`{text}` is {'true' if skip_body else 'false'}"
            self.conditional((orelse if skip_body else body) + list(rest), cond, st)
            return True
        if jumps:
            raise Undec(f"branch on `{text}` leaves the loop or the method on one path", st)
        if self._effects(body) and self._effects(orelse):
            raise Undec(f"branch on `{text}` is not decided by the periodicity of the two bases", st)
        arm, cond = (body, f"`{text}` is false") if self._effects(body) else (orelse, f"`{text}` is true")
        self.conditional(arm, cond, st)
        return False

    def conditional(self, stmts, skipped_when, node):
        snaps = {}
        for name, b in list(self.bufs.items()):
            c = Buf("<before>" + name, b.dims, b.extents, "stale", b.from_data)
            c.cells = dict(b.cells)
            snaps[name] = c
            self.bufs[c.name] = c          # registered so that new cuts split it like the live arrays
        try:
            self.block(stmts)
        finally:
            for c in snaps.values():
                self.bufs.pop(c.name, None)
        for s_ in self.scratch.values():
            s_.valid = False
        for name, b in list(self.bufs.items()):
            c = snaps.get(name)          # an array first touched inside the guarded statements had its initial content before them
            for key in list(b.cells):
                new, old = b.cells[key], (self.cell_get(c, key) if c is not None else b.initial)
                if new == old:
                    continue
                if old != "stale" or not self.mentions_arrays(node.test):
                    # (a test of sizes / flags may be false only where the block is empty: not decided here)
                    raise Undec(f"the statements guarded by the test at line {getattr(node, 'lineno', '?')} replace {KIND_TEXT.get(old, old)} by "
                                f"{KIND_TEXT.get(new, new)} in `{name}` on some runs only (skipped when {skipped_when})", node)
                b.cells[key] = (f"{KIND_TEXT['stale']} whenever {skipped_when} (the stores into `{name}` are then skipped; a spline that was "
                                f"used before keeps the coefficients of the previous call there), {KIND_TEXT.get(new, new)} otherwise")

    def stmt(self, st):
        if isinstance(st, (ast.Assert, ast.Pass)):
            return
        if isinstance(st, ast.Return):
            if st.value is None or isinstance(st.value, ast.Constant):
                raise _Stop()
            raise Undec("returns a value", st)
        if isinstance(st, ast.Expr) and isinstance(st.value, ast.Constant):
            return
        if isinstance(st, ast.Expr) and isinstance(st.value, ast.Call):
            c = st.value
            f = src(c.func)
            for K in (1, 2):
                if f == f"self._interp{K}.compute_interpolant":
                    return self.solve(st, c, K)
            if f == "np.copyto" and len(c.args) == 2:
                return self.copy(st, c.args[0], c.args[1])
            if self.mentions_arrays(st):
                raise Undec(f"`{src(st)[:60]}` works on the arrays in a way the analysis does not model", st)
            return
        if isinstance(st, ast.Assign) and len(st.targets) == 1:
            t = st.targets[0]
            if isinstance(t, ast.Subscript):
                return self.copy(st, t, st.value)
            if isinstance(t, ast.Name):
                if self.int_assign(st):
                    self.names.pop(t.id, None)
                    return
                return self.bind(st, t.id, st.value)
            if isinstance(t, ast.Tuple):
                if self.int_assign(st):
                    return
                if self.mentions_arrays(st):
                    raise Undec(f"`{src(st)[:60]}`", st)
                return
            if self.mentions_arrays(st):
                raise Undec(f"`{src(st)[:60]}`", st)
            return
        if isinstance(st, ast.AugAssign) and isinstance(st.target, ast.Name) and st.target.id in self.ints:
            self.ints.pop(st.target.id, None)          # an integer that is updated in place: its value is not followed any more
            return
        if isinstance(st, ast.For):
            return self.for_(st)
        if isinstance(st, ast.If):
            if not self.mentions_arrays(st):
                for x in ast.walk(st):                 # integers (re)defined under a test that is not followed
                    if isinstance(x, ast.Name) and isinstance(x.ctx, ast.Store):
                        self.ints.pop(x.id, None)
                return
            if self.if_(st, []):
                return
            return
        if self.mentions_arrays(st):
            raise Undec(f"`{src(st)[:60]}` is not modelled", st)

    def bind(self, st, name, value):
        # a new local array
        if isinstance(value, ast.Call):
            f = src(value.func)
            if f in ("np.empty_like", "np.zeros_like", "np.ones_like") and value.args:
                base = self.view(value.args[0], quiet=True)
                if base is not None:
                    dt = [k for k in value.keywords if k.arg == "dtype"]
                    from_data = base.buf.name == "ug" and (not dt or "ug" in src(dt[0].value))
                    exts = [base.sel[a][2] - base.sel[a][1] for a in base.order]
                    dims = [base.buf.dims[a] for a in base.order]
                    b = self.new_buf(f"{name}@{st.lineno}", dims, exts, "stale", from_data)
                    b.alloc = src(value)
                    self.names[name] = View(b, [("iv", sp.Integer(0), x) for x in exts], range(len(dims)))
                    return
            if f in ("np.empty", "np.zeros", "np.ones") and value.args:
                try:
                    exts = self.shape_expr(value.args[0], st)
                    dims = self.dims_of_shape(exts, st)
                except Undec:
                    exts = None
                if exts is not None and len(exts) == 2:
                    dt = [k for k in value.keywords if k.arg == "dtype"]
                    b = self.new_buf(f"{name}@{st.lineno}", dims, exts, "stale", bool(dt) and "ug" in src(dt[0].value))
                    b.alloc = src(value)
                    self.names[name] = View(b, [("iv", sp.Integer(0), x) for x in exts], range(len(dims)))
                    return
            if isinstance(value.func, ast.Attribute) and value.func.attr == "copy" and not value.args:
                base = self.view(value.func.value, quiet=True)
                if base is not None and base.ndim == 2 and not any(s_[0] == "ix" for s_ in base.sel):
                    exts = [base.sel[a][2] - base.sel[a][1] for a in base.order]
                    dims = [base.buf.dims[a] for a in base.order]
                    b = self.new_buf(f"{name}@{st.lineno}", dims, exts, "stale", base.buf.from_data)
                    self.names[name] = View(b, [("iv", sp.Integer(0), x) for x in exts], range(len(dims)))
                    self.copy_views(st, self.names[name], base)
                    return
        is_copy = isinstance(value, ast.Call) and isinstance(value.func, ast.Attribute) and value.func.attr == "copy"
        v = None if is_copy else self.view(value, quiet=True)
        if v is not None:
            self.names[name] = v
            return
        self.names.pop(name, None)
        if self.mentions_arrays(st):
            raise Undec(f"`{src(st)[:60]}` is not an array expression the analysis follows", st)

    def for_(self, st):
        if self.loop is not None:
            raise Undec("nested loops", st)
        if st.orelse:
            raise Undec("for/else", st)
        it = st.iter
        idx_name, elem_name, over = None, None, None
        subset, before = None, {}
        if isinstance(it, ast.Call) and src(it.func) == "range" and len(it.args) == 1 and isinstance(st.target, ast.Name):
            idx = Idx(st.target.id, sp.Integer(0), self.ival(it.args[0], st), st)
        elif isinstance(it, ast.Call) and src(it.func) == "enumerate" and len(it.args) == 1 and isinstance(st.target, ast.Tuple) and \
                len(st.target.elts) == 2 and all(isinstance(x, ast.Name) for x in st.target.elts):
            over = self.view(it.args[0])
            idx = Idx(st.target.elts[0].id, sp.Integer(0), None, st)
            elem_name = st.target.elts[1].id
        elif isinstance(st.target, ast.Name) and self.view(it, quiet=True) is not None:
            over = self.view(it)
            idx = Idx(f"<row of {src(it)[:20]}>", sp.Integer(0), None, st)
            elem_name = st.target.id
        elif isinstance(st.target, ast.Name) and self.row_subset(it) is not None:
            # a loop over a DATA-DEPENDENT subset of the rows (np.flatnonzero(ug.any(axis=1)) ...): the body is read like the loop over all
            # rows; afterwards every block the loop has changed holds its new state on the selected rows only and its state of before the
            # loop on the others
            subset = self.row_subset(it)
            idx = Idx(st.target.id, sp.Integer(0), subset, st)
            before = {}
            for nm, b_ in list(self.bufs.items()):
                sh = Buf(f"<before the loop>{nm}", b_.dims, b_.extents, b_.initial, b_.from_data)
                sh.cells = dict(b_.cells)
                before[nm] = sh
            for nm, sh in before.items():
                self.bufs[sh.name] = sh              # registered so that new cuts split the snapshot too
        else:
            if self.mentions_arrays(st):
                raise Undec(f"loop over `{src(it)[:50]}`", st)
            return
        if over is not None:
            if over.ndim != 2:
                raise Undec(f"loop over a {over.ndim}-d array", st)
            ax = over.order[0]
            lo, hi = over.sel[ax][1], over.sel[ax][2]
            idx.hi = hi - lo
            sel = list(over.sel)
            sel[ax] = ("ix", idx, lo)
            self.names[elem_name] = View(over.buf, sel, over.order[1:])
        self.loop, self.loop_acc = idx, []
        for K, s_ in self.scratch.items():
            s_.valid = False
        try:
            self.block(st.body)
        finally:
            acc = self.loop_acc
            self.loop, self.loop_acc = None, None
            if elem_name:
                self.names.pop(elem_name, None)
        # iterations are independent: every array that the loop writes is accessed at the row/column of the iteration only
        written = {n_ for n_, ix, m in acc if m == "w"}
        for n_ in written:
            axes = {ix for n2, ix, m in acc if n2 == n_}
            if len(axes) != 1 or not next(iter(axes)):
                raise Undec(f"the iterations of the loop over `{src(st.iter)[:40]}` are not independent on `{n_}`", st)
        for s_ in self.scratch.values():
            s_.valid = False
        if subset is not None:
            for nm, sh in before.items():
                self.bufs.pop(sh.name, None)
            for nm, b_ in list(self.bufs.items()):
                sh = before.get(nm)             # a buffer first met inside the loop held its initial state before it
                for key in list(b_.cells):
                    newk, oldk = b_.cells[key], (self.cell_get(sh, key) if sh is not None else b_.initial)
                    if newk == oldk:
                        continue
                    if oldk == "zero":
                        raise Undec(f"the loop over `{src(it)[:50]}` skips rows of `{nm}` that hold a constant fill: whether the skipped rows "
                                    "already hold the right values is not decided", st)
                    b_.cells[key] = (f"{KIND_TEXT.get(newk, newk)} on the rows selected by `{src(it)[:50]}` only, on the skipped rows "
                                     f"{KIND_TEXT.get(oldk, oldk)} (a skipped row is never written)")

    def row_subset(self, it):
        """`it` selects a data-dependent subset of the row indices of a 2-D array the analysis follows: np.flatnonzero(R) / np.nonzero(R)[0] /
        np.where(R)[0] with R a reduction of the array (of its absolute value, of a comparison of it) along the other axis, possibly
        compared with a threshold.  -> number of rows, None when `it` is not of this form"""
        arg = None
        if isinstance(it, ast.Call) and src(it.func) in ("np.flatnonzero", "numpy.flatnonzero") and len(it.args) == 1 and not it.keywords:
            arg = it.args[0]
        elif isinstance(it, ast.Subscript) and isinstance(it.slice, ast.Constant) and it.slice.value == 0 and isinstance(it.value, ast.Call) and \
                src(it.value.func) in ("np.nonzero", "np.where", "numpy.nonzero", "numpy.where") and len(it.value.args) == 1 and not it.value.keywords:
            arg = it.value.args[0]
        if arg is None:
            return None
        if isinstance(arg, ast.Compare) and len(arg.ops) == 1 and isinstance(arg.comparators[0], (ast.Constant, ast.Name, ast.Attribute)):
            arg = arg.left
        if not isinstance(arg, ast.Call):
            return None
        REDS = ("any", "all", "max", "min", "sum", "ptp", "count_nonzero")
        X, axis = None, None
        if isinstance(arg.func, ast.Attribute) and arg.func.attr in REDS and src(arg.func.value) not in ("np", "numpy"):
            X = arg.func.value
            axis = arg.args[0] if arg.args else next((k.value for k in arg.keywords if k.arg == "axis"), None)
        elif isinstance(arg.func, ast.Attribute) and arg.func.attr in REDS and arg.args:
            X = arg.args[0]
            axis = arg.args[1] if len(arg.args) > 1 else next((k.value for k in arg.keywords if k.arg == "axis"), None)
        if X is None or not (isinstance(axis, ast.Constant) and axis.value in (0, 1, -1)):
            return None
        while True:
            if isinstance(X, ast.Call) and src(X.func) in ("np.abs", "abs", "np.absolute", "np.fabs") and len(X.args) == 1:
                X = X.args[0]
            elif isinstance(X, ast.Compare) and len(X.ops) == 1 and isinstance(X.comparators[0], ast.Constant):
                X = X.left
            else:
                break
        v = self.view(X, quiet=True)
        if v is None or v.ndim != 2 or any(s_[0] == "ix" for s_ in v.sel):
            return None
        kept = 0 if axis.value in (1, -1) else 1
        if kept != 0:
            return None                     # the indices then number columns: not followed
        s_ = v.sel[v.order[0]]
        if not _same(s_[1], 0):
            return None
        return s_[2] - s_[1]

    def solve(self, st, call, K):
        b = agree.bind_call(call, ["ug", "spl"])
        if b is None or set(b) != {"ug", "spl"}:
            raise Undec(f"arguments of `{src(call)[:60]}`", st)
        spl = src(b["spl"])
        which = [k for k in (1, 2) if spl == f"self._spline{k}"]
        if not which:
            raise Undec(f"`{spl}` is not one of the interpolator's own 1-D splines", st)
        v = self.view(b["ug"])
        if v.ndim != 1:
            raise Broken(f"`{src(b['ug'])[:40]}` is {v.ndim}-dimensional: the 1-D interpolator needs one row or column", st, "H4-sweep-roles")
        ax = v.order[0]
        d = v.buf.dims[ax]
        other_ax = 1 - ax if len(v.buf.dims) == 2 else None
        lo, hi = v.sel[ax][1], v.sel[ax][2]
        name = {1: "x1", 2: "x2"}
        if which[0] != K:
            raise Broken(f"`{src(call)[:70]}`: the interpolator of dimension {K} writes into the work spline of dimension {which[0]} (another basis: "
                         "the 1-D interpolator refuses it)", st, "H4-sweep-roles")
        if d != K:
            raise Broken(f"`{src(call)[:70]}`: `{src(b['ug'])[:30]}` runs along {name[d]} but is interpolated with the tools of dimension {K}: "
                         f"the {name[d]} direction is solved with the collocation matrix of the other basis", st, "H4-sweep-roles")
        if not _same(hi - lo, NS[d]):
            raise Broken(f"`{src(b['ug'])[:40]}` has {hi - lo} entries along {name[d]}; the 1-D interpolator takes exactly nbasis = {NS[d]} data "
                         "values (assertion fails)", st, "H4-sweep-roles")
        if not _same(lo, 0):
            raise Broken(f"`{src(b['ug'])[:40]}` starts at entry {lo}: the data of interpolation point j are taken from position j+{lo}", st, "H4-sweep-roles")
        self.note_access(v, "r")
        # typestate of the data, per segment of the other dimension
        kinds = []
        if other_ax is None:
            raise Undec("1-D buffer", st)
        osel = v.sel[other_ax]
        olo, ohi = self.spans(v)[other_ax]
        od = v.buf.dims[other_ax]
        for a, bnd in self.segs(od, olo, ohi):
            ks = set()
            for a2, b2 in self.segs(d, lo, hi):
                key = [None, None]
                key[ax], key[other_ax] = a2, a
                ks.add(self.cell_get(v.buf, key))
            if len(ks) != 1:
                raise Broken(f"`{src(b['ug'])[:40]}` mixes {sorted(KIND_TEXT.get(k, k) for k in ks)} along {name[d]}", st, "H4-sweep-roles")
            k = next(iter(ks))
            if k == "data":
                nk = f"c{d}"
            elif k == f"c{3 - d}":
                nk = "c12"
            elif k in (f"c{d}", "c12"):
                raise Broken(f"`{src(call)[:60]}` interpolates along {name[d]} values that are already coefficients along {name[d]}", st, "H4-sweep-roles")
            else:
                raise Broken(f"`{src(call)[:60]}` interpolates {KIND_TEXT.get(k, k)} (rows {a}..{bnd} of `{v.buf.name}` along {name[od]})", st,
                             "H4-sweep-roles")
            kinds.append((a, bnd, nk))
        s_ = self.scratch.setdefault(K, Scratch(K, self.E[K]))
        s_.other_sel, s_.other_dim, s_.kinds, s_.valid, s_.loop = osel, od, kinds, True, self.loop
        self.solves.append((st, K, f"{src(b['ug'])[:40]} along {name[d]} -> interp{K}/spline{K}"))

    def copy(self, st, target, value):
        tv = self.view(target)
        sc = self.scratch_of(value, st)
        if sc is not None:
            return self.store_scratch(st, tv, sc)
        if isinstance(value, ast.Constant):
            self.note_access(tv, "w")
            self.fill(tv, "zero")
            return
        if isinstance(value, ast.Call) and isinstance(value.func, ast.Attribute) and value.func.attr == "copy" and not value.args:
            value = value.func.value
        sv = self.view(value)
        self.copy_views(st, tv, sv)

    def fill(self, tv, kind):
        sp_ = self.spans(tv)
        axes = list(range(len(tv.buf.dims)))
        segs = [self.segs(tv.buf.dims[ax], *sp_[ax]) for ax in axes]
        for a in segs[0]:
            for b in (segs[1] if len(segs) > 1 else [None]):
                key = (a[0],) if b is None else (a[0], b[0])
                self.cell_set(tv.buf, key, kind)

    def store_scratch(self, st, tv, sc):
        K, slo, shi = sc
        s_ = self.scratch.get(K)
        name = {1: "x1", 2: "x2"}
        if s_ is None or not s_.valid or s_.loop is not self.loop:
            raise Broken(f"`{src(st)[:70]}` stores the coefficients of work spline {K} that no solve of this iteration has produced", st)
        if tv.ndim != 1:
            raise Undec(f"`{src(st)[:60]}`: the target is not one row or column", st)
        ax = tv.order[0]
        d = tv.buf.dims[ax]
        oax = 1 - ax
        if d != K:
            raise Broken(f"`{src(st)[:70]}` stores coefficients along {name[K]} into a row that runs along {name[d]}", st)
        tlo, thi = tv.sel[ax][1], tv.sel[ax][2]
        if not _same(thi - tlo, shi - slo):
            raise Broken(f"`{src(st)[:70]}` stores {shi - slo} coefficients into {thi - tlo} places: raises a shape error", st)
        # the row it is stored in must be the row it was solved for
        osel, tsel = s_.other_sel, tv.sel[oax]
        od = tv.buf.dims[oax]
        if od != s_.other_dim:
            raise Undec(f"`{src(st)[:60]}`", st)
        if osel[0] == "ix" and tsel[0] == "ix" and osel[1] is tsel[1]:
            shift = tsel[2] - osel[2]
        elif osel[0] == "iv" and tsel[0] == "iv" and _same(osel[2] - osel[1], 1) and _same(tsel[2] - tsel[1], 1):
            shift = tsel[1] - osel[1]
        else:
            raise Undec(f"`{src(st)[:60]}`: cannot relate the row stored to the row solved", st)
        self.note_access(tv, "w")
        off = tlo - slo
        wrapped_ok = _same(off, 0)
        for a, bnd, kind in s_.kinds:
            for a2, b2 in self.segs(d, tlo, thi):
                k = kind
                if not _same(shift, 0):
                    k = f"misplaced: the row solved for position i of {name[od]} is stored at position i+{shift}"
                if not wrapped_ok:
                    k = f"misplaced: coefficient j of the {name[d]} solve is stored at position j+{off}"
                key = [None, None]
                key[ax], key[oax] = a2, a + shift
                self.add_cut(od, a + shift)
                self.cell_set(tv.buf, key, k)
        if tv.buf.from_data:
            self.dtype_bad.append((st, tv.buf))

    def copy_views(self, st, tv, sv):
        name = {1: "x1", 2: "x2"}
        if tv.ndim != sv.ndim:
            if sv.ndim < tv.ndim:
                raise Undec(f"`{src(st)[:60]}` broadcasts", st)
            raise Broken(f"`{src(st)[:70]}` copies a {sv.ndim}-d part into a {tv.ndim}-d part: raises a shape error", st)
        tdims = [tv.buf.dims[a] for a in tv.order]
        sdims = [sv.buf.dims[a] for a in sv.order]
        if tdims != sdims:
            raise Broken(f"`{src(st)[:70]}` copies an array indexed ({', '.join(name[d] for d in sdims)}) onto one indexed "
                         f"({', '.join(name[d] for d in tdims)}) without transposing: coefficients land at exchanged positions "
                         "(or the copy raises a shape error)", st)
        # loop-indexed axes must correspond
        tix = {tv.buf.dims[ax]: s_ for ax, s_ in enumerate(tv.sel) if s_[0] == "ix"}
        six = {sv.buf.dims[ax]: s_ for ax, s_ in enumerate(sv.sel) if s_[0] == "ix"}
        if set(tix) != set(six):
            raise Undec(f"`{src(st)[:60]}`: the loop index selects different dimensions on the two sides", st)
        self.note_access(sv, "r")
        self.note_access(tv, "w")
        tsp, ssp = self.spans(tv), self.spans(sv)
        t_by_dim = {tv.buf.dims[ax]: (ax, tsp[ax]) for ax in range(len(tv.buf.dims))}
        s_by_dim = {sv.buf.dims[ax]: (ax, ssp[ax]) for ax in range(len(sv.buf.dims))}
        offs = {}
        for d in t_by_dim:
            (tax, (tlo, thi)), (sax, (slo, shi)) = t_by_dim[d], s_by_dim[d]
            if not _same(thi - tlo, shi - slo):
                raise Broken(f"`{src(st)[:70]}` copies {shi - slo} entries along {name[d]} into {thi - tlo} places: raises a shape error "
                             f"({'periodic' if self.per[d] else 'clamped'} {name[d]})", st)
            offs[d] = sp.expand(tlo - slo)
        lost = [d for d in offs if not _same(offs[d], 0) and not (self.per[d] and (_same(offs[d], NS[d]) or _same(offs[d], -NS[d])))]
        if lost:
            # whatever the source holds, it lands at positions where it does not belong
            d = lost[0]
            self.fill(tv, f"misplaced: `{src(st)[:60]}` stores at position j+{offs[d]} along {name[d]} what belongs to position j")
            return
        for d in t_by_dim:
            (tax, (tlo, thi)), (sax, (slo, shi)) = t_by_dim[d], s_by_dim[d]
            # matching cuts on both sides
            self.add_cut(d, slo), self.add_cut(d, shi), self.add_cut(d, tlo), self.add_cut(d, thi)
            for c in list(self.cuts[d]):
                if le(slo, c) and le(c, shi):
                    self.add_cut(d, c + offs[d])
                if le(tlo, c) and le(c, thi):
                    self.add_cut(d, c - offs[d])
        dims = sorted(t_by_dim)
        segs = {d: self.segs(d, *t_by_dim[d][1]) for d in dims}
        new = {}
        for a in segs[dims[0]]:
            for b in segs[dims[1]] if len(dims) > 1 else [None]:
                pos = {dims[0]: a[0]}
                if b is not None:
                    pos[dims[1]] = b[0]
                tkey = [None] * len(tv.buf.dims)
                skey = [None] * len(sv.buf.dims)
                for d in dims:
                    tkey[t_by_dim[d][0]] = pos[d]
                    skey[s_by_dim[d][0]] = pos[d] - offs[d]
                k = self.cell_get(sv.buf, skey)
                for d in dims:
                    k = self.moved(k, d, offs[d], st)
                new[tuple(sp.expand(x) for x in tkey)] = k
        for key, k in new.items():
            self.cell_set(tv.buf, key, k)
            if tv.buf.from_data and k in ("c1", "c2", "c12"):
                self.dtype_bad.append((st, tv.buf))

    def moved(self, kind, d, off, st):
        if _same(off, 0) or kind in ("stale", "zero") or kind.startswith("misplaced"):
            return kind
        solved = kind in ("c12", f"c{d}")
        if self.per[d] and solved and (_same(off, NS[d]) or _same(off, -NS[d])):
            return kind
        name = {1: "x1", 2: "x2"}
        return (f"misplaced: holds the {KIND_TEXT.get(kind, kind)} of the position {off} entries before it along {name[d]} "
                f"(`{src(st)[:50]}`)")

    def final(self):
        b = self.bufs.get("spl.coeffs")
        if b is None:
            raise Broken("the coefficient array of the spline is never written", None)
        bad = []
        c1, c2 = self.cuts[1], self.cuts[2]
        for a, a_hi in zip(c1, c1[1:]):
            if not (le(a_hi, self.E[1]) is True):
                continue
            for bb, b_hi in zip(c2, c2[1:]):
                if not (le(b_hi, self.E[2]) is True):
                    continue
                k = self.cell_get(b, (a, bb))
                if k != "c12":
                    bad.append(((a, a_hi), (bb, b_hi), k))
        return bad


class _Stop(Exception):
    pass


def two_d(chk, imod):
    smod = chk.mod(U.SPLINES)
    q = f"{C2}.compute_interpolant"
    fn = chk.func(U.INTERP, q)
    init_q = f"{C2}.__init__"
    init = chk.func(U.INTERP, init_q)
    # ---- 1-D tools of dimension k are built on basis k
    probs, found = [], 0
    for st in ast.walk(init):
        if isinstance(st, ast.Assign) and isinstance(st.value, ast.Call) and src(st.value.func) in ("Spline1D", "SplineInterpolator1D") and st.value.args:
            t = src(st.targets[0])
            for K in (1, 2):
                if t in (f"self._spline{K}", f"self._interp{K}"):
                    found += 1
                    a = src(st.value.args[0])
                    if a in (f"basis{3 - K}", f"self._basis{3 - K}"):
                        probs.append(f"`{src(st)}` builds the tool of dimension {K} on the basis of dimension {3 - K}")
                    elif a not in (f"basis{K}", f"self._basis{K}"):
                        found -= 1
        if isinstance(st, ast.Assign) and src(st.targets[0]) in ("self._basis1", "self._basis2") and isinstance(st.value, ast.Name):
            K = int(src(st.targets[0])[-1])
            if st.value.id == f"basis{3 - K}":
                probs.append(f"`{src(st)}` stores the basis of dimension {3 - K} as basis {K}")
    tools_ok = found == 4 and not probs
    # ASSUMPTIONS of every VIOLATED verdict of the region analysis below:
    #  (1) the 1-D interpolator keeps its contract - given nbasis data values it fills ALL ncells+degree coefficients of the work spline,
    #      wrapped copy included (rules H2 / H3 of SplineInterpolator1D.compute_interpolant hold);
    #  (2) the wrapped entries are read as coefficients of their own (kernels read the linear window, no spline class wraps by itself);
    #  (3) interpolator / work spline k are built on basis k (the rule right below).
    # When one of them is not established the region analysis still runs, but what it finds wrong is UNDECIDED.
    from ..core import HOLDS as _HOLDS
    ci1 = f"{C1}.compute_interpolant"
    callee = [o for o in chk.obs if o.func == ci1 and o.rule in ("H2-factor-solve-pair", "H3-periodic-wrap")]
    callee_ok = bool(callee) and all(o.status == _HOLDS for o in callee)
    reader_ok, reader_text = _reader_side_ok(chk)
    premises = []
    if not callee_ok:
        premises.append("the 1-D interpolator was not established to fill all coefficients of its work spline (wrapped copy included)")
    if not reader_ok:
        premises.append(reader_text)
    if not tools_ok:
        premises.append("the 1-D tools were not established to be built on the basis of their own dimension")

    def verdict_false(rule):
        need = premises if rule == "H3-periodic-wrap" else [p_ for p_ in premises if "tools" in p_]
        return (False, "") if not need else (None, " - not decided, because " + "; ".join(need))
    chk.pat("H4-sweep-roles", init, "1-D tools of dimension k are built on basis k", found == 4 and not probs,
            "spline/interpolator k are built on basis k", ("; ".join(probs) + ": each direction is solved with the other direction's collocation "
                                                           "matrix") if probs else None, file=U.INTERP, func=init_q)
    # ---- the four combinations of periodicity
    name = {1: "x1", 2: "x2"}
    dtype_hits = []
    for p1 in (True, False):
        for p2 in (True, False):
            per = {1: p1, 2: p2}
            cfg = f"x1 {'periodic' if p1 else 'clamped'}, x2 {'periodic' if p2 else 'clamped'}"
            facts = {}
            for d in (1, 2):
                for recv in (f"self._basis{d}", f"basis{d}", f"spl._basis{d}"):
                    facts[f"{recv}.periodic"] = per[d]
                    facts[f"{recv}._periodic"] = per[d]
            body = Specialiser(imod, C2, facts=facts).run("compute_interpolant")
            init_body = Specialiser(imod, C2, facts=facts).run("__init__")
            R = Regions(chk, imod, smod, per, body, init_body)
            construct = f"every entry of spl.coeffs holds its final coefficient ({cfg})"
            try:
                try:
                    R.run()
                except _Stop:
                    pass
                bad = R.final()
            except Broken as e:
                for st, K, text in R.solves:
                    chk.ob("H4-sweep-roles", st, text, True, "data along a dimension are interpolated with the tools of that dimension",
                           file=U.INTERP, func=q)
                vf, vtext = verdict_false(e.rule)
                chk.ob(e.rule, e.node if e.node is not None else fn, construct if e.rule == "H3-periodic-wrap" else src(e.node)[:80], vf,
                       f"[{cfg}] {e.why}{vtext}", file=U.INTERP, func=q)
                dtype_hits += R.dtype_bad
                continue
            except Undec as e:
                for st, K, text in R.solves:
                    chk.ob("H4-sweep-roles", st, text, True, "data along a dimension are interpolated with the tools of that dimension",
                           file=U.INTERP, func=q)
                chk.ob("H3-periodic-wrap", e.node if isinstance(e.node, ast.AST) and hasattr(e.node, "lineno") else fn, construct, None,
                       f"[{cfg}] the analysis cannot follow: {e.why}", file=U.INTERP, func=q)
                dtype_hits += R.dtype_bad
                continue
            dtype_hits += R.dtype_bad
            for st, K, text in R.solves:
                chk.ob("H4-sweep-roles", st, text, True, "data along a dimension are interpolated with the tools of that dimension",
                       file=U.INTERP, func=q)
            if len({K for _s, K, _t in R.solves}) < 2 and not bad:
                chk.ob("H4-sweep-roles", fn, "one sweep per dimension", None, "fewer than two sweeps recognised although the result is final",
                       file=U.INTERP, func=q)
            if bad:
                (a, a_hi), (b, b_hi), k = bad[0]
                what = k if k.startswith("misplaced") else KIND_TEXT.get(k, k)
                vf, vtext = verdict_false("H3-periodic-wrap")
                chk.ob("H3-periodic-wrap", fn, construct, vf,
                       f"[{cfg}] at the end the entries [{a}, {a_hi}) x [{b}, {b_hi}) of spl.coeffs (n = nbasis, p = degree of each dimension) hold "
                       f"{what}, not the coefficients of the two solves"
                       + (f" ({len(bad)} such blocks)" if len(bad) > 1 else "") +
                       ": the spline does not interpolate the data near the end of a periodic dimension" + vtext, file=U.INTERP, func=q)
            else:
                chk.ob("H3-periodic-wrap", fn, construct, True,
                       "every block of the coefficient array (first degree entries, middle, wrapped entries, in both dimensions) ends as the "
                       "result of both 1-D solves at its own position", file=U.INTERP, func=q)
    # ---- intermediate coefficients are kept in storage whose type does not depend on the caller's data
    likes = {}
    for n_ in ast.walk(fn):
        if isinstance(n_, ast.Assign) and isinstance(n_.targets[0], ast.Name) and isinstance(n_.value, ast.Call) \
                and src(n_.value.func) in ("np.empty_like", "np.zeros_like", "np.ones_like") and n_.value.args \
                and src(n_.value.args[0]) in ("ug",) and not any(k.arg == "dtype" for k in n_.value.keywords):
            likes[n_.targets[0].id] = n_
    badw = [n_ for n_ in ast.walk(fn) if isinstance(n_, ast.Assign) and isinstance(n_.targets[0], ast.Subscript)
            and src(n_.targets[0].value) in likes and "coeffs" in src(n_.value)]
    hit = None
    if badw:
        hit = (badw[0], src(likes[src(badw[0].targets[0].value)].value))
    elif dtype_hits:
        hit = (dtype_hits[0][0], getattr(dtype_hits[0][1], "alloc", dtype_hits[0][1].name))
    # ASSUMPTION of VIOLATED: `ug` is the caller's array, of whatever type he chose - not a local re-bound to a converted copy
    ug_rebound = any(isinstance(n_, ast.Name) and n_.id == "ug" and isinstance(n_.ctx, ast.Store) for n_ in ast.walk(fn))
    chk.ob("H5-work-dtype", hit[0] if hit else fn, "intermediate coefficients are not stored in an array typed like the data",
           True if not hit else (None if ug_rebound else False),
           "the work arrays are the spline's own coefficient array and a float work array" if not hit else
           f"`{src(hit[0])[:80]}` stores spline coefficients in `{hit[1]}`, an array of the DATA's "
           "dtype: integer data truncates, single precision rounds the first-sweep coefficients, and the interpolant no longer reproduces "
           "the data", file=U.INTERP, func=q, nontrivial=False)


APPROX_CALLS = ("np.allclose", "np.isclose", "numpy.allclose", "numpy.isclose", "math.isclose")


def no_approximate_shortcut(chk, imod):
    """The coefficients are the solution of the collocation system for the data GIVEN: a statement that replaces the solve whenever the
    data pass an APPROXIMATE comparison (np.allclose / isclose, |..| < tolerance) gives data that pass it without being equal the
    coefficients of other data.  ASSUMPTIONS of VIOLATED (checked): the test is an approximate comparison whose arguments are computed from
    the data parameter `ug`; on the arm it selects no 1-D solve is reached (it ends with continue / return, or holds no solve while the
    rest of the block does) although the method solves elsewhere; the arm writes coefficients or leaves the iteration."""
    for cls_, q in ((C2, "compute_interpolant"), (C1, "compute_interpolant")):
        if not imod.has(f"{cls_}.{q}"):
            continue
        try:
            body = Specialiser(imod, cls_).run(q)
        except Exception:
            continue
        fq = f"{cls_}.{q}"

        def is_solve(c):
            return isinstance(c, ast.Call) and (src(c.func).endswith(".compute_interpolant") or src(c.func) in ("self._solveFunc", "self._splu.solve"))
        all_solves = [c for st in _flat(body) for c in own_exprs(st) if is_solve(c)]
        data = {"ug"}
        for st in _flat(body):
            if isinstance(st, ast.Assign) and len(st.targets) == 1 and isinstance(st.targets[0], ast.Name) and \
                    any(isinstance(n, ast.Name) and n.id in data for n in ast.walk(st.value)):
                data.add(st.targets[0].id)
            if isinstance(st, ast.For) and any(isinstance(n, ast.Name) and n.id in data for n in ast.walk(st.iter)):
                data |= {n.id for n in ast.walk(st.target) if isinstance(n, ast.Name)}
        verdict, text, node = True, "", None
        for st in _flat(body):
            if not isinstance(st, ast.If):
                continue
            t, sw = _polarity(st.test)
            approx = [c for c in ast.walk(t) if isinstance(c, ast.Call) and src(c.func) in APPROX_CALLS and
                      any(isinstance(n, ast.Name) and n.id in data for a in c.args for n in ast.walk(a))]
            tol = [c for c in ast.walk(t) if isinstance(c, ast.Compare) and len(c.ops) == 1 and isinstance(c.ops[0], (ast.Lt, ast.LtE)) and
                   any(isinstance(x, ast.Call) and src(x.func) in ("abs", "np.abs", "np.max", "np.amax", "np.linalg.norm") for x in ast.walk(c.left)) and
                   any(isinstance(n, ast.Name) and n.id in data for n in ast.walk(c.left))]
            if not approx and not tol:
                continue
            if isinstance(t, ast.BoolOp) or sw:
                verdict, text, node = (None, f"`{src(st.test)[:60]}` combines an approximate comparison of the data with other tests: not followed", st) \
                    if verdict else (verdict, text, node)
                continue
            arm = st.body
            arm_solves = [c for x in arm for y in ast.walk(x) for c in [y] if is_solve(c)]
            leaves = bool(arm) and isinstance(arm[-1], (ast.Continue, ast.Return))
            writes = [x for y in arm for x in ast.walk(y) if isinstance(x, ast.Assign) and isinstance(x.targets[0], ast.Subscript)]
            if all_solves and not arm_solves and (leaves or writes):
                a = (approx or tol)[0]
                verdict, node = False, st
                text = (f"whenever `{src(st.test)[:70]}` holds the data " + ("get `" + src(writes[0])[:50] + "` and " if writes else "") +
                        "no solve is done: the test is an approximate comparison" +
                        (" (numpy's default absolute tolerance 1e-8 is not scaled to the data)" if approx and "atol" not in [k.arg for k in a.keywords] else "") +
                        ", so data that pass it without being equal (values of uniformly small amplitude, the tail of a distribution function) "
                        "receive the coefficients of other data and the interpolant does not take the given values")
                break
            verdict, text, node = (None, f"`{src(st.test)[:60]}`: an approximate comparison of the data selects statements whose effect is not followed", st) \
                if verdict else (verdict, text, node)
        chk.ob("H6-no-approximate-shortcut", node if node is not None else imod.func(fq), f"{fq}: no solve is replaced under an approximate test of the data",
               verdict, "no statement of the interpolation is selected by an approximate comparison of the data" if verdict else text,
               file=U.INTERP, func=fq)


def run(chk):
    chk.explanation = (
        "Narrow structural claim: collocation matrix built from one basis; on each kind of space (periodic/clamped x uniform/general, "
        "flags resolved, local functions written back at their calls) row i receives the degree+1 basis values at the columns that start "
        "at the first non-vanishing function (general search: span-degree; uniform search: index-K with the K of cu_find_span), modulo nb "
        "on periodic spaces or through an unwrapped matrix whose extra columns are added back, and values that meet on a column add up "
        "(assignments of the degree+1 values into an nb-column row lose one when nb == degree); statements of the 2-D sweeps that run on "
        "some data only leave the old content on the other runs; "
        "factorisation and solve selected as a pair by dtype equality, by this interpolator's own dtype, and fed with each other's "
        "factors; LAPACK band storage; periodic 1-D solves followed by the coefficient wrap; in 2-D, on each of the four combinations "
        "of periodic/clamped dimensions, a typestate analysis of index regions (blocks cut at 0, degree, nbasis, nbasis+degree; states "
        "stale/data/solved along x1/x2/both/misplaced; transfer functions for slices, transposition, row loops, copies, 1-D solves) shows "
        "that every entry of the spline's coefficients ends as the result of both solves at its own position, and that each sweep "
        "uses the tools of its own dimension. Methods are read with branches on periodicity resolved and private helpers written back. "
        "The defining identity S(x_i)=u_i, polynomial reproduction and conditioning are numerical and are not decided.")
    chk.in_file(U.INTERP)
    imod = chk.mod(U.INTERP)
    collocation(chk, imod)
    factor_solve_pair(chk, imod)
    solves_1d(chk, imod)
    no_approximate_shortcut(chk, imod)
    two_d(chk, imod)
    chk.floor("H", 12)
    chk.floor("H3-periodic-wrap", 2)
    chk.floor("H4-sweep-roles", 2)
