"""C05 - results do not depend on the process decomposition.

The statically visible necessary condition (second sentence of the property): every
operator applies to each local slice the parameters of that slice's own global
coordinates.  Engine C types every table look-up and slice selection of the grid-level
operators; the driver typestate checks that each grid is in the layout its callee
requires.  The operator sections are reused by C10, C11, C13, C14, C15, C16.
"""
from __future__ import annotations

import ast

from ..core import src, AnalysisError, parent
from .. import units as U
from .. import ispace as I
from ..ispace import Ctx, IS, G, L, arr, OTHER, eta_grid_tag, layout_param, grid_param, dist_dims, tname
from .. import agree


def orders(chk):
    return I.load_layout_tables(chk)


# ------------------------------------------------------------------ engine C with a few more transfer functions
class IS2(IS):
    """engine C (ispace.IS) plus the typing of forms met in refactored code: a literal slice of a per-axis layout table
    (`layout.shape[:3]`), the bounds of the range of global indices (`getGlobalIdxVals(k).start`), np.broadcast_to (an array of the
    stated shape), list(zip(...)) of typed arrays, and same-class helper methods analysed with this class"""

    def ev_Subscript(self, e):
        if isinstance(e.slice, ast.Slice) and e.slice.step is None:
            base = self.ev(e.value)
            if isinstance(base, tuple) and isinstance(base[0], str) and base[0].startswith(("layout.", "grid.")):
                attr = base[0].split(".", 1)[1]
                order = base[1][1]
                lo = self.ev(e.slice.lower) if e.slice.lower is not None else ("lit", None)
                hi = self.ev(e.slice.upper) if e.slice.upper is not None else ("lit", None)
                kind = {"starts": lambda d: ("start", d), "ends": lambda d: ("end", d), "shape": lambda d: ("size", L(d)),
                        "max_block_shape": lambda d: ("size", ("Lmax", d)), "fullShape": lambda d: ("size", G(d))}.get(attr)
                if kind and order is not None and all(isinstance(x, tuple) and x[0] == "lit" for x in (lo, hi)):
                    t = [kind(d) for d in list(order)[slice(lo[1], hi[1])]]
                    self.node_tags[id(e)] = t
                    return t
        return IS.ev_Subscript(self, e)

    def ev_Attribute(self, e):
        if e.attr in ("start", "stop") and not (isinstance(e.value, ast.Name) and e.value.id == "self"):
            base = self.ev(e.value)
            # the global indices of a block are the contiguous range [start, end) of that dimension
            if is_arr_(base) and len(base[1]) == 1 and base[1][0] is not None and base[1][0][0] == "L" and base[2] == ("gidx", base[1][0][1]):
                return ("start" if e.attr == "start" else "end", base[1][0][1])
        return IS.ev_Attribute(self, e)

    def stmt(self, st):
        if isinstance(st, ast.For):
            it = self.ev(st.iter)
            w = it[1][0] if I.is_arr(it) and len(it[1]) == 1 else None
            self.__dict__.setdefault("iter_windows", []).append(w)
            try:
                return IS.stmt(self, st)
            finally:
                self.iter_windows.pop()
        return IS.stmt(self, st)

    def index_array(self, base, e):
        # an index that is a slice OBJECT (`rows = slice(a, b)`; `X[rows]`, `X[slice(a, b), j]`) selects a window of the axis like
        # the slice syntax `X[a:b]`; it is not an element index (the axis stays)
        items = list(e.slice.elts) if isinstance(e.slice, ast.Tuple) else [e.slice]
        new, hit = [], False
        for it in items:
            t = self.env.get(it.id) if isinstance(it, ast.Name) else None
            c = t[1] if isinstance(t, tuple) and len(t) == 2 and t[0] == "sliceobj" else \
                it if isinstance(it, ast.Call) and isinstance(it.func, ast.Name) and it.func.id == "slice" and not it.keywords else None
            if c is not None and 1 <= len(c.args) <= 2:
                none = lambda x: isinstance(x, ast.Constant) and x.value is None
                lo, hi = (None, c.args[0]) if len(c.args) == 1 else (c.args[0], c.args[1])
                new.append(ast.copy_location(ast.Slice(lower=None if lo is None or none(lo) else lo, upper=None if none(hi) else hi, step=None), it))
                hit = True
            else:
                new.append(it)
        if hit:
            e2 = ast.copy_location(ast.Subscript(value=e.value, slice=ast.Tuple(elts=new, ctx=ast.Load()) if isinstance(e.slice, ast.Tuple) else new[0],
                                                 ctx=e.ctx), e)
            ast.fix_missing_locations(e2)
            return IS.index_array(self, base, e2)
        return IS.index_array(self, base, e)

    def ev_Call(self, e):
        f = e.func
        name = f.attr if isinstance(f, ast.Attribute) else f.id if isinstance(f, ast.Name) else ""
        if name == "slice" and isinstance(f, ast.Name) and 1 <= len(e.args) <= 3 and not e.keywords:
            for a in e.args:
                self.ev(a)
            return ("sliceobj", e)
        if name == "append" and isinstance(f, ast.Attribute) and len(e.args) == 1 and len(getattr(self, "iter_windows", [])) == 1 \
                and self.iter_windows[0] is not None:
            # a list that starts empty and gets one entry per element of a typed array is a table over that array's index range
            cur = self.ev(f.value)
            self.ev(e.args[0])
            if cur == [] or (I.is_arr(cur) and cur[1] == (self.iter_windows[0],)):
                t = arr((self.iter_windows[0],), None)
                if isinstance(f.value, ast.Attribute) and isinstance(f.value.value, ast.Name) and f.value.value.id == "self":
                    self.attrs[f.value.attr] = t
                elif isinstance(f.value, ast.Name):
                    self.env[f.value.id] = t
            return OTHER
        if name == "broadcast_to" and isinstance(f, ast.Attribute) and isinstance(f.value, ast.Name) and f.value.id in ("np", "numpy") \
                and len(e.args) == 2 and not e.keywords:
            a0 = self.ev(e.args[0])
            shp = self.ev(e.args[1])
            if isinstance(shp, list):
                return arr(tuple(s_[1] if isinstance(s_, tuple) and s_[0] == "size" else (I.UNIT if s_ == ("lit", 1) else I.STENCIL) for s_ in shp),
                           a0[2] if is_arr_(a0) else None)
            return OTHER
        if name == "list" and isinstance(f, ast.Name) and len(e.args) == 1 and not e.keywords:
            return self.ev(e.args[0])
        if isinstance(f, ast.Attribute) and isinstance(f.value, ast.Name) and f.value.id == "self" and name in self.methods \
                and name not in self.summaries and self.depth < 3:
            args = [self.ev(a) for a in e.args]
            kw = {k.arg: self.ev(k.value) for k in e.keywords}
            m = self.methods[name]
            ps = [a.arg for a in m.args.args if a.arg != "self"]
            env = dict(zip(ps, args))
            env.update(kw)
            sub = IS2(self.chk, self.rel, self.q.split(".")[0] + "." + name, m, env, self.ctx, self.attrs, self.summaries)
            sub.methods = self.methods
            sub.depth = self.depth + 1
            sub.run()
            self.nobs += sub.nobs
            self.chk.functions.add(f"{self.rel}:{sub.q}")
            return getattr(sub, "ret", OTHER)
        return IS.ev_Call(self, e)


def is_arr_(t):
    return I.is_arr(t)


def ctor_attrs(chk, rel, cls, env, ctx=None, methods=None):
    """attribute tags established by cls.__init__ (same-class helper methods are inlined); `methods` replaces definitions of the
    class by private copies (a path of the class under an assumption)"""
    attrs = {}
    table = dict(I.class_methods(chk, rel, cls))
    table.update(methods or {})
    fn = table.get("__init__") or chk.mod(rel).func(f"{cls}.__init__")
    chk.functions.add(f"{rel}:{cls}.__init__")
    a = IS2(chk if not methods else _Mute(), rel, f"{cls}.__init__", fn, env, ctx or Ctx(dist_dims=None), attrs)
    a.methods = table
    a.run()
    return attrs, a


def summary_of(chk, rel, cls, mname, attrs, ctx, env_extra=None, fn=None):
    """required index tags of the parameters of a per-slice method (from its own table look-ups)"""
    mute = fn is not None
    fn = fn or chk.mod(rel).func(f"{cls}.{mname}")
    if mute:
        chk = _Mute()
    env = {a.arg: ("param", a.arg) for a in fn.args.args if a.arg != "self"}
    env.update(env_extra or {})
    a = IS2(chk, rel, f"{cls}.{mname}", fn, env, ctx, attrs)
    a.run()
    req = {}
    for p, reqs in a.param_req.items():
        ts = {t for t, _, _ in reqs}
        if len(ts) == 1:
            req[p] = next(iter(ts))
        elif ts:
            req[p] = sorted(ts)[0]
    params = [x.arg for x in fn.args.args if x.arg != "self"]
    return {"params": params, "req": req}, a


def run_method(chk, rel, cls, mname, env, ctx, attrs, summaries=None):
    fn = chk.mod(rel).func(f"{cls}.{mname}" if cls else mname)
    q = f"{cls}.{mname}" if cls else mname
    chk.functions.add(f"{rel}:{q}")
    a = IS2(chk, rel, q, fn, env, ctx, attrs, summaries or {})
    if cls:
        a.methods = {k: v for k, v in I.class_methods(chk, rel, cls).items() if k not in (summaries or {})}
    a.run()
    return a


# ------------------------------------------------------------------ equivalent library spellings
_NP_BINOPS = {"mod": ast.Mod, "remainder": ast.Mod, "add": ast.Add, "subtract": ast.Sub, "multiply": ast.Mult, "divide": ast.Div,
              "true_divide": ast.Div, "floor_divide": ast.FloorDiv, "power": ast.Pow}


def library_forms(e):
    """equivalent library spellings in one form: np.mod(a, b) / np.remainder(a, b) is `a % b` (element-wise, sign of the divisor, like
    Python's %), np.add / subtract / multiply / divide are the operators, np.negative(a) is -a.  (np.fmod is NOT `%`: left as it is.)"""
    class N(ast.NodeTransformer):
        def visit_Call(self, node):
            self.generic_visit(node)
            f = node.func
            if isinstance(f, ast.Attribute) and isinstance(f.value, ast.Name) and f.value.id in ("np", "numpy") and not node.keywords:
                if f.attr in _NP_BINOPS and len(node.args) == 2:
                    return ast.copy_location(ast.BinOp(left=node.args[0], op=_NP_BINOPS[f.attr](), right=node.args[1]), node)
                if f.attr == "negative" and len(node.args) == 1:
                    return ast.copy_location(ast.UnaryOp(op=ast.USub(), operand=node.args[0]), node)
            return node
    return ast.fix_missing_locations(N().visit(e))


# ------------------------------------------------------------------ small data structures written back as plain attributes
_MUTATORS = {"append", "extend", "insert", "pop", "remove", "sort", "reverse", "clear", "update", "setdefault", "popitem", "fill", "resize", "put"}


def _self_attr(e):
    return e.attr if isinstance(e, ast.Attribute) and isinstance(e.value, ast.Name) and e.value.id == "self" else None


def _is_ref(e):
    """an expression that denotes an existing object of the instance (aliasing it is exact): self.A"""
    return _self_attr(e) is not None


def _zip_parts(v):
    """[R1, R2, ...] when v is list(zip(R1, R2, ...)) / tuple(zip(...)) else None"""
    if isinstance(v, ast.Call) and isinstance(v.func, ast.Name) and v.func.id in ("list", "tuple") and len(v.args) == 1 and not v.keywords:
        z = v.args[0]
        if isinstance(z, ast.Call) and isinstance(z.func, ast.Name) and z.func.id == "zip" and z.args and not z.keywords:
            return list(z.args)
    return None


def normalise_structures(chk, rel):
    """In the classes of module `rel`, an attribute that is a small fixed data structure built in one place - a dict with literal
    keys, a tuple / list literal, a record `T(a=..., b=...)`, or list(zip(self.A, self.B)) - and only used through its fields (or, for
    structures that merely group existing attributes, used anywhere) is written back as the plain attributes / expressions it groups:
    `self._tab['shifts'][r, c]` -> `self._shifts[r, c]`, `for s, c in self._stencil` -> `for s, c in list(zip(self._shifts,
    self._coeffs))`, `a, b = (x, y)` -> `a = x; b = y`.  The rules then see the same def-use facts whatever the grouping.  Structures
    that are modified in place (pop, sort, append, element stores, augmented assignment) are left alone: the rules that meet them say so.
    Done in place on the check's private syntax tree, once."""
    from ..core import clone
    mod = chk.mod(rel)
    if mod.__dict__.get("_structures_unfolded"):
        return
    mod.__dict__["_structures_unfolded"] = True
    for cls in [n for n in mod.tree.body if isinstance(n, ast.ClassDef)]:
        try:
            changed = _inline_simple_properties(cls, clone)
        except Exception:          # noqa: BLE001 - a normalisation must never stop a check: the rules then see the code as written
            changed = True
        try:
            changed = _unfold_class(cls, clone) or changed
        except Exception:          # noqa: BLE001
            changed = True
        try:
            changed = _splice_starred_literals(cls) or changed
        except Exception:          # noqa: BLE001
            changed = True
        try:
            changed = _element_aliases(cls, clone) or changed
        except Exception:          # noqa: BLE001
            changed = True
        if changed:
            ast.fix_missing_locations(cls)
            for n in ast.walk(cls):
                for ch in ast.iter_child_nodes(n):
                    ch._parent = n


def _inline_simple_properties(cls, clone):
    """a read-only property whose body is side-effect free straight-line code - locals bound once to expressions, then one `return E` -
    is evaluated anew at every access: `self.X` is written back as E (locals written out).  Properties with a setter / deleter, with
    any other statement (lazy initialisation, conditionals), or whose name is also stored as a plain attribute are left alone."""
    props = {}
    for st in cls.body:
        if not isinstance(st, ast.FunctionDef):
            continue
        decs = [src(d) for d in st.decorator_list]
        if decs == ["property"] and [a.arg for a in st.args.args] == ["self"] and not st.args.vararg and not st.args.kwarg:
            props.setdefault(st.name, []).append(st)
        elif any(d.endswith((".setter", ".deleter", ".getter")) for d in decs):
            props.setdefault(st.name, []).append(None)
    simple = {}
    for name, defs in props.items():
        if len(defs) != 1 or defs[0] is None:
            continue
        body = [s_ for s_ in defs[0].body if not (isinstance(s_, ast.Expr) and isinstance(s_.value, ast.Constant))]
        if not body or not isinstance(body[-1], ast.Return) or body[-1].value is None:
            continue
        env, ok = {}, True
        for s_ in body[:-1]:
            if isinstance(s_, ast.Assign) and len(s_.targets) == 1 and isinstance(s_.targets[0], ast.Name) and s_.targets[0].id not in env:
                env[s_.targets[0].id] = _subst_names(clone(s_.value), env, clone)
            else:
                ok = False
                break
        if not ok:
            continue
        val = _subst_names(clone(body[-1].value), env, clone)
        # no call that could have an effect other than producing a value is excluded here: evaluating E at the access point is what the
        # property does; the expression must not read the property itself
        if any(_self_attr(x) == name for x in ast.walk(val)) or any(isinstance(x, (ast.Lambda, ast.NamedExpr, ast.Yield, ast.Await)) for x in ast.walk(val)):
            continue
        simple[name] = (defs[0], val)
    if not simple:
        return False
    # a name that is also stored as an instance attribute somewhere is not (only) the property
    for n in ast.walk(cls):
        if isinstance(n, ast.Attribute) and isinstance(n.ctx, (ast.Store, ast.Del)) and _self_attr(n) in simple:
            simple.pop(_self_attr(n))
    # properties that read other simple properties: written out in dependency order (a few rounds suffice)
    for _ in range(3):
        for name, (fn, val) in list(simple.items()):
            simple[name] = (fn, _PropSub(simple, clone, skip=name).visit(val))
    changed = False
    for st in cls.body:
        if isinstance(st, ast.FunctionDef) and not any(st is fn for fn, _ in simple.values()):
            before = sum(1 for x in ast.walk(st) if _self_attr(x) in simple and isinstance(x.ctx, ast.Load))
            if before:
                st.body = [_PropSub(simple, clone).visit(s_) for s_ in st.body]
                changed = True
    return changed


def _subst_names(e, env, clone):
    class S(ast.NodeTransformer):
        def visit_Name(self, n):
            if isinstance(n.ctx, ast.Load) and n.id in env:
                return ast.copy_location(clone(env[n.id]), n)
            return n
    return S().visit(e)


class _PropSub(ast.NodeTransformer):
    def __init__(self, simple, clone, skip=None):
        self.simple, self.clone, self.skip = simple, clone, skip

    def visit_Attribute(self, node):
        a = _self_attr(node)
        if a in self.simple and a != self.skip and isinstance(node.ctx, ast.Load):
            new = self.clone(self.simple[a][1])
            for x in ast.walk(new):
                ast.copy_location(x, node)
            return new
        self.generic_visit(node)
        return node


def _splice_starred_literals(cls):
    """`f(a, *(x, y), b)` / `f(*[x, y])` is `f(a, x, y, b)`: a starred tuple / list literal in a call is spliced into the arguments"""
    changed = False
    for n in ast.walk(cls):
        if isinstance(n, ast.Call) and any(isinstance(a, ast.Starred) and isinstance(a.value, (ast.Tuple, ast.List))
                                           and not any(isinstance(e, ast.Starred) for e in a.value.elts) for a in n.args):
            out = []
            for a in n.args:
                if isinstance(a, ast.Starred) and isinstance(a.value, (ast.Tuple, ast.List)) and not any(isinstance(e, ast.Starred) for e in a.value.elts):
                    out += list(a.value.elts)
                else:
                    out.append(a)
            n.args = out
            changed = True
    return changed


def _element_aliases(cls, clone):
    """`for j, x in zip(range(...), self.A): body` / `for j, x in enumerate(self.A): body`: inside the body x IS `self.A[j]` (as long as the
    body binds neither j nor x and does not rebind or resize self.A); the loads of x are written `self.A[j]`, the loop header stays as it
    is.  The rules then see the element through the container and the counter, as in `for j in range(n): ... self.A[j]`."""
    changed = False
    for lp in [n for n in ast.walk(cls) if isinstance(n, ast.For)]:
        it, tg = lp.iter, lp.target
        if not (isinstance(tg, ast.Tuple) and len(tg.elts) == 2 and all(isinstance(x, ast.Name) for x in tg.elts)):
            continue
        cnt, el = tg.elts[0].id, tg.elts[1].id
        seq = None
        if isinstance(it, ast.Call) and isinstance(it.func, ast.Name) and not it.keywords:
            if it.func.id == "enumerate" and len(it.args) == 1:
                seq = it.args[0]
            elif it.func.id == "zip" and len(it.args) == 2 and isinstance(it.args[0], ast.Call) and isinstance(it.args[0].func, ast.Name) \
                    and it.args[0].func.id == "range" and len(it.args[0].args) == 1 and not it.args[0].keywords:
                seq = it.args[1]
        if seq is None or _self_attr(seq) is None:
            continue
        a = _self_attr(seq)
        body_nodes = [n for st in lp.body for n in ast.walk(st)]
        if any(isinstance(n, ast.Name) and isinstance(n.ctx, (ast.Store, ast.Del)) and n.id in (cnt, el) for n in body_nodes):
            continue
        if any(isinstance(n, ast.Attribute) and isinstance(n.ctx, (ast.Store, ast.Del)) and _self_attr(n) == a for n in body_nodes):
            continue
        if any(isinstance(n, ast.Call) and isinstance(n.func, ast.Attribute) and n.func.attr in _MUTATORS and _self_attr(n.func.value) == a for n in body_nodes):
            continue
        if not any(isinstance(n, ast.Name) and n.id == el and isinstance(n.ctx, ast.Load) for n in body_nodes):
            continue

        class A(ast.NodeTransformer):
            def visit_Name(self, n):
                if n.id == el and isinstance(n.ctx, ast.Load):
                    return ast.copy_location(ast.Subscript(value=clone(seq), slice=ast.Name(id=cnt, ctx=ast.Load()), ctx=ast.Load()), n)
                return n
        lp.body = [A().visit(st) for st in lp.body]
        changed = True
    return changed


def _unfold_class(cls, clone):
    methods = [st for st in cls.body if isinstance(st, ast.FunctionDef)]
    plain, spoiled, loads = {}, set(), {}
    used_names = set()
    for m in methods:
        for n in ast.walk(m):
            a = _self_attr(n)
            if a is not None:
                used_names.add(a)
            if isinstance(n, ast.Assign):
                for t in n.targets:
                    for x in ([t] if not isinstance(t, (ast.Tuple, ast.List)) else list(t.elts)):
                        if _self_attr(x) is not None:
                            if len(n.targets) == 1 and x is t:
                                plain.setdefault(_self_attr(x), []).append((m, n))
                            else:
                                spoiled.add(_self_attr(x))
                        elif isinstance(x, ast.Subscript) and _self_attr(x.value) is not None:
                            spoiled.add(_self_attr(x.value))          # element store into the structure itself
            elif isinstance(n, (ast.AugAssign, ast.AnnAssign)):
                t = n.target
                if _self_attr(t) is not None:
                    spoiled.add(_self_attr(t))
                elif isinstance(t, ast.Subscript) and _self_attr(t.value) is not None:
                    spoiled.add(_self_attr(t.value))
            elif isinstance(n, (ast.For, ast.With, ast.Delete)):
                tg = [n.target] if isinstance(n, ast.For) else ([i.optional_vars for i in n.items if i.optional_vars is not None] if isinstance(n, ast.With) else n.targets)
                for t in tg:
                    for x in ast.walk(t):
                        if _self_attr(x) is not None:
                            spoiled.add(_self_attr(x))
            elif isinstance(n, ast.Call) and isinstance(n.func, ast.Attribute) and n.func.attr in _MUTATORS and _self_attr(n.func.value) is not None:
                spoiled.add(_self_attr(n.func.value))
    # contexts of the loads
    for m in methods:
        for n in ast.walk(m):
            for ch in ast.iter_child_nodes(n):
                a = _self_attr(ch)
                if a is not None and isinstance(ch.ctx, ast.Load):
                    kind = "other"
                    if isinstance(n, ast.Subscript) and n.value is ch and isinstance(n.slice, ast.Constant):
                        kind = ("key", n.slice.value)
                    elif isinstance(n, ast.Attribute) and n.value is ch:
                        kind = ("field", n.attr)
                    loads.setdefault(a, []).append((kind, n, ch))
    subst, promote = {}, {}

    def stable_refs(v, m_, st_, snapshot):
        """the attributes grouped by `v` are bound once, before the structure is built when that happens in the same method; for a
        structure that copies element VALUES (zip) they are also never modified in place"""
        for x in ast.walk(v):
            a = _self_attr(x)
            if a is None:
                continue
            d = plain.get(a, [])
            if len(d) != 1 or (snapshot and a in spoiled):
                return False
            if d[0][0] is m_ and (d[0][1].lineno, d[0][1].col_offset) >= (st_.lineno, st_.col_offset):
                return False
        return True
    for X, defs in plain.items():
        if X in spoiled or len(defs) != 1 or not loads.get(X):
            continue
        v = defs[0][1].value
        if not stable_refs(v, defs[0][0], defs[0][1], _zip_parts(v) is not None):
            continue
        kinds = [k for k, _, _ in loads[X]]
        if isinstance(v, ast.Dict) and v.keys and all(isinstance(k, ast.Constant) and isinstance(k.value, (str, int)) for k in v.keys):
            table = {k.value: val for k, val in zip(v.keys, v.values)}
            if all(isinstance(k, tuple) and k[0] == "key" and k[1] in table for k in kinds):
                promote[X] = ("key", table, defs[0])
        elif isinstance(v, (ast.Tuple, ast.List)) and v.elts and not any(isinstance(e, ast.Starred) for e in v.elts):
            if all(_is_ref(e) for e in v.elts):
                subst[X] = v
            elif all(isinstance(k, tuple) and k[0] == "key" and isinstance(k[1], int) and -len(v.elts) <= k[1] < len(v.elts) for k in kinds):
                promote[X] = ("key", {i: e for i, e in enumerate(v.elts)} | {i - len(v.elts): e for i, e in enumerate(v.elts)}, defs[0])
        elif _zip_parts(v) is not None and all(_is_ref(e) for e in _zip_parts(v)):
            subst[X] = v
        elif isinstance(v, ast.Call) and isinstance(v.func, (ast.Name, ast.Attribute)) and not v.args and v.keywords and all(k.arg for k in v.keywords) \
                and (src(v.func).split(".")[-1][:1].isupper()):
            table = {k.arg: k.value for k in v.keywords}
            if all(isinstance(k, tuple) and k[0] == "field" and k[1] in table for k in kinds):
                promote[X] = ("field", table, defs[0])
    if not subst and not promote:
        return _split_tuple_assigns(methods)
    # names of the promoted fields
    field_name = {}
    for X, (how, table, (m, st)) in promote.items():
        for key, val in table.items():
            if _is_ref(val):
                continue
            if isinstance(key, int) and key < 0:
                continue
            base = str(key).lstrip("_")
            nm = "_" + base if isinstance(key, str) and base.isidentifier() and ("_" + base) not in used_names else f"_{X.lstrip('_')}_{key}"
            field_name[(X, key)] = nm
            used_names.add(nm)
        if how == "key" and any(isinstance(k, int) for k in table):
            n_ = len([k for k in table if isinstance(k, int) and k >= 0])
            for key in [k for k in table if isinstance(k, int) and k < 0]:
                if (X, key + n_) in field_name:
                    field_name[(X, key)] = field_name[(X, key + n_)]

    def replacement(X, key):
        how, table, _ = promote[X]
        val = table[key]
        if _is_ref(val):
            return clone(val)
        return ast.Attribute(value=ast.Name(id="self", ctx=ast.Load()), attr=field_name[(X, key)], ctx=ast.Load())

    class T(ast.NodeTransformer):
        def visit_Subscript(self, node):
            a = _self_attr(node.value)
            if a in promote and promote[a][0] == "key" and isinstance(node.slice, ast.Constant):
                new = replacement(a, node.slice.value)
                new.ctx = node.ctx if isinstance(new, ast.Attribute) else ast.Load()
                return ast.copy_location(new, node)
            self.generic_visit(node)
            return _fold(node)

        def visit_Attribute(self, node):
            a = _self_attr(node.value) if isinstance(node.value, ast.Attribute) else None
            if a in promote and promote[a][0] == "field":
                new = replacement(a, node.attr)
                new.ctx = node.ctx if isinstance(new, ast.Attribute) else ast.Load()
                return ast.copy_location(new, node)
            a = _self_attr(node)
            if a in subst and isinstance(node.ctx, ast.Load):
                return ast.copy_location(clone(subst[a]), node)
            self.generic_visit(node)
            return node

        def visit_Call(self, node):
            self.generic_visit(node)
            return _fold(node)
    for m in methods:
        for blk_owner in list(ast.walk(m)):
            for fld in ("body", "orelse", "finalbody"):
                blk = getattr(blk_owner, fld, None)
                if not (isinstance(blk, list) and blk and isinstance(blk[0], ast.stmt)):
                    continue
                out = []
                for st in blk:
                    hit = next((X for X, (_, _, (m_, st_)) in promote.items() if st_ is st), None)
                    if hit is not None:
                        how, table, _ = promote[hit]
                        for key, val in table.items():
                            if (hit, key) in field_name and not (isinstance(key, int) and key < 0):
                                tgt = ast.Attribute(value=ast.Name(id="self", ctx=ast.Load()), attr=field_name[(hit, key)], ctx=ast.Store())
                                out.append(ast.copy_location(ast.Assign(targets=[tgt], value=T().visit(val)), st))
                        continue
                    if any(st is st_ for X, v in subst.items() for (_, st_) in plain[X]):
                        out.append(st)         # the grouping attribute itself stays (it is no longer read by the methods)
                        continue
                    out.append(st)
                setattr(blk_owner, fld, out)
        for st in list(ast.walk(m)):
            if isinstance(st, ast.stmt) and not any(st is st_ for X in subst for (_, st_) in plain[X]):
                for fld, val in list(ast.iter_fields(st)):
                    if isinstance(val, ast.expr):
                        setattr(st, fld, T().visit(val))
                    elif isinstance(val, list) and val and isinstance(val[0], ast.expr):
                        setattr(st, fld, [T().visit(x) for x in val])
                    elif isinstance(val, list) and val and isinstance(val[0], (ast.keyword, ast.withitem)):
                        for x in val:
                            T().visit(x)
    _split_tuple_assigns(methods)
    return True


def _fold(node):
    """field of a literal structure / element and length of list(zip(...))"""
    if isinstance(node, ast.Subscript) and isinstance(node.slice, ast.Constant):
        v = node.value
        if isinstance(v, ast.Dict):
            for k, val in zip(v.keys, v.values):
                if isinstance(k, ast.Constant) and k.value == node.slice.value:
                    return ast.copy_location(val, node)
        if isinstance(v, (ast.Tuple, ast.List)) and isinstance(node.slice.value, int) and -len(v.elts) <= node.slice.value < len(v.elts):
            return ast.copy_location(v.elts[node.slice.value], node)
    if isinstance(node, ast.Subscript) and not isinstance(node.slice, (ast.Slice, ast.Tuple)) and _zip_parts(node.value) is not None:
        return ast.copy_location(ast.Tuple(elts=[ast.Subscript(value=p_, slice=node.slice, ctx=ast.Load()) for p_ in _zip_parts(node.value)], ctx=ast.Load()), node)
    if isinstance(node, ast.Call) and isinstance(node.func, ast.Name) and node.func.id == "len" and len(node.args) == 1 and _zip_parts(node.args[0]) is not None:
        return ast.copy_location(ast.Call(func=node.func, args=[_zip_parts(node.args[0])[0]], keywords=[]), node)
    return node


def _split_tuple_assigns(methods):
    """`a, b = (x, y)` with plain names on the left -> `a = x; b = y` when no right-hand side reads a name bound on the left"""
    changed = False
    for m in methods:
        for blk_owner in list(ast.walk(m)):
            for fld in ("body", "orelse", "finalbody"):
                blk = getattr(blk_owner, fld, None)
                if not (isinstance(blk, list) and blk and isinstance(blk[0], ast.stmt)):
                    continue
                out = []
                for st in blk:
                    t = st.targets[0] if isinstance(st, ast.Assign) and len(st.targets) == 1 else None
                    if isinstance(t, (ast.Tuple, ast.List)) and isinstance(st.value, (ast.Tuple, ast.List)) and len(t.elts) == len(st.value.elts) \
                            and all(isinstance(x, ast.Name) for x in t.elts) and not any(isinstance(x, ast.Starred) for x in st.value.elts):
                        names = {x.id for x in t.elts}
                        if not any(isinstance(y, ast.Name) and y.id in names for v in st.value.elts for y in ast.walk(v)):
                            for x, v in zip(t.elts, st.value.elts):
                                out.append(ast.copy_location(ast.Assign(targets=[x], value=v), st))
                            changed = True
                            continue
                    out.append(st)
                setattr(blk_owner, fld, out)
    return changed


# ------------------------------------------------------------------ structured form of early exits
def _own_continue(stmts):
    """does a `continue` of the enclosing loop occur in these statements (nested loops keep theirs)?"""
    stack = list(stmts)
    while stack:
        n = stack.pop()
        if isinstance(n, ast.Continue):
            return True
        if isinstance(n, (ast.For, ast.While, ast.FunctionDef, ast.ClassDef, ast.Lambda)):
            continue
        stack.extend(ch for ch in ast.iter_child_nodes(n) if isinstance(ch, (ast.stmt, ast.excepthandler)))
    return False


def _absorb_continue(stmts):
    """loop body without `continue`: `if c: A; continue` followed by R is `if c: A else: R` (the statements after a
    conditional that may continue are moved into the arms that fall through); None when an exit sits where it cannot be
    absorbed (inside with/try)"""
    from ..core import clone
    out = []
    for k, st in enumerate(stmts):
        if isinstance(st, ast.Continue):
            return out
        if isinstance(st, ast.If) and _own_continue([st]):
            rest = list(stmts[k + 1:])
            body = _absorb_continue(list(st.body) + rest)
            orelse = _absorb_continue(list(st.orelse) + clone(rest))
            if body is None or orelse is None:
                return None
            new = ast.If(test=st.test, body=body or [ast.copy_location(ast.Pass(), st)], orelse=orelse)
            out.append(ast.copy_location(new, st))
            return out
        if _own_continue([st]):
            return None
        out.append(st)
    return out


def structured(fn):
    """private copy of `fn` in which the bodies of loops contain no `continue` (same behaviour, if/else form); the function itself
    when it has none.  Returns (function, reason why some loop was left as it is or None)"""
    from ..core import clone
    if not any(isinstance(n, ast.Continue) for n in ast.walk(fn)):
        return fn, None
    par = parent(fn)
    new = clone(fn)
    why = None
    loops = [n for n in ast.walk(new) if isinstance(n, (ast.For, ast.While))]
    for lp in reversed(loops):       # inner loops first
        if _own_continue(lp.body):
            b = _absorb_continue(lp.body)
            if b is None:
                why = f"`continue` inside a with/try block of the loop at line {lp.lineno}"
            else:
                lp.body = b or [ast.copy_location(ast.Pass(), lp)]
    ast.fix_missing_locations(new)
    for n in ast.walk(new):
        for ch in ast.iter_child_nodes(n):
            ch._parent = n
    new._parent = par
    if hasattr(fn, "_qual"):
        new._qual = fn._qual
    return new, why


def exec_order(fn, a, b):
    """order in which two nodes of `fn` are executed, decided from the STRUCTURE of the tree (statement lists), never from line numbers:
    statements written back in place by the normaliser all carry the position of the call they replace.
    -> (verdict, stmt_a, stmt_b): verdict True = a is executed before b in every pass through the statement list that holds both, False =
    after, None = not decided by the structure (different arms of a branch, the same statement, a node not found); stmt_a / stmt_b are the
    elements of the common statement list that contain a / b (stmt_a is a itself when a is an unconditional statement of that list)."""
    def path(target):
        out = []

        def rec(node):
            if node is target:
                return True
            for field, value in ast.iter_fields(node):
                items = value if isinstance(value, list) else [value]
                for k, ch in enumerate(items):
                    if isinstance(ch, ast.AST):
                        out.append((node, field, k, ch, isinstance(value, list)))
                        if rec(ch):
                            return True
                        out.pop()
            return False
        return out if rec(fn) else None
    pa, pb = path(a), path(b)
    if pa is None or pb is None:
        return None, None, None
    for (na, fa, ka, ca, la), (nb, fb, kb, cb, lb) in zip(pa, pb):
        if ca is cb:
            continue
        if na is nb and fa == fb and la and isinstance(ca, ast.stmt) and isinstance(cb, ast.stmt):
            return ka < kb, ca, cb
        return None, None, None
    return None, None, None


def class_chain(chk, rel, cls):
    """the class and its base classes defined in the same module, most derived first"""
    mod = chk.mod(rel)
    out, seen = [], set()
    todo = [cls]
    while todo:
        c = todo.pop(0)
        if c in seen or not mod.has(c):
            continue
        seen.add(c)
        node = mod.cls(c)
        out.append(node)
        todo += [b.id for b in node.bases if isinstance(b, ast.Name)]
    return out


def method_table(chk, rel, cls):
    """{method name: (defining class name, FunctionDef)} as seen from an instance of `cls` (overrides win)"""
    out = {}
    for node in class_chain(chk, rel, cls):
        for st in node.body:
            if isinstance(st, ast.FunctionDef):
                out.setdefault(st.name, (node.name, st))
    return out


def resolve_method(chk, rel, cls, name):
    """(qualified name of the definition, FunctionDef) of `cls.name`, inherited definitions included"""
    t = method_table(chk, rel, cls)
    if name not in t:
        raise AnalysisError(f"anchor vanished: {rel}:{cls}.{name} (not defined in the class nor in a base class of the module)")
    owner, fn = t[name]
    chk.functions.add(f"{rel}:{owner}.{name}")
    chk.units.add(rel)
    return f"{owner}.{name}", fn


# ------------------------------------------------------------------ a method as its callers run it
def _const_value(e):
    """(True, python value) of a literal None / bool / number / string expression after folding, else (False, None)"""
    if isinstance(e, ast.Constant):
        return True, e.value
    return False, None


def _fold_tests(node):
    """constant folding of boolean tests over literals: not c, c is (not) None, c == d, and / or with literal operands"""
    class F(ast.NodeTransformer):
        def visit_UnaryOp(self, n):
            self.generic_visit(n)
            ok, v = _const_value(n.operand)
            if isinstance(n.op, ast.Not) and ok:
                return ast.copy_location(ast.Constant(value=not v), n)
            return n

        def visit_Compare(self, n):
            self.generic_visit(n)
            if len(n.ops) == 1:
                (ok1, a), (ok2, b) = _const_value(n.left), _const_value(n.comparators[0])
                if ok1 and ok2:
                    op = n.ops[0]
                    res = {ast.Is: a is b, ast.IsNot: a is not b, ast.Eq: a == b, ast.NotEq: a != b}.get(type(op))
                    if res is not None and (isinstance(op, (ast.Eq, ast.NotEq)) or a is None or b is None or isinstance(a, bool) or isinstance(b, bool)):
                        return ast.copy_location(ast.Constant(value=bool(res)), n)
            return n

        def visit_BoolOp(self, n):
            self.generic_visit(n)
            vals = []
            for v in n.values:
                ok, c = _const_value(v)
                if ok and isinstance(n.op, ast.And):
                    if not c:
                        return ast.copy_location(ast.Constant(value=False), n)
                    continue
                if ok and isinstance(n.op, ast.Or):
                    if c:
                        return ast.copy_location(ast.Constant(value=True), n)
                    continue
                vals.append(v)
            if not vals:
                return ast.copy_location(ast.Constant(value=isinstance(n.op, ast.And)), n)
            return vals[0] if len(vals) == 1 else ast.copy_location(ast.BoolOp(op=n.op, values=vals), n)

        def visit_IfExp(self, n):
            self.generic_visit(n)
            ok, c = _const_value(n.test)
            return (n.body if c else n.orelse) if ok else n
    return F().visit(node)


def specialise(fn, actuals, name=None, params=None):
    """private copy of `fn` as it runs when the parameters in `actuals` ({name: expression}) have these values: the names are
    replaced, tests over literals folded and the arms that cannot run dropped.  `params` (ast.arguments) replaces the signature."""
    from ..core import clone
    new = clone(fn)
    rebound = {n.id for n in ast.walk(new) if isinstance(n, ast.Name) and isinstance(n.ctx, ast.Store)}
    actuals = {k: v for k, v in actuals.items() if k not in rebound}

    class S(ast.NodeTransformer):
        def visit_Name(self, n):
            if isinstance(n.ctx, ast.Load) and n.id in actuals:
                return ast.copy_location(clone(actuals[n.id]), n)
            return n
    new.body = [S().visit(st) for st in new.body]
    new.body = [_fold_tests(st) for st in new.body]

    def prune(stmts):
        out = []
        for st in stmts:
            if isinstance(st, ast.If):
                ok, c = _const_value(st.test)
                if ok:
                    out += prune(st.body if c else st.orelse)
                    continue
            for fld in ("body", "orelse", "finalbody"):
                blk = getattr(st, fld, None)
                if isinstance(blk, list) and blk and isinstance(blk[0], ast.stmt):
                    pr = prune(blk)
                    setattr(st, fld, pr or ([ast.copy_location(ast.Pass(), st)] if fld == "body" else []))
            out.append(st)
        return out
    new.body = prune(new.body) or [ast.copy_location(ast.Pass(), new)]
    if params is not None:
        new.args = clone(params)
    else:
        keep = [a for a in new.args.args if a.arg not in actuals]
        nd = len(new.args.defaults)
        dflt = dict(zip([a.arg for a in new.args.args][len(new.args.args) - nd:], new.args.defaults)) if nd else {}
        new.args.args = keep
        new.args.defaults = [dflt[a.arg] for a in keep if a.arg in dflt]
    if name:
        new.name = name
    ast.fix_missing_locations(new)
    for n in ast.walk(new):
        for ch in ast.iter_child_nodes(n):
            ch._parent = n
    new._parent = parent(fn)
    if hasattr(fn, "_qual"):
        new._qual = fn._qual if not name else ".".join(fn._qual.split(".")[:-1] + [name])
    return new


def entry_function(chk, rel, cls, m, receivers=()):
    """the method `cls.m` as the program runs it (private copy, or the definition itself when nothing applies):
    - a method whose whole body hands its arguments to a sibling (`return self.other(a, None, flag=True)`) is that sibling with the
      parameters bound (merged code paths: X and X_keep merged into X(..., keep=False));
    - optional parameters that no call in the driver passes have their default value."""
    fn = chk.func(rel, f"{cls}.{m}")
    table = method_table(chk, rel, cls)
    for _ in range(3):
        body = [st for st in fn.body if not (isinstance(st, ast.Expr) and isinstance(st.value, ast.Constant)) and not isinstance(st, ast.Pass)]
        call = body[0].value if len(body) == 1 and isinstance(body[0], (ast.Expr, ast.Return)) and isinstance(body[0].value, ast.Call) else None
        if call is None or not (isinstance(call.func, ast.Attribute) and isinstance(call.func.value, ast.Name) and call.func.value.id == "self"
                                and call.func.attr in table and table[call.func.attr][1] is not fn and call.func.attr != m):
            break
        callee = table[call.func.attr][1]
        formals = [a.arg for a in callee.args.args if a.arg != "self"]
        b = agree.bind_call(call, formals)
        if b is None:
            break
        nd = len(callee.args.defaults)
        for a_, d_ in zip(callee.args.args[len(callee.args.args) - nd:], callee.args.defaults):
            b.setdefault(a_.arg, d_)
        if set(b) != set(formals):
            break
        own = {a.arg for a in fn.args.args}
        if not all(isinstance(v, ast.Constant) or (isinstance(v, ast.Name) and v.id in own) for v in b.values()):
            break
        chk.functions.add(f"{rel}:{cls}.{call.func.attr}")
        fn = specialise(callee, {k: v for k, v in b.items() if not (isinstance(v, ast.Name) and v.id == k)}, name=m, params=fn.args)
    # defaults of the optional parameters the driver never passes
    nd = len(fn.args.defaults)
    if nd and receivers:
        opt = dict(zip([a.arg for a in fn.args.args][len(fn.args.args) - nd:], fn.args.defaults))
        formals = [a.arg for a in fn.args.args if a.arg != "self"]
        try:
            drv = chk.func(U.DRIVER, "main")
        except AnalysisError:
            drv = None
        calls = [c for c in ast.walk(drv) if isinstance(c, ast.Call) and isinstance(c.func, ast.Attribute) and c.func.attr == m
                 and isinstance(c.func.value, ast.Name) and c.func.value.id in receivers] if drv is not None else []
        binds = [agree.bind_call(c, formals) for c in calls]
        if calls and all(b is not None for b in binds):
            unused = {k: v for k, v in opt.items() if isinstance(v, ast.Constant) and not any(k in b for b in binds)}
            if unused:
                fn = specialise(fn, unused)
    return fn


# ------------------------------------------------------------------ engine E rules with their assumptions checked
def roles(chk, rel, func, call, formals, table, const_recv=None, callee=None):
    """agree.check_roles, called only when what its verdicts assume is established:
    * E2-arity VIOLATED ("argument list does not fit the signature") is a TypeError of the call only when every actual is written out:
      an argument handed over by `*seq` / `**map` expansion that is not a literal (spliced before) has an unknown number of elements,
      and a callee with *args / **kwargs accepts any number -> UNDECIDED;
    * E2-argument-role VIOLATED ("actual of role X binds parameter Y") identifies a parameter's role with its NAME: it is decided only
      for roles whose name is a parameter of the callee (then the actual demonstrably sits in another parameter's position); a role
      name the signature no longer has (parameter renamed) is UNDECIDED."""
    name = src(call.func)
    if any(isinstance(a, ast.Starred) for a in call.args) or any(k.arg is None for k in call.keywords):
        chk.ob("E2-argument-role", call, f"{name}(...)", None,
               "arguments are handed over by * / ** expansion of a value that is not a literal: which parameter each of them binds is not followed",
               file=rel, func=func)
        return None
    if callee is not None and (callee.args.vararg is not None or callee.args.kwarg is not None):
        chk.ob("E2-argument-role", call, f"{name}(...)", None, "the callee takes *args / **kwargs: binding of the actuals not followed", file=rel, func=func)
        return None
    table2 = {}
    actuals = [src(a) for a in call.args] + [src(k.value) for k in call.keywords]
    for s_, want in table.items():
        if want in formals:
            table2[s_] = want
        elif s_ in actuals:
            chk.ob("E2-argument-role", call, f"{name}: role `{want}` <- {s_}", None,
                   f"the callee has no parameter named `{want}` any more (parameters {formals}): roles are identified by parameter names, "
                   "so the position of this actual cannot be judged", file=rel, func=func)
    if const_recv:
        for s_ in actuals:
            if s_.startswith(const_recv + "."):
                x = s_[len(const_recv) + 1:]
                match = [f_ for f_ in formals if f_.lower() == x.lower()]
                if match:
                    table2[s_] = match[0]
                else:
                    chk.ob("E2-argument-role", call, f"{name}: constant `{x}` <- {s_}", None,
                           f"the callee has no parameter named like the constant `{x}`: its position cannot be judged by name", file=rel, func=func)
    return agree.check_roles(chk, rel, func, call, formals, table2, None)


# ------------------------------------------------------------------ E2-result-in-place (shared by the 1-D / 2-D advection steps)
# numpy forms whose result is ALWAYS new storage (a `copy=` keyword makes the form "not modelled")
_RIP_ALWAYS = {"copy": "always a copy", "array": "numpy.array copies by default", "astype": "astype copies by default",
               "flatten": "always a copy"}
# forms whose result is the argument itself for some inputs and new storage for the others
_RIP_SOMETIMES = {
    "ascontiguousarray": "the argument itself only when it already is a C-contiguous array of the requested dtype, a copy for every "
                         "other memory layout (transposed or strided view, slice of a block stored in another dimension order, "
                         "Fortran order) or dtype",
    "asfortranarray": "the argument itself only when it already is Fortran-contiguous (of the requested dtype), a copy otherwise",
    "require": "the argument itself only when it already satisfies the requirements, a copy otherwise",
}
_RIP_IDENTITY_IF_BARE = ("asarray", "asanyarray")


def _rip_copy_kind(v, root):
    """how the value expression `v` relates to the array named `root`: ("same", None) the array itself; ("always", why) new storage
    whatever root is; ("sometimes", why) root itself for some memory layouts / dtypes, a copy for the others; (None, None) not one of
    the modelled forms (a view, an unrelated value, ...)"""
    if isinstance(v, ast.Name):
        return ("same", None) if v.id == root else (None, None)
    if isinstance(v, ast.BinOp):
        if any(isinstance(x, ast.Name) and x.id == root for x in (v.left, v.right)):
            return "always", "an arithmetic expression creates a new array"
        return None, None
    if not isinstance(v, ast.Call):
        return None, None
    fname = v.func.attr if isinstance(v.func, ast.Attribute) else v.func.id if isinstance(v.func, ast.Name) else None
    if fname is None or any(isinstance(a, ast.Starred) for a in v.args) or any(k.arg is None for k in v.keywords):
        return None, None
    recv_is_root = isinstance(v.func, ast.Attribute) and isinstance(v.func.value, ast.Name) and v.func.value.id == root
    arg_is_root = bool(v.args) and isinstance(v.args[0], ast.Name) and v.args[0].id == root and \
        (isinstance(v.func, ast.Name) or (isinstance(v.func, ast.Attribute) and src(v.func.value) in ("np", "numpy")))
    if not (recv_is_root or arg_is_root):
        return None, None
    kws = {k.arg: k.value for k in v.keywords}
    if "copy" in kws:                 # copy=False / copy=None: "only if needed" -> not decided here
        return None, None
    extra = len(v.args) - (1 if arg_is_root else 0) + len(kws)
    if fname in _RIP_IDENTITY_IF_BARE and arg_is_root:
        if extra == 0:
            return "same", None
        return "sometimes", (f"numpy.{fname} with a dtype / order returns the argument itself only when it already has them, a "
                             "converted copy otherwise")
    if fname in _RIP_ALWAYS and (recv_is_root or fname in ("array", "copy")):
        return "always", _RIP_ALWAYS[fname]
    if fname in _RIP_SOMETIMES and arg_is_root:
        return "sometimes", _RIP_SOMETIMES[fname]
    return None, None


def _rip_stores_of(fn, name):
    """statements of `fn` that (re)bind the local name `name` -> [(statement, value node or None when the form is not a plain binding)]"""
    out = []
    has = lambda t: any(isinstance(x, ast.Name) and x.id == name for x in ast.walk(t))
    for st in ast.walk(fn):
        if isinstance(st, ast.Assign):
            for t in st.targets:
                if isinstance(t, ast.Name) and t.id == name:
                    out.append((st, st.value))
                elif isinstance(t, (ast.Tuple, ast.List, ast.Starred)) and has(t):
                    out.append((st, None))
        elif isinstance(st, (ast.AugAssign, ast.AnnAssign)) and isinstance(st.target, ast.Name) and st.target.id == name:
            if isinstance(st, ast.AugAssign) or st.value is not None:
                out.append((st, st.value if isinstance(st, ast.AnnAssign) else None))
        elif isinstance(st, ast.NamedExpr) and st.target.id == name:
            out.append((st, None))
        elif isinstance(st, (ast.For, ast.comprehension)) and has(st.target):
            out.append((st, None))
        elif isinstance(st, ast.With) and any(i.optional_vars is not None and has(i.optional_vars) for i in st.items):
            out.append((st, None))
        elif isinstance(st, (ast.FunctionDef, ast.Lambda, ast.ClassDef)) and st is not fn and \
                (getattr(st, "name", None) == name or (not isinstance(st, ast.ClassDef) and any(
                    a.arg == name for a in st.args.args + st.args.kwonlyargs + st.args.posonlyargs))):
            out.append((st, None))
        elif isinstance(st, (ast.Global, ast.Nonlocal)) and name in st.names:
            out.append((st, None))
        elif isinstance(st, (ast.Import, ast.ImportFrom)) and any((a.asname or a.name) == name for a in st.names):
            out.append((st, None))
        elif isinstance(st, ast.ExceptHandler) and st.name == name:
            out.append((st, None))
        elif isinstance(st, ast.Delete) and any(has(t) for t in st.targets):
            out.append((st, None))
    return out


def _rip_writes_back(fn, after_line, into, values_of):
    """a statement after line `after_line` that may copy the array named `values_of` into storage reached through one of the names
    `into` (`X[...] = <anything mentioning v>`, `np.copyto(X, v)`, any call that receives both)"""
    for st in ast.walk(fn):
        if getattr(st, "lineno", 0) <= after_line:
            continue
        if isinstance(st, (ast.Assign, ast.AugAssign)):
            tg = st.targets if isinstance(st, ast.Assign) else [st.target]
            for t in tg:
                if isinstance(t, ast.Subscript) and any(isinstance(x, ast.Name) and x.id in into for x in ast.walk(t.value)) \
                        and any(isinstance(x, ast.Name) and x.id == values_of for x in ast.walk(st.value)):
                    return st
        if isinstance(st, ast.Call):
            names = {x.id for a in list(st.args) + [k.value for k in st.keywords] for x in ast.walk(a) if isinstance(x, ast.Name)}
            if isinstance(st.func, ast.Attribute):
                names |= {x.id for x in ast.walk(st.func.value) if isinstance(x, ast.Name)}
            if names & set(into) and (values_of in names or src(st.func).split(".")[-1] in ("copyto", "put", "place", "putmask")):
                return st
    return None


def result_in_place(chk, cls, fn, sites, rel, owner, formal="f"):
    """E2-result-in-place: `step(f, ...)` documents "the result will be stored here" and the grid-level steps rely on it (they hand a
    view of the distribution's block to step() and drop the reference).  The array bound to the kernel's output parameter must therefore
    be the very array object the caller passed - or, if step() works on another array, its content must be copied back into the caller's
    array after the kernel call.  `sites` = [(kernel name, call node, actual bound to the kernel's output parameter)].
    VIOLATED only when ALL of this is established: (1) the actual of the kernel's output parameter is a local name of step(); (2) every
    binding of that name is found (each one a plain assignment; tuple / loop / with / walrus / augmented / nested-scope bindings are
    UNDECIDED); (3) a binding whose value is one of the modelled numpy forms that return new storage for every array (`copy`, `array`,
    `astype`, arithmetic) or for some memory layouts / dtypes (`ascontiguousarray`, `asarray(.., dtype)`, `require`) of the caller's
    array stands unconditionally at the top level of step() before the kernel call; (4) no statement after the kernel call stores into
    (or hands to a call together with the copy) the caller's array; (5) the kernel call is the last use of the copy and step() returns
    no value.  Anything else that rebinds the name is UNDECIDED."""
    where = dict(file=rel, func=f"{owner}.{fn.name}")
    params = [a.arg for a in fn.args.args][1:]
    site_calls = {id(x) for _k, cc, _a in sites for x in ast.walk(cc)}
    for kname, c0, a in sites:
        if a is None:
            continue
        if isinstance(a, ast.Subscript) and isinstance(a.value, ast.Name) and all(
                isinstance(x, (ast.Slice, ast.Constant)) or (isinstance(x, ast.UnaryOp) and isinstance(x.operand, ast.Constant))
                for x in (a.slice.elts if isinstance(a.slice, ast.Tuple) else [a.slice])):
            a = a.value                      # basic indexing: a view of the named array
        what = f"{kname}: {formal} <- {src(a)} is the caller's array"
        if not isinstance(a, ast.Name):
            chk.ob("E2-result-in-place", c0, what, None,
                   f"the output parameter `{formal}` receives the expression `{src(a)}`: whether the kernel writes into the storage of "
                   "the array handed to step() is not decided", **where)
            continue
        nm = a.id
        stores = _rip_stores_of(fn, nm)
        if nm in params and not stores:
            chk.ob("E2-result-in-place", c0, what, True,
                   f"`{nm}` is the parameter of {fn.name}(), never rebound in it: the kernel writes into the caller's array", **where)
            continue
        und = None
        top = {id(st) for st in fn.body}
        origin = nm if nm in params else None
        copies = []
        for st, v in stores:
            if v is None or not isinstance(st, ast.Assign) or len(st.targets) != 1:
                und = f"`{src(st)[:60]}` binds `{nm}` in a way that is not followed"
                break
            kind, kw = None, None
            for p in ([nm] if nm in params else params):
                kind, kw = _rip_copy_kind(v, p)
                if kind is not None:
                    if nm not in params:
                        if origin not in (None, p):
                            kind = None
                        origin = p
                    break
            if kind is None:
                und = (f"`{src(st)[:70]}` binds `{nm}` to a value whose relation to the array handed to {fn.name}() is not one of the "
                       "modelled forms (a view? another array?)")
                break
            if kind == "same":
                continue
            if id(st) not in top or st.lineno >= c0.lineno:
                und = (f"`{src(st)[:70]}` may rebind `{nm}` to a copy, but not unconditionally before the kernel call: which inputs reach "
                       "it is not decided")
                break
            copies.append((st, kind, kw))
        if und is not None:
            chk.ob("E2-result-in-place", c0, what, None, und, **where)
            continue
        if not copies:
            if origin is not None:
                chk.ob("E2-result-in-place", c0, what, True,
                       f"every binding of `{nm}` in {fn.name}() denotes the array handed in by the caller itself", **where)
            else:
                chk.ob("E2-result-in-place", c0, what, None, f"what `{nm}` denotes is not decided", **where)
            continue
        st, kind, kw = copies[0]
        # names through which the caller's array is still reachable after the rebinding: the parameter itself when the copy has a name
        # of its own, and every name that an earlier plain assignment binds to the parameter
        into = set() if nm in params else {origin}
        for x in ast.walk(fn):
            if isinstance(x, ast.Assign) and isinstance(x.value, ast.Name) and x.value.id == origin and x.lineno < st.lineno:
                into |= {t.id for t in x.targets if isinstance(t, ast.Name)}
        back = _rip_writes_back(fn, getattr(c0, "end_lineno", c0.lineno), into, nm) if into else None
        later_use = [x for x in ast.walk(fn) if isinstance(x, ast.Name) and x.id == nm and isinstance(x.ctx, ast.Load)
                     and x.lineno > getattr(c0, "end_lineno", c0.lineno) and id(x) not in site_calls]
        returned = any(isinstance(x, (ast.Return, ast.Yield, ast.YieldFrom)) and x.value is not None for x in ast.walk(fn))
        if back is not None:
            chk.ob("E2-result-in-place", c0, what, None,
                   f"the kernel works on `{src(st)[:60]}` and `{src(back)[:60]}` may copy the result back: not decided", **where)
            continue
        if later_use or returned:
            chk.ob("E2-result-in-place", c0, what, None,
                   f"the kernel works on `{src(st)[:60]}`, which is used again after the kernel call (or {fn.name}() returns a value): "
                   "whether the result reaches the caller's array is not decided", **where)
            continue
        chk.ob("E2-result-in-place", st, what, False,
               f"`{src(st)[:80]}` rebinds `{nm}` before the kernel call, and numpy gives back "
               + ("new storage: " + kw if kind == "always" else kw)
               + f". The kernel {kname} then writes the advected values into that copy; nothing copies them back into the array the caller "
               f"handed to {fn.name}() (no store into `{origin}` after the call, the copy is not used again, {fn.name}() returns nothing), so "
               + ("the caller's array is never updated: the step does not replace f" if kind == "always" else
                  "for every such argument (e.g. a transposed or strided view, a Fortran-ordered or non-float64 array of the right shape) "
                  "the caller's array is left untouched: the step does not replace f, while a C-contiguous float64 argument still works"),
               **where)
    # the callers of step() inside the class: a temporary that is always a copy is advected and dropped
    sformals = [a.arg for a in fn.args.args][1:]
    for m in [st for st in cls.body if isinstance(st, ast.FunctionDef) and st is not fn]:
        for c in [n for n in ast.walk(m) if isinstance(n, ast.Call) and src(n.func) == f"self.{fn.name}"]:
            # which actual is the distribution is established by bind_status on the definition of step() (all actuals written out,
            # complete signature); a binding that is not followed is UNDECIDED, a misfit is not this rule's subject
            status_, bb, bwhy_ = agree.bind_status(c, sformals, fn)
            # (a call whose binding is not followed is the subject of the index-space rules of the grid-level step: no verdict here)
            if bb is None or formal not in bb or not isinstance(bb[formal], ast.Call):
                continue
            v = bb[formal]
            fname = v.func.attr if isinstance(v.func, ast.Attribute) else getattr(v.func, "id", None)
            kws = {k.arg for k in v.keywords}
            is_method = isinstance(v.func, ast.Attribute) and src(v.func.value) not in ("np", "numpy")
            if "copy" not in kws and None not in kws and (
                    (fname in ("copy", "astype", "flatten") and is_method) or
                    (fname in ("array", "copy") and not is_method and isinstance(v.func, ast.Attribute) and len(v.args) == 1
                     and isinstance(v.args[0], (ast.Call, ast.Name, ast.Subscript, ast.Attribute)))):
                # assumptions: `.copy()` / `.astype(t)` / `np.array(x)` of an array is new storage (numpy semantics); the value is an
                # argument expression, so no name keeps it after the call
                chk.ob("E2-result-in-place", c, f"{m.name}: self.{fn.name}({src(v)[:50]}, ...)", False,
                       f"{m.name} hands `{src(v)[:80]}` to {fn.name}(): a temporary copy ({_RIP_ALWAYS.get(fname)}) is advected and "
                       "dropped when the call returns, the slice of the distribution it was copied from is never updated",
                       file=rel, func=f"{owner}.{m.name}")


def frozen_collaborator_reads(chk, rel, cls_name, mname, kernels, kmod, collab="self._constants"):
    """G-state-read-at-call: the per-call method `mname` hands the kernel the CURRENT attributes of the collaborator object kept in
    `collab` (the reference reads `self._constants.X` in every call).  A callable built once in the constructor with
    functools.partial that binds `constants.X` / `self._constants.X` freezes the values of the construction: the collaborator is an
    ordinary mutable object (its class is checked: no __slots__ / frozen dataclass; property setters with side effects exist), so a
    change made between construction and a later call is seen by the reference and not by the frozen callable.
    VIOLATED only when ALL of this is established: (1) `self.A = partial(K, ...)` is the only binding of self.A in the class and K is one
    of the kernels; (2) `mname` calls self.A; (3) an argument bound by the partial is a plain attribute read `P.X` of the constructor
    parameter P that is stored as `collab` (or of `collab` itself); (4) the call in `mname` does not hand over the same parameter
    again (a keyword given at the call overrides the partial's); (5) the collaborator's class is an ordinary class (attributes can be
    re-assigned).  Returns True when a frozen callable was found and judged."""
    cls = chk.mod(rel).cls(cls_name)
    table = method_table(chk, rel, cls_name)
    if "__init__" not in table or mname not in table:
        return False
    init, fn = table["__init__"][1], table[mname][1]
    aliases = {collab}
    for st in ast.walk(init):
        if isinstance(st, ast.Assign) and any(src(t) == collab for t in st.targets) and isinstance(st.value, ast.Name) \
                and st.value.id in [x.arg for x in init.args.args]:
            aliases.add(st.value.id)
    judged = False
    for st in ast.walk(init):
        if not (isinstance(st, ast.Assign) and len(st.targets) == 1 and isinstance(st.targets[0], ast.Attribute)
                and src(st.targets[0].value) == "self" and isinstance(st.value, ast.Call)
                and src(st.value.func) in ("partial", "functools.partial") and st.value.args
                and isinstance(st.value.args[0], ast.Name) and st.value.args[0].id in kernels):
            continue
        attr = src(st.targets[0])
        pc = st.value
        calls = [c for c in ast.walk(fn) if isinstance(c, ast.Call) and src(c.func) == attr]
        if not calls:
            continue
        binds = [x for m_ in cls.body if isinstance(m_, ast.FunctionDef) for x in ast.walk(m_)
                 if isinstance(x, (ast.Assign, ast.AugAssign, ast.AnnAssign))
                 and any(src(t) == attr for t in (x.targets if isinstance(x, ast.Assign) else [x.target]))]
        kfn = kmod.func(pc.args[0].id)
        formals = [x.arg for x in kfn.args.args]
        what = f"{attr} = partial({pc.args[0].id}, ...) reads the collaborator at construction"
        where = dict(file=rel, func=f"{cls_name}.__init__")
        if len(binds) != 1 or any(isinstance(x, ast.Starred) for x in pc.args) or any(k.arg is None for k in pc.keywords):
            chk.ob("G-state-read-at-call", st, what, None,
                   f"`{attr}` is bound {len(binds)} times in the class or built with * / ** expansion: which values the call in {mname} sees "
                   "is not followed", **where)
            judged = True
            continue
        bound = dict(zip(formals, pc.args[1:]))
        bound.update({k.arg: k.value for k in pc.keywords})
        again = {k.arg for c in calls for k in c.keywords}
        frozen = {f_: v for f_, v in bound.items() if isinstance(v, ast.Attribute) and src(v.value) in aliases and f_ not in again}
        try:
            ccls = chk.mod(U.CONSTANTS).cls("Constants")
            ordinary = not any(isinstance(x, ast.Assign) and any(src(t) == "__slots__" for t in x.targets) for x in ccls.body) and \
                not any("frozen" in src(d) or "NamedTuple" in src(d) for d in list(ccls.decorator_list) + list(ccls.bases))
        except Exception:          # noqa: BLE001
            ordinary = None
        judged = True
        if not frozen:
            mentions = any((isinstance(x, ast.Name) and x.id in aliases) or (isinstance(x, ast.Attribute) and src(x) in aliases)
                           for v in bound.values() for x in ast.walk(v))
            chk.ob("G-state-read-at-call", st, what, None if mentions else True,
                   "an argument bound by the partial mentions the collaborator object in a form that is not a plain attribute read: "
                   "what it freezes is not decided" if mentions else
                   "the partial binds nothing that is read from the collaborator object (or the call hands the value over again)", **where)
            continue
        if not ordinary:
            chk.ob("G-state-read-at-call", st, what, None,
                   "whether the collaborator's attributes can change after construction is not established", **where)
            continue
        names = ", ".join(f"{f_}={src(v)}" for f_, v in sorted(frozen.items()))
        chk.ob("G-state-read-at-call", st, what, False,
               f"`{src(st)[:60]}...` is evaluated once, in the constructor, and binds {names}: the kernel called by {mname}() through "
               f"`{attr}` receives the values the collaborator had at construction. The reference reads them from `{collab}` in every "
               f"call of {mname}(); the collaborator is an ordinary mutable object (class Constants: plain attributes, property setters "
               "that move dependent values such as rp), so after any change made to it between the construction of the operator and a "
               "later step the boundary fill uses the equilibrium of the stale constants while every other reader of the same object "
               "uses the current ones", **where)
    return judged


def wrapper_dispatch(chk, mod, wrapper, general):
    """rule E1-dispatch of engine E (agree.check_wrapper_dispatch) in three-valued form.  HOLDS: the wrapper is one if/else on its flag
    parameter, both arms are one call of the general routine with the same arguments except the evaluator arguments, which are the
    cu_ / nu_ members of one pair (cu_ on the arm taken when the flag is true), every forwarded parameter binds the general routine's
    parameter of the same name.  VIOLATED only for recognised wrong forms, each true of the code as written:
      - the arms hand different non-evaluator arguments over (both families must get the same data);
      - the two evaluators of one position are not the cu_/nu_ pair of one stem, or the cu_ member sits on the arm of the general basis;
      - a forwarded parameter `p` binds a parameter of another name although the general routine HAS a parameter `p` (crossed
        arguments; when it has none the parameter was renamed: names do not identify roles then -> UNDECIDED).
    Any other shape (test that is not the flag or its negation, arm that is not a single call, */** arguments) is UNDECIDED."""
    from ..agree import _stem
    rel = mod.rel
    fn, g = mod.func(wrapper), mod.func(general)
    chk.functions.add(f"{rel}:{wrapper}")
    ifs = [n for n in fn.body if isinstance(n, ast.If)]
    if len(ifs) != 1:
        raise AnalysisError(f"dispatch wrapper {wrapper} is not a single if/else")
    node = ifs[0]
    label = f"{wrapper} -> {general}"

    def undecided(why):
        chk.ob("E1-dispatch", node, label, None, why, file=rel, func=wrapper)
    wparams = [a.arg for a in fn.args.args]
    test, arms = node.test, (node.body, node.orelse)
    if isinstance(test, ast.UnaryOp) and isinstance(test.op, ast.Not):
        test, arms = test.operand, (node.orelse, node.body)
    if isinstance(test, ast.Compare) and len(test.ops) == 1 and isinstance(test.ops[0], (ast.Is, ast.Eq)) and isinstance(test.comparators[0], ast.Constant) \
            and test.comparators[0].value is True:
        test = test.left
    if not (isinstance(test, ast.Name) and test.id in wparams):
        return undecided(f"the test `{src(node.test)}` is not the flag parameter of the wrapper (or its negation): which family runs when is not followed")
    calls = []
    for arm in arms:
        cs = [s.value for s in arm if isinstance(s, (ast.Expr, ast.Return)) and isinstance(s.value, ast.Call)]
        if len(cs) != 1 or len(arm) != 1:
            return undecided("an arm of the dispatch is not a single call: not followed")
        calls.append(cs[0])
    gformals = [x.arg for x in g.args.args]
    if any(src(c.func) != general for c in calls):
        return undecided(f"the arms call `{src(calls[0].func)}` / `{src(calls[1].func)}`, not both `{general}`: not followed")
    binds = [agree.bind_call(c, gformals) for c in calls]
    if any(b is None for b in binds) or g.args.vararg is not None or g.args.kwarg is not None:
        if all(not any(isinstance(a, ast.Starred) for a in c.args) and all(k.arg is not None for k in c.keywords) for c in calls) \
                and g.args.vararg is None and g.args.kwarg is None:
            chk.ob("E1-dispatch", node, label, False,
                   f"a call of `{general}` does not fit its signature ({len(calls[0].args)}/{len(calls[1].args)} positional arguments, "
                   f"{len(gformals)} parameters {gformals}): TypeError when this arm runs", file=rel, func=wrapper)
            return
        return undecided("arguments handed over by * / ** expansion: not followed")
    a, b = binds
    detail, unknown = [], []
    nd = len(g.args.defaults)
    optional = set(gformals[len(gformals) - nd:]) if nd else set()
    if set(a) != set(b) or (set(gformals) - set(a)) - optional:
        detail.append(f"the arms bind different / too few parameters: {sorted(a)} vs {sorted(b)} of {gformals}")
    stems = {(_stem(n.id)[1]) for c in calls for n in ast.walk(c) if isinstance(n, ast.Name) and _stem(n.id)[0]}
    for f in [f_ for f_ in gformals if f_ in a and f_ in b]:
        x, y = a[f], b[f]
        sx, sy = src(x), src(y)
        if sx == sy:
            if isinstance(x, ast.Name) and x.id in wparams and x.id != f:
                if x.id in gformals:
                    detail.append(f"`{sx}` is forwarded to parameter `{f}` although `{general}` has a parameter `{sx}`: crossed arguments")
                else:
                    unknown.append(f"`{sx}` is forwarded to parameter `{f}`: `{general}` has no parameter `{sx}` (renamed?), roles not decided by name")
            continue
        px, stx = _stem(sx)
        py, sty = _stem(sy)
        if px is None and py is None:
            if isinstance(x, ast.Name) and isinstance(y, ast.Name):
                detail.append(f"arms differ at parameter `{f}`: `{sx}` vs `{sy}` - the two spline families are handed different arguments of the "
                              "wrapper for the same parameter")
            else:
                # family-specific derived data (e.g. a quantity read off each family's own knot layout): whether the two expressions
                # denote the same quantity needs the layout of the data, which this rule does not model
                unknown.append(f"arms differ at parameter `{f}`: `{sx}` vs `{sy}` are computed per family: whether both denote the same quantity "
                               "is not decided")
        elif not (px == "cu_" and py == "nu_" and stx == sty):
            detail.append(f"arms differ at parameter `{f}`: `{sx}` (uniform-cubic arm) vs `{sy}` (general arm): expected the cu_/nu_ members of one evaluator")
        elif f != stx:
            if f in stems:
                detail.append(f"the evaluator pair `{sx}`/`{sy}` binds parameter `{f}`, which is the name of another evaluator of this dispatch")
            else:
                unknown.append(f"the evaluator pair `{sx}`/`{sy}` binds parameter `{f}` (not named after the evaluator): role not decided by name")
    ok = False if detail else (None if unknown else True)
    chk.ob("E1-dispatch", node, label, ok,
           "both families get the same arguments in the same order; the evaluator pair is matched cu_/nu_ of one stem; "
           "the fast path is taken iff the basis is cubic uniform" if ok else "; ".join(detail + unknown), file=rel, func=wrapper)


# ------------------------------------------------------------------ operators
def parallel_gradient(chk):
    """ParallelGradient: tables built in __init__, looked up in parallel_gradient(phi_r, i, der)"""
    env = {"eta_grid": eta_grid_tag(), "layout": layout_param(), "constants": ("constants",), "order": OTHER, "spline": OTHER}
    attrs, a0 = ctor_attrs(chk, U.ADV, "ParallelGradient", env)
    local_position_decisions(chk, a0, a0.fn if hasattr(a0, "fn") else chk.func(U.ADV, "ParallelGradient.__init__"), U.ADV,
                             "ParallelGradient.__init__")
    summ, a = summary_of(chk, U.ADV, "ParallelGradient", "parallel_gradient", dict(attrs), Ctx(dist_dims={0}))
    idxp = [p_ for p_ in summ["params"] if isinstance(summ["req"].get(p_), tuple) and summ["req"][p_][0] in ("lidx", "gidx")]
    chk.ob("C-table-roles", chk.func(U.ADV, "ParallelGradient.parallel_gradient"), f"parallel_gradient({', '.join(summ['params'])})",
           True if idxp else None,
           "; ".join(f"`{p_}` must be {tname(summ['req'][p_])}" for p_ in idxp) + ": it selects the rows of the per-radius tables "
           f"{sorted(k for k, v in attrs.items() if I.is_arr(v))} (callers are checked against this: C-slice-param)" if idxp else
           "no parameter of parallel_gradient is typed as the index of its per-radius tables: the radial look-ups were not followed "
           f"(tables: { {k: tname(v) for k, v in attrs.items() if I.is_arr(v)} })", file=U.ADV, func="ParallelGradient.parallel_gradient")
    return attrs, summ


def flux_surface(chk):
    env = {"eta_grid": eta_grid_tag(), "layout": layout_param(), "constants": ("constants",), "dt": OTHER,
           "splines": OTHER, "zDegree": OTHER}
    attrs, a0 = ctor_attrs(chk, U.ADV, "FluxSurfaceAdvection", env)
    local_position_decisions(chk, a0, a0.fn if hasattr(a0, "fn") else chk.func(U.ADV, "FluxSurfaceAdvection.__init__"), U.ADV,
                             "FluxSurfaceAdvection.__init__")
    summ, _ = summary_of(chk, U.ADV, "FluxSurfaceAdvection", "step", dict(attrs), Ctx(dist_dims={0, 3}))
    req = summ["req"]
    # which index space each parameter of step must be in follows from the tables it subscripts; whether the callers hand over values of
    # these spaces is rule C-slice-param at each call (a consistent change of convention on both sides holds)
    typed = all(isinstance(req.get(p_), tuple) and req[p_][0] in ("lidx", "gidx") for p_ in ("cIdx", "rIdx"))
    split_note = None
    if not typed:
        # `if <flag>: rIdx = 0` in step, with the constructor keeping fewer table rows under the same flag: the two paths of the class
        # are typed separately - without the flag as usual; with it, one row serves every radius, which is right exactly when the rows
        # are equal (rule F6-radial-table of the element-wise model)
        sp_ = _flag_split(chk, env)
        if sp_ is not None:
            attrs2, summ2, flag, const_txt = sp_
            req2 = summ2["req"]
            if all(isinstance(req2.get(p_), tuple) and req2[p_][0] in ("lidx", "gidx") for p_ in ("cIdx", "rIdx")):
                from .C10 import radial_tables
                verdicts = [v for st_, v, _ in radial_tables(chk) if _same_flag(src(st_.test), flag)]
                if verdicts and all(v is not None for v in verdicts):
                    typed, attrs, summ, req = True, attrs2, summ2, req2
                    split_note = (f" (on the path where `{flag}` does not hold; where it holds step uses {const_txt} for every slice and the "
                                  "constructor keeps the rows of the first local radii only: whether these rows serve every radius is decided "
                                  "by F6-radial-table)")
    chk.ob("C-table-roles", chk.func(U.ADV, "FluxSurfaceAdvection.step"), "step(f, cIdx, rIdx)", True if typed else None,
           f"the tables step looks up are { {k: tname(v) for k, v in attrs.items() if I.is_arr(v) and k != '_LagrangeVals'} }: cIdx must be "
           f"{tname(req['cIdx'])}, rIdx {tname(req['rIdx'])}" + (split_note or "") if typed else
           f"index requirements of step not established: { {k: tname(v) for k, v in req.items()} } "
           f"(tables: { {k: tname(v) for k, v in attrs.items() if I.is_arr(v)} })", file=U.ADV, func="FluxSurfaceAdvection.step")
    fn = chk.func(U.ADV, "FluxSurfaceAdvection.gridStep")
    amb = I.ambient_from_asserts(fn)
    o = amb.get("grid")
    if o is None:
        raise AnalysisError("C05: FluxSurfaceAdvection.gridStep no longer asserts its layout")
    ctx = Ctx(dist_dims=dist_dims(o, 2))
    an = run_method(chk, U.ADV, "FluxSurfaceAdvection", "gridStep", {"grid": grid_param(o, 2)}, ctx, dict(attrs), {"step": summ})
    index_agreement(chk, an, fn, U.ADV, "FluxSurfaceAdvection.gridStep")
    index_provenance(chk, an, fn, U.ADV, "FluxSurfaceAdvection.gridStep")
    local_extent_dependence(chk, an, fn, U.ADV, "FluxSurfaceAdvection.gridStep")
    # the rows of the per-(r, v) tables are those of the slice's own radius also when the constructor keeps fewer rows than there are
    # local radii (decided by the element-wise model of the tables, shared with C10; nothing is recorded when no such cut exists)
    from .C10 import radial_tables
    radial_tables(chk)
    return attrs, summ, o


def _same_flag(a, b):
    strip = lambda t: t[4:].strip("() ") if t.startswith("not ") else t
    return strip(a) == strip(b)


def _flag_split(chk, env):
    """FluxSurfaceAdvection under the assumption that the flag guarding `if <flag>: <index parameter> = <literal>` in step is false:
    (attribute tags, summary of step, flag text, text of the override) or None when step has no such override"""
    from ..core import clone
    stepfn = chk.func(U.ADV, "FluxSurfaceAdvection.step")
    params = {a.arg for a in stepfn.args.args}
    ov = [st for st in stepfn.body if isinstance(st, ast.If) and not st.orelse and len(st.body) == 1 and isinstance(st.body[0], ast.Assign)
          and len(st.body[0].targets) == 1 and isinstance(st.body[0].targets[0], ast.Name) and st.body[0].targets[0].id in params
          and isinstance(st.body[0].value, ast.Constant) and isinstance(st.body[0].value.value, int)]
    if len(ov) != 1:
        return None
    flag = src(ov[0].test)

    def assume_false(fn):
        new = clone(fn)

        def walk(stmts):
            out = []
            for st in stmts:
                if isinstance(st, ast.If) and src(st.test) == flag:
                    out += walk(st.orelse)
                    continue
                if isinstance(st, ast.If) and isinstance(st.test, ast.UnaryOp) and isinstance(st.test.op, ast.Not) and src(st.test.operand) == flag:
                    out += walk(st.body)
                    continue
                for fld in ("body", "orelse", "finalbody"):
                    blk = getattr(st, fld, None)
                    if isinstance(blk, list) and blk and isinstance(blk[0], ast.stmt):
                        setattr(st, fld, walk(blk) or ([ast.copy_location(ast.Pass(), st)] if fld == "body" else []))
                out.append(st)
            return out
        new.body = walk(new.body) or [ast.copy_location(ast.Pass(), new)]
        for n in ast.walk(new):
            for ch in ast.iter_child_nodes(n):
                ch._parent = n
        new._parent = parent(fn)
        if hasattr(fn, "_qual"):
            new._qual = fn._qual
        return new
    methods = {k: assume_false(v) for k, v in I.class_methods(chk, U.ADV, "FluxSurfaceAdvection").items()}
    try:
        attrs2, _ = ctor_attrs(chk, U.ADV, "FluxSurfaceAdvection", env, methods=methods)
        summ2, _ = summary_of(chk, U.ADV, "FluxSurfaceAdvection", "step", dict(attrs2), Ctx(dist_dims={0, 3}), fn=methods["step"])
    except AnalysisError:
        return None
    return attrs2, summ2, flag, f"`{src(ov[0].body[0])}`"


def v_parallel(chk, pg_summ):
    O = orders(chk)
    o_grid, o_phi = O["v_parallel"], O["v_parallel_1d"]
    ctx = Ctx(dist_dims=dist_dims(o_grid, 2))
    # table allocated by the driver
    dfn = chk.func(U.DRIVER, "main")
    pgv = None
    for n in ast.walk(dfn):
        if isinstance(n, ast.Assign) and isinstance(n.targets[0], ast.Name) and n.targets[0].id == "parGradVals":
            a = IS2(chk, U.DRIVER, "main", dfn, {"distribFunc": grid_param(o_grid, 2), "constants": ("constants",)}, ctx, {})
            pgv = a.ev(n.value)
            okw = True if I.is_arr(pgv) and all(w is not None and w[0] in ("G", "L") for w in pgv[1]) else None
            pgv_node = n
            chk.ob("C-table-roles", n, "parGradVals = np.empty([...])", okw,
                   f"parallel-gradient table is {tname(pgv)} (its readers and its writer are typed against these axes)" if okw else
                   f"axes of the table not established: {tname(pgv)}", file=U.DRIVER, func="main")
    if pgv is None:
        raise AnalysisError("C05: allocation of parGradVals not found in fullSimulation.main")
    step_summ = {"params": ["f", "dt", "c", "r"], "req": {}}
    analyses = {}
    # what the constructor keeps of the coordinate arrays (`self._rPoints = eta_vals[0]`): typed without obligations of its own; a
    # constructor that is not followed leaves the attributes untyped (their uses are then UNDECIDED where they matter)
    vattrs = {}
    try:
        cfn = method_table(chk, U.ADV, "VParallelAdvection")["__init__"][1]
        ca = IS2(_Mute(), U.ADV, "VParallelAdvection.__init__", cfn,
                 {"eta_vals": eta_grid_tag(), "splines": OTHER, "constants": ("constants",), "edge": OTHER}, Ctx(dist_dims=None), vattrs)
        ca.methods = dict(I.class_methods(chk, U.ADV, "VParallelAdvection"))
        ca.run()
        vattrs = {k: v for k, v in vattrs.items() if I.is_arr(v) and v[2] is not None and v[2][0] == "coord"}
    except Exception:          # noqa: BLE001
        vattrs = {}
    prov_tables = {}
    for m in ("gridStep", "gridStepKeepGradient"):
        fn = vpar_entry(chk, m)
        env = {"grid": grid_param(o_grid, 2), "phi": grid_param(o_phi, 1), "parGradVals": pgv,
               "parGrad": ("obj", "ParallelGradient"), "dt": OTHER}
        a = IS2(chk, U.ADV, f"VParallelAdvection.{m}", fn, env, ctx, dict(vattrs), {"step": step_summ})
        a.obj_summaries = {("ParallelGradient", "parallel_gradient"): pg_summ}
        chk.functions.add(f"{U.ADV}:VParallelAdvection.{m}")
        a.run()
        index_agreement(chk, a, fn, U.ADV, f"VParallelAdvection.{m}")
        prov_tables[m] = index_provenance(chk, a, fn, U.ADV, f"VParallelAdvection.{m}")
        local_extent_dependence(chk, a, fn, U.ADV, f"VParallelAdvection.{m}")
        analyses[m] = a
    sibling_provenance(chk, U.ADV, "VParallelAdvection.gridStep", "VParallelAdvection.gridStepKeepGradient", fn,
                       prov_tables["gridStep"], prov_tables["gridStepKeepGradient"])
    radius_argument(chk, analyses)
    gradient_out_param(chk)
    out_array_axes(chk, analyses["gridStep"])
    return pgv


def vpar_entry(chk, m):
    """VParallelAdvection.<m> as the driver runs it (delegations with bound arguments and unused optional parameters resolved)"""
    cache = chk.__dict__.setdefault("_c05_vpar_entry", {})
    if m not in cache:
        table = method_table(chk, U.ADV, "VParallelAdvection")
        try:
            entries = driver_entries(chk, U.ADV, "VParallelAdvection", ("vParAdv",))
        except AnalysisError:
            entries = []
        mine = [f for name, f in entries if name == m]
        if m in table and len(mine) <= 1:
            cache[m] = entry_function(chk, U.ADV, "VParallelAdvection", m, receivers=("vParAdv",))
        else:
            # the anchor vanished, or the driver runs it with different literal arguments (None / flags): the driver's calls on the
            # operator object, each with its literal arguments bound, are the entry points; the one that computes the gradient plays
            # gridStep, the one that only advects with the stored table plays gridStepKeepGradient
            has_pg = lambda f: any(isinstance(c, ast.Call) and isinstance(c.func, ast.Attribute) and c.func.attr == "parallel_gradient" for c in ast.walk(f))
            has_step = lambda f: any(isinstance(c, ast.Call) and isinstance(c.func, ast.Attribute) and c.func.attr == "step" and src(c.func.value) == "self"
                                     for c in ast.walk(f))
            want_pg = m == "gridStep"
            cands = [f for name, f in entries if has_step(f) and has_pg(f) == want_pg and (name == m or m not in table)]
            if len(cands) != 1:
                raise AnalysisError(f"anchor vanished: {U.ADV}:VParallelAdvection.{m} (and no call of the driver on the operator object plays its role: "
                                    f"{len(cands)} candidates)")
            cache[m] = cands[0]
    return cache[m]


def driver_entries(chk, rel, cls, receivers):
    """[(method name, the method with the literal arguments of one driver call bound)] for the distinct calls of fullSimulation.main on
    the operator objects `receivers`"""
    drv = chk.func(U.DRIVER, "main")
    table = method_table(chk, rel, cls)
    out, seen = [], set()
    for c in ast.walk(drv):
        if not (isinstance(c, ast.Call) and isinstance(c.func, ast.Attribute) and isinstance(c.func.value, ast.Name) and c.func.value.id in receivers
                and c.func.attr in table):
            continue
        callee = table[c.func.attr][1]
        formals = [a.arg for a in callee.args.args if a.arg != "self"]
        b = agree.bind_call(c, formals)
        if b is None:
            continue
        nd = len(callee.args.defaults)
        for a_, d_ in zip(callee.args.args[len(callee.args.args) - nd:], callee.args.defaults):
            b.setdefault(a_.arg, d_)
        consts = {k: v for k, v in b.items() if isinstance(v, ast.Constant)}
        key = (c.func.attr, tuple(sorted((k, repr(v.value)) for k, v in consts.items())))
        if key in seen:
            continue
        seen.add(key)
        chk.functions.add(f"{rel}:{cls}.{c.func.attr}")
        out.append((c.func.attr, specialise(callee, consts) if consts else callee))
    return out


def out_array_axes(chk, a):
    """writer side of the gradient table: parallel_gradient fills its output array row for row like its input (it asserts equal shapes), so
    the block of the table handed in must have the axes of the potential slice handed in"""
    fn = a.fn
    pgf = chk.func(U.ADV, "ParallelGradient.parallel_gradient")
    params = [x.arg for x in pgf.args.args if x.arg != "self"]
    for c in ast.walk(fn):
        if isinstance(c, ast.Call) and isinstance(c.func, ast.Attribute) and c.func.attr == "parallel_gradient":
            b = agree.bind_call(c, params) or {}
            if len(params) < 3 or params[0] not in b or params[2] not in b:
                continue
            tin, tout = a.node_tags.get(id(b[params[0]])), a.node_tags.get(id(b[params[2]]))
            known = I.is_arr(tin) and I.is_arr(tout) and all(w is not None and w[0] in ("G", "L") for w in tin[1] + tout[1])
            same = known and tuple(tin[1]) == tuple(tout[1])
            # VIOLATED assumes that the callee pairs row k of its first parameter with row k of its third one: established by its own
            # `assert <third>.shape == <first>.shape` (the reference contract); without it a mismatch of the axes is UNDECIDED
            contract = any(isinstance(n_, ast.Assert) and isinstance(n_.test, ast.Compare) and len(n_.test.ops) == 1 and isinstance(n_.test.ops[0], ast.Eq)
                           and {src(n_.test.left), src(n_.test.comparators[0])} == {f"{params[0]}.shape", f"{params[2]}.shape"} for n_ in pgf.body)
            chk.ob("C-window", c, f"parallel_gradient({src(b[params[0]])[:40]}, ..., {src(b[params[2]])[:30]}): axes in = axes out",
                   (True if same else (False if contract else None)) if known else None,
                   f"input slice and output block are both {tname(tin)}" if same else
                   (f"the potential slice handed in is {tname(tin)} but the block of the table that receives the gradient is {tname(tout)}: "
                    "parallel_gradient writes row k of its result for row k of its input, so the rows of the table do not hold the gradient at "
                    "their own (z, theta)" if known else f"axes not established: input {tname(tin) if tin else '?'}, output {tname(tout) if tout else '?'}"),
                   file=U.ADV, func=getattr(fn, "_qual", "VParallelAdvection.gridStep"))


def gradient_out_param(chk):
    """gridStep fills parGradVals[i] through parallel_gradient's output argument and gridStepKeepGradient reads the table later:
    the array handed in must end up holding the very value the function returns"""
    gs, unstructured = structured(vpar_entry(chk, "gridStep"))
    pgf = chk.func(U.ADV, "ParallelGradient.parallel_gradient")
    params = [a.arg for a in pgf.args.args if a.arg != "self"]
    calls = [c for c in ast.walk(gs) if isinstance(c, ast.Call) and isinstance(c.func, ast.Attribute) and c.func.attr == "parallel_gradient"]
    if len(calls) != 1:
        raise AnalysisError("C05/C11: the parallel_gradient call of VParallelAdvection.gridStep not found")
    b = agree.bind_call(calls[0], params) or {}
    row_always_written(chk, gs, calls[0], unstructured)
    out = [p_ for p_, a in b.items() if isinstance(a, ast.Subscript) and src(a.value) == "parGradVals"]
    if len(out) != 1:
        chk.ob("E2-gradient-out-param", calls[0], "parGradVals[i] handed to parallel_gradient as output array", None,
               "no argument of the call is a row block of parGradVals", file=U.ADV, func="VParallelAdvection.gridStep")
        return
    o = out[0]
    rets = [r for r in ast.walk(pgf) if isinstance(r, ast.Return) and r.value is not None]
    rebinds = [n for n in ast.walk(pgf) if isinstance(n, ast.Assign) and any(isinstance(t, ast.Name) and t.id == o for t in n.targets)]

    def alias_of_o(e):
        """o itself or a view of it (same memory): o, o[:], o[...], np.asarray(o), o.view(), o.reshape(...)"""
        while True:
            if isinstance(e, ast.Name):
                return e.id == o
            if isinstance(e, ast.Subscript) and (isinstance(e.slice, ast.Slice) and e.slice.lower is None and e.slice.upper is None and e.slice.step is None
                                                 or (isinstance(e.slice, ast.Constant) and e.slice.value is Ellipsis)):
                e = e.value
            elif isinstance(e, ast.Call) and src(e.func) in ("np.asarray", "np.asanyarray") and len(e.args) == 1 and not e.keywords:
                e = e.args[0]
            elif isinstance(e, ast.Call) and isinstance(e.func, ast.Attribute) and e.func.attr in ("view", "reshape") and not e.keywords:
                e = e.func.value
            else:
                return False

    def computed_from_o(e):
        """an arithmetic expression over o: a NEW array whose content differs from what is left in o"""
        return isinstance(e, (ast.BinOp, ast.UnaryOp)) and any(isinstance(x, ast.Name) and x.id == o for x in ast.walk(e))
    # what the caller does with the returned value: bound to a name that is read / used in an expression, or dropped
    st_call = parent(calls[0])
    result_used = not isinstance(st_call, ast.Expr)
    other_rets = [r for r in rets if not alias_of_o(r.value)]
    node = pgf
    if not other_rets and not rebinds:
        ok, why = True, (f"`{o}` is only updated in place and is what the function returns: the table row read by gridStepKeepGradient is the "
                         "gradient used by gridStep")
    elif rebinds:
        node = rebinds[0]
        v = rebinds[0].value
        fresh = computed_from_o(v) or (isinstance(v, ast.Call) and src(v.func).split(".")[-1] in ("zeros", "empty", "zeros_like", "empty_like", "copy", "array"))
        later = [n for n in ast.walk(pgf) if isinstance(n, (ast.AugAssign, ast.Assign)) and n.lineno > rebinds[0].lineno and
                 src(n.target if isinstance(n, ast.AugAssign) else n.targets[0]).split("[")[0] == o]
        # VIOLATED: the parameter is re-bound to a NEW array and updated afterwards (these updates cannot reach the caller's row)
        ok = False if fresh and later and len(rebinds) == 1 and parent(rebinds[0]) is pgf else None
        why = (f"`{src(rebinds[0])[:70]}` rebinds `{o}` to a new array and `{src(later[0])[:50]}` updates that array: the update does not reach the "
               "caller's table row, which gridStepKeepGradient reads" if ok is False else
               f"`{src(rebinds[0])[:70]}` rebinds `{o}`: whether later updates still reach the caller's table row is not decided")
    elif all(computed_from_o(r.value) for r in other_rets) and result_used:
        # VIOLATED: the function returns a new array computed from the output array AND the caller advects with the returned value while
        # the table row (read later by gridStepKeepGradient) keeps what was left in place
        node = other_rets[0]
        ok, why = False, (f"`{src(other_rets[0])}` returns a new array computed from `{o}`, and gridStep uses the returned value "
                          f"(`{src(st_call)[:60]}`): the table row keeps the value left in `{o}` (unscaled/partial), so gridStepKeepGradient, "
                          "which reads the table, advects with another speed than gridStep")
    elif not result_used:
        ok, why = True, (f"gridStep drops the value returned by parallel_gradient and reads the table row `{src(b[o])}` like gridStepKeepGradient: "
                         "both steps advect with what the call leaves in the row")
    else:
        node = other_rets[0]
        ok, why = None, (f"`{src(other_rets[0])[:70]}` returns something else than the output array `{o}` and gridStep uses the returned value: "
                         "whether it equals the content of the table row is not decided")
    chk.ob("E2-gradient-out-param", node, f"parallel_gradient leaves its result in `{o}`", ok, why,
           file=U.ADV, func="ParallelGradient.parallel_gradient")
    table_kept_after_use(chk, gs, calls[0], b[o])


_VALUE_CHANGING = {"abs", "absolute", "fabs", "negative", "square", "sqrt", "exp", "log", "sign", "reciprocal", "add", "subtract", "multiply",
                   "divide", "true_divide", "power", "floor", "ceil", "rint", "trunc"}


def table_kept_after_use(chk, gs, producer, row):
    """state carried between calls: gridStepKeepGradient advects with what gridStep LEFT in the gradient table.  gridStep advects its
    own lines with the rows the producer call filled; a statement that changes these rows in place AFTER the lines were advected makes
    the later gridStepKeepGradient advect with another speed than gridStep did.
    VIOLATED assumptions (each checked, else UNDECIDED): (a) the statement is executed after the step call that reads the table (order
    read from the statement lists, C05.exec_order); (b) the place written is the table or a VIEW of it (a subscript of the table whose
    components are slices, integer constants or counters of the enclosing for loops, bound to a local that is assigned once);
    (c) the operation writes in place (subscript store, augmented assignment on a view, `out=` of a numpy function, .fill/.sort) and
    (d) changes the values (known value-changing ufunc / augmented operator with a non-neutral operand)."""
    q = "VParallelAdvection.gridStep"
    tab = src(row.value) if isinstance(row, ast.Subscript) else src(row)
    label = f"`{tab}` is not modified after the lines were advected with it (read again by gridStepKeepGradient)"
    def base(e):
        while isinstance(e, ast.Subscript):
            e = e.value
        return e.id if isinstance(e, ast.Name) else None
    loop_vars = {x.id for lp in ast.walk(gs) if isinstance(lp, ast.For) for x in ast.walk(lp.target) if isinstance(x, ast.Name)}
    stores = {}
    for n in ast.walk(gs):
        if isinstance(n, (ast.Assign, ast.AugAssign, ast.AnnAssign, ast.For, ast.NamedExpr)):
            ts = n.targets if isinstance(n, ast.Assign) else [n.target]
            for t in ts:
                for x in ast.walk(t):
                    if isinstance(x, ast.Name) and isinstance(x.ctx, ast.Store):
                        stores.setdefault(x.id, []).append(n)

    def basic_index(e):
        """every subscript step from the base name to `e` selects with slices, integer constants or counters of for loops"""
        while isinstance(e, ast.Subscript):
            comps = e.slice.elts if isinstance(e.slice, ast.Tuple) else [e.slice]
            for c_ in comps:
                if isinstance(c_, ast.Slice) or (isinstance(c_, ast.Constant) and (isinstance(c_.value, int) or c_.value is Ellipsis)):
                    continue
                if isinstance(c_, ast.Name) and c_.id in loop_vars and len(stores.get(c_.id, [])) == 1:
                    continue
                return False
            e = e.value
        return True
    # views of the table (transitively): name -> defining statement; unknown_alias = a local made from the table in a way not known to
    # be a view (index arrays / masks copy; a name assigned more than once)
    views, unknown_alias = {}, {}
    changed = True
    while changed:
        changed = False
        for name, sts in stores.items():
            if name in views or name in unknown_alias:
                continue
            for st in sts:
                if isinstance(st, ast.Assign) and len(st.targets) == 1 and isinstance(st.targets[0], ast.Name):
                    v = st.value
                    bv = base(v) if isinstance(v, (ast.Subscript, ast.Name)) else None
                    if bv is not None and bv != name and (bv == tab or bv in views or bv in unknown_alias):
                        if len(sts) == 1 and basic_index(v) and bv not in unknown_alias:
                            views[name] = st
                        else:
                            unknown_alias[name] = st
                        changed = True
                        break
    related = {tab} | set(views) | set(unknown_alias)
    users = [c for c in ast.walk(gs) if isinstance(c, ast.Call) and c is not producer and isinstance(c.func, ast.Attribute)
             and src(c.func.value) == "self" and any(isinstance(x, ast.Name) and x.id in related for a in list(c.args) + [k.value for k in c.keywords]
                                                     for x in ast.walk(a))]
    if not users:
        chk.ob("E2-gradient-table-kept", producer, label, None, f"no call on self reads `{tab}` (or a view of it) in gridStep: the statement that "
               "uses the table is not identified", file=U.ADV, func=q)
        return
    use = users[0]

    def after_use(n):
        vs = [exec_order(gs, u, n)[0] for u in users]
        return True if any(v is True for v in vs) else (None if any(v is None for v in vs) else False)
    found, unsure = [], []
    for n in ast.walk(gs):
        target = what = changing = None
        if isinstance(n, (ast.Assign, ast.AugAssign)):
            for t in (n.targets if isinstance(n, ast.Assign) else [n.target]):
                bt = base(t)
                if isinstance(t, ast.Subscript) and (bt == tab or bt in views or bt in unknown_alias):
                    target, what = t, f"`{src(n)[:80]}` stores into `{src(t)[:40]}`"
                    changing = None
                    if isinstance(n, ast.AugAssign):
                        neutral = isinstance(n.value, ast.Constant) and n.value.value in ((1,) if isinstance(n.op, (ast.Mult, ast.Div, ast.Pow)) else (0,))
                        changing = True if not neutral and isinstance(n.value, (ast.Constant, ast.Name, ast.Attribute, ast.BinOp)) else None
                elif isinstance(n, ast.AugAssign) and isinstance(t, ast.Name) and (t.id in views or t.id in unknown_alias):
                    target, what = t, f"`{src(n)[:80]}` updates the view `{t.id}` in place"
                    neutral = isinstance(n.value, ast.Constant) and n.value.value in ((1,) if isinstance(n.op, (ast.Mult, ast.Div, ast.Pow)) else (0,))
                    # `name op= v` updates in place only when the name holds an ARRAY (a scalar element is re-bound): established when a
                    # slice occurs in the subscripts that define the view
                    dv = views[t.id].value if t.id in views else None
                    arrayish = dv is not None and any(isinstance(x, ast.Slice) for x in ast.walk(dv))
                    changing = True if not neutral and arrayish else None
        elif isinstance(n, ast.Call) and n is not producer:
            outs = [k.value for k in n.keywords if k.arg == "out"]
            if outs and (base(outs[0]) == tab or base(outs[0]) in views or base(outs[0]) in unknown_alias):
                fname = src(n.func).split(".")[-1]
                target, what = outs[0], f"`{src(n)[:80]}` writes its result into `{src(outs[0])[:40]}`"
                same_in = len(n.args) >= 1 and src(n.args[0]) == src(outs[0])
                changing = True if fname in _VALUE_CHANGING and isinstance(n.func, ast.Attribute) and src(n.func.value) in ("np", "numpy") \
                    and (same_in or len(n.args) == 2) else None
            elif isinstance(n.func, ast.Attribute) and n.func.attr in ("fill", "sort", "partition", "put", "itemset", "resize") and \
                    (base(n.func.value) == tab or base(n.func.value) in views or base(n.func.value) in unknown_alias):
                target, what, changing = n.func.value, f"`{src(n)[:80]}` changes `{src(n.func.value)[:40]}` in place", None
        if target is None:
            continue
        after = after_use(n)
        bt = base(target)
        if after is None:
            unsure.append((n, f"{what}; its order against `{src(use)[:40]}...` is not decided by the statement structure"))
        elif after is True:
            if bt in unknown_alias:
                unsure.append((n, f"{what}; whether `{bt}` is a view of the table or a copy is not established"))
            elif changing:
                found.append((n, what))
            else:
                unsure.append((n, f"{what} after the lines were advected; whether the stored values change is not established"))
    if found:
        n, what = found[0]
        chk.ob("E2-gradient-table-kept", n, label, False,
               f"{what} after the lines of this radius were advected with the signed gradient: the table gridStepKeepGradient reads later holds "
               "other values than the ones gridStep advected with (state carried between the two calls of the time step), so the second "
               "v-parallel step of the splitting advects with another speed", file=U.ADV, func=q)
    elif unsure:
        chk.ob("E2-gradient-table-kept", unsure[0][0], label, None, unsure[0][1], file=U.ADV, func=q)
    else:
        chk.ob("E2-gradient-table-kept", use, label, True,
               "no statement of gridStep stores into the table, a view of it or an `out=` argument made from it after the step calls that "
               "read it", file=U.ADV, func=q)


def row_always_written(chk, gs, call, unstructured):
    """writer/reader agreement on the rows of the gradient table: gridStepKeepGradient reads parGradVals[i] for every local radius, so
    gridStep has to write that row in every iteration of its loop over the radii, whatever the data"""
    q = "VParallelAdvection.gridStep"
    label = "parGradVals[i] is written for every local radius (read again by gridStepKeepGradient)"
    conds, loops, odd = [], [], None
    ch, p_ = call, parent(call)
    while p_ is not None and p_ is not gs:
        if isinstance(p_, ast.If):
            conds.append((p_, ch in p_.body if isinstance(ch, ast.stmt) else None))
        elif isinstance(p_, ast.For):
            loops.append(p_)
        elif isinstance(p_, (ast.While, ast.Try, ast.With, ast.IfExp, ast.FunctionDef, ast.Lambda)):
            odd = p_
        if isinstance(p_, ast.stmt):
            ch = p_
        p_ = parent(p_)
    st = call
    while not isinstance(st, ast.stmt):
        st = parent(st)
    # exits before the call in the loop body (structured form has no `continue` left)
    early = None
    for lp in loops:
        for n in ast.walk(lp):
            if isinstance(n, (ast.Break, ast.Return, ast.Continue, ast.Raise)) and (n.lineno, n.col_offset) < (st.lineno, st.col_offset):
                early = n
    if unstructured or odd is not None or early is not None or any(pol is None for _, pol in conds):
        what = unstructured or (f"`{src(early)}` before the call" if early is not None else f"the call sits in `{src(odd).splitlines()[0][:50]}`"
                                if odd is not None else "condition not followed")
        chk.ob("E2-gradient-row-written", call, label, None, f"control flow around the parallel_gradient call not followed: {what}",
               file=U.ADV, func=q)
        return
    if not conds:
        chk.ob("E2-gradient-row-written", call, label, True,
               "the call that fills parGradVals[i] is executed unconditionally in every iteration of the loop over the local radii: the rows "
               "gridStepKeepGradient reads are the gradient of the potential handed to this gridStep", file=U.ADV, func=q)
        return

    def writes_table(stmts):
        for s_ in stmts:
            for n in ast.walk(s_):
                t = n.targets[0] if isinstance(n, ast.Assign) else n.target if isinstance(n, ast.AugAssign) else None
                while isinstance(t, ast.Subscript):
                    t = t.value
                if isinstance(t, ast.Name) and t.id == "parGradVals":
                    return True
                if isinstance(n, ast.Call) and any(isinstance(x, ast.Name) and x.id == "parGradVals" for a in n.args for x in ast.walk(a)) and n is not call:
                    return True
        return False
    node, pol = conds[-1]

    def neg(t):
        return src(t.operand) if isinstance(t, ast.UnaryOp) and isinstance(t.op, ast.Not) else f"not ({src(t)})"
    cond = src(node.test) if pol else neg(node.test)
    skip = neg(node.test) if pol else src(node.test)
    # does the condition vary from one radius to the next?  (names bound by the loop over the radii or assigned inside it)
    per_iter = set()
    for lp in loops:
        per_iter |= {x.id for x in ast.walk(lp.target) if isinstance(x, ast.Name)}
        per_iter |= {x.id for s_ in lp.body for x in ast.walk(s_) if isinstance(x, ast.Name) and isinstance(x.ctx, ast.Store)}
    varying = [n_ for n_, _ in conds if any(isinstance(x, ast.Name) and x.id in per_iter for x in ast.walk(n_.test))]
    # VIOLATED assumes that the condition can really fail for some local radius: taken as established when it depends on DATA computed
    # in the iteration (a local assigned in the loop body, e.g. a slice of the potential); a test on the loop counters alone
    # (`if i < n:`) may hold for every radius -> UNDECIDED
    targets = set()
    for lp in loops:
        targets |= {x.id for x in ast.walk(lp.target) if isinstance(x, ast.Name)}
    data_dep = [n_ for n_ in varying if any(isinstance(x, ast.Name) and x.id in per_iter - targets for x in ast.walk(n_.test))
                or any(isinstance(x, ast.Call) for x in ast.walk(n_.test))]
    if varying and not data_dep:
        chk.ob("E2-gradient-row-written", node, label, None,
               f"the parallel_gradient call runs only when `{cond}`, a test on the loop counters: whether it can fail for a local radius is not "
               "decided", file=U.ADV, func=q)
        return
    if not varying:
        chk.ob("E2-gradient-row-written", node, label, None,
               f"the parallel_gradient call runs only when `{cond}`, a condition that does not change from one radius to the next: whether "
               "gridStepKeepGradient is ever used with a table left unwritten is not decided", file=U.ADV, func=q)
        return
    if any(writes_table(n_.orelse if pl else n_.body) for n_, pl in conds):
        chk.ob("E2-gradient-row-written", node, label, None,
               f"the parallel_gradient call runs only when `{cond}`; the other path stores into parGradVals itself: equality of that value "
               "with the gradient is not decided", file=U.ADV, func=q)
        return
    chk.ob("E2-gradient-row-written", node, label, False,
           f"parGradVals[i] is filled by parallel_gradient only when `{cond}`; when `{skip}` the iteration leaves the row untouched. "
           "gridStepKeepGradient (called after gridStep in the time step) reads parGradVals[i, J, k] for every local radius: for the skipped "
           "radii it advects with the gradient of an earlier potential, or with the uninitialised content of np.empty on first use",
           file=U.ADV, func=q)


class _Mute:
    functions = set()

    def ob(self, *a, **k):
        pass


def coordinate_of_slice(a, fn, at, expr, sel, d):
    """is `expr` (typed as a coordinate along dimension d) the coordinate at the index `sel` that selects the slice?
    -> (True / False / None, diagnosis or None)"""
    dn = I.DIMNAMES.get(d, d)
    if isinstance(expr, ast.Subscript) and not isinstance(expr.slice, (ast.Slice, ast.Tuple)):
        tX, te = a.node_tags.get(id(expr.value)), a.node_tags.get(id(expr.slice))
        w = tX[1][0] if I.is_arr(tX) and len(tX[1]) == 1 else None
        if w is None or w[0] not in ("G", "L"):
            return None, f"`{src(expr.value)}` is not typed as a coordinate table of {dn}"
        if not a.ctx.distributed(d):
            return True, None
        kind = te[0] if isinstance(te, tuple) and te[0] in ("lidx", "gidx") and te[1] == d else None
        if kind is None and sel is not None and src(sel) == src(expr.slice):
            kind = "lidx"          # the same value selects the local slice
        if kind is None:
            return None, f"index space of `{src(expr.slice)}` in `{src(expr)}` not determined"
        # VIOLATED-soundness: both sides are engine-C facts - the table is typed Local/Global along d (from its construction) and the
        # subscript is typed lidx/gidx (or is the very value that selects the local slice through get1DSlice, whose selectors are local
        # indices by the Grid API); an untyped subscript is UNDECIDED above
        if (kind == "lidx") == (w[0] == "L"):
            return True, None
        return False, (f"`{src(expr)}`: `{src(expr.value)}` holds the {'GLOBAL' if w[0] == 'G' else 'local'} {dn} coordinates but `{src(expr.slice)}` is the "
                       f"{'local' if kind == 'lidx' else 'global'} index of the line" + (f" (it selects the slice: `{src(parent(sel))[:60]}`)" if sel is not None and parent(sel) is not None else "") +
                       f": whenever {dn} is distributed the boundary rule receives the radius of another line")
    if isinstance(expr, ast.Name) and sel is not None:
        lp = _binding_loop(at, expr)
        if lp is not None and isinstance(lp.target, ast.Tuple) and len(lp.target.elts) == 2 and isinstance(lp.target.elts[0], ast.Name):
            iv = lp.target.elts[0].id
            if isinstance(sel, ast.Name) and sel.id == iv:
                return True, None
            ts = a.node_tags.get(id(sel))
            if isinstance(sel, ast.Name) and _binding_loop(at, sel) is not None and _binding_loop(at, sel) is not lp \
                    and isinstance(ts, tuple) and ts[0] in ("lidx", "gidx"):
                return None, (f"the radius `{expr.id}` is bound with index `{iv}` by `{src(lp).splitlines()[0][:60]}` but the slice is selected by "
                              f"`{src(sel)}` of another loop: same line not established")
    return True, None


def index_agreement(chk, a, fn, rel, q):
    """C-same-index for index variables engine C could not type: one value that selects a LOCAL slice (get1DSlice/get2DSlice selector,
    Local axis of a table) must not subscript a Global axis of the same distributed dimension (and vice versa)"""
    uses = {}
    stores = {}
    for n in ast.walk(fn):
        if isinstance(n, ast.Name) and isinstance(n.ctx, ast.Store):
            stores[n.id] = stores.get(n.id, 0) + 1

    def note(name_node, kind, d, node):
        t = a.node_tags.get(id(name_node))
        if isinstance(t, tuple) and t[0] in ("lidx", "gidx", "lit", "param"):
            return                       # typed: engine C's own rules apply
        if d is None or not isinstance(d, int) or not a.ctx.distributed(d):
            return
        lp = _binding_loop(node, name_node)
        if lp is None and stores.get(name_node.id, 0) != 1:
            return                       # re-assigned local: the uses may see different values
        uses.setdefault((name_node.id, id(lp)), []).append((kind, d, node))
    for n in ast.walk(fn):
        if isinstance(n, ast.Call) and isinstance(n.func, ast.Attribute) and n.func.attr in ("get1DSlice", "get2DSlice"):
            g = a.node_tags.get(id(n.func.value))
            if isinstance(g, tuple) and g and g[0] == "grid" and g[1] is not None:
                for k, x in enumerate(n.args):
                    if isinstance(x, ast.Name) and k < len(g[1]):
                        note(x, "L", g[1][k], n)
        elif isinstance(n, ast.Subscript):
            tb = a.node_tags.get(id(n.value))
            if not I.is_arr(tb):
                continue
            items = n.slice.elts if isinstance(n.slice, ast.Tuple) else [n.slice]
            k = 0
            for it in items:
                if isinstance(it, ast.Constant) and it.value is None:
                    continue
                if k >= len(tb[1]):
                    break
                w = tb[1][k]
                if isinstance(it, ast.Name) and w is not None and w[0] in ("G", "L"):
                    note(it, w[0], w[1], n)
                k += 1
    for (name, _), lst in uses.items():
        for d in {d for _, d, _ in lst}:
            loc = [x for x in lst if x[1] == d and x[0] == "L"]
            glo = [x for x in lst if x[1] == d and x[0] == "G"]
            if loc and glo:
                dn = I.DIMNAMES.get(d, d)
                # VIOLATED-soundness: relational - ONE value (same binding loop, or a local stored exactly once) is used as a local selector and as
                # the subscript of an axis engine C typed Global for the same distributed dimension; re-assigned locals are skipped above
                chk.ob("C-same-index", glo[0][2], f"{name}: {src(loc[0][2])[:40]} / {src(glo[0][2])[:40]}", False,
                       f"`{name}` selects the local block in `{src(loc[0][2])[:60]}` (a local index along {dn}) and subscripts the Global({dn}) axis in "
                       f"`{src(glo[0][2])[:60]}`: whenever {dn} is distributed the entry of another process's block is used", file=rel, func=q)


# ------------------------------------------------------------------ index provenance by receiver object
_GRID_ACCESSORS = {"getCoords", "getGlobalIdxVals", "getCoordVals", "getEta", "getGlobalIndices"}
_SLICERS = ("get1DSlice", "get2DSlice")


def process_splits(chk):
    """{ordering of a 3-D (potential) layout: [position in the distribution function's process grid that splits its k-th axis]} read from
    the driver: `nprocs = <f>.getLayout(<f>.currentLayout).nprocs[:2]` (process counts of the 4-D layouts, by position in the ordering) and
    `LayoutSwapper(comm, [dict, ...], [nprocs | nprocs[c], ...], ...)`.  Anything not of this form is left out (-> UNDECIDED)"""
    cache = chk.__dict__.setdefault("_c05_process_splits", {})
    if "v" in cache:
        return cache["v"]
    out = {}
    try:
        dfn = chk.func(U.DRIVER, "main")
        one = {}
        cnt = {}
        for n in ast.walk(dfn):
            if isinstance(n, ast.Name) and isinstance(n.ctx, ast.Store):
                cnt[n.id] = cnt.get(n.id, 0) + 1
            if isinstance(n, ast.Assign) and len(n.targets) == 1 and isinstance(n.targets[0], ast.Name):
                one[n.targets[0].id] = n.value
        one = {k: v for k, v in one.items() if cnt.get(k) == 1}
        base = None
        for k, v in one.items():
            if isinstance(v, ast.Subscript) and isinstance(v.slice, ast.Slice) and v.slice.lower is None and v.slice.step is None \
                    and isinstance(v.slice.upper, ast.Constant) and v.slice.upper.value == 2 and isinstance(v.value, ast.Attribute) \
                    and v.value.attr == "nprocs" and isinstance(v.value.value, ast.Call) and isinstance(v.value.value.func, ast.Attribute) \
                    and v.value.value.func.attr == "getLayout":
                base = k
        for c in ast.walk(dfn):
            if base and isinstance(c, ast.Call) and isinstance(c.func, ast.Name) and c.func.id == "LayoutSwapper" and len(c.args) >= 3 \
                    and isinstance(c.args[1], ast.List) and isinstance(c.args[2], ast.List) and len(c.args[1].elts) == len(c.args[2].elts):
                for dct, npx in zip(c.args[1].elts, c.args[2].elts):
                    dct = one.get(dct.id) if isinstance(dct, ast.Name) else dct
                    if isinstance(npx, ast.Name) and npx.id == base:
                        sym = [0, 1]
                    elif isinstance(npx, ast.Subscript) and isinstance(npx.value, ast.Name) and npx.value.id == base \
                            and isinstance(npx.slice, ast.Constant) and npx.slice.value in (0, 1):
                        sym = [npx.slice.value]
                    else:
                        continue
                    if not isinstance(dct, ast.Dict):
                        continue
                    for v in dct.values:
                        try:
                            order = tuple(ast.literal_eval(v))
                        except Exception:      # noqa: BLE001
                            continue
                        key = (order, len(sym))          # a layout is identified by its ordering and its number of distributed axes
                        if key in out and out[key] != sym:
                            out[key] = None
                        else:
                            out[key] = sym
    except Exception:          # noqa: BLE001
        out = {}
    cache["v"] = out
    return out


def index_provenance(chk, a, fn, rel, q):
    """C-index-provenance: an index that selects a slice of Grid object R (selector of R.get1DSlice/get2DSlice), or that subscripts a
    typed (Local/Global) axis of a table in the statement that advects a slice of R, and that derives (def-use: loop targets over
    zip/enumerate of accessors, locals assigned from them) from a Grid accessor, must derive from an accessor of R itself, or of a Grid
    whose layout (as typed by the caller's environment: ordering + number of distributed axes) distributes that dimension the same way.
    Returns {(table name, axis position): {(receiver, accessor)}} for the sibling comparison."""
    stores = {}
    for n in ast.walk(fn):
        if isinstance(n, ast.Name) and isinstance(n.ctx, ast.Store):
            stores[n.id] = stores.get(n.id, 0) + 1
    params = {x.arg for x in fn.args.args + fn.args.kwonlyargs}
    alias = {}
    for n in ast.walk(fn):
        if isinstance(n, ast.Assign) and len(n.targets) == 1 and isinstance(n.targets[0], ast.Name) and isinstance(n.value, ast.Name) \
                and stores.get(n.targets[0].id) == 1 and n.targets[0].id not in params:
            alias[n.targets[0].id] = n.value.id

    def recv_of(e):
        """-> (identity of the receiver object or None, its grid tag or None)"""
        t = a.node_tags.get(id(e))
        t = t if isinstance(t, tuple) and t and t[0] == "grid" else None
        if isinstance(e, ast.Name):
            nm, seen = e.id, set()
            while nm in alias and nm not in seen:
                seen.add(nm)
                nm = alias[nm]
            if nm in params and stores.get(nm, 0) == 0:
                return nm, t
            return None, t
        return None, t
    tags = {}
    prov = {}

    def expr_prov(e):
        out = set()
        stack = [e]
        while stack:
            n = stack.pop()
            if isinstance(n, ast.Call) and isinstance(n.func, ast.Attribute):
                if n.func.attr in _SLICERS:
                    continue                     # the DATA of a slice carries no index
                if n.func.attr in _GRID_ACCESSORS:
                    r, t = recv_of(n.func.value)
                    if r is None and t is None and not isinstance(n.func.value, ast.Name):
                        r = None
                    if r is not None and t is not None:
                        tags[r] = t
                    out.add((r if (r is not None and t is not None) else "?", n.func.attr))
                    continue
            if isinstance(n, ast.Name) and isinstance(n.ctx, ast.Load) and n.id in prov:
                out |= prov[n.id]
            stack.extend(ast.iter_child_nodes(n))
        return out

    def bind(target, it):
        if isinstance(it, ast.Call) and isinstance(it.func, ast.Name) and not it.keywords:
            if it.func.id == "zip" and isinstance(target, (ast.Tuple, ast.List)) and len(target.elts) == len(it.args) \
                    and not any(isinstance(x, ast.Starred) for x in list(target.elts) + list(it.args)):
                for t_, x_ in zip(target.elts, it.args):
                    bind(t_, x_)
                return
            if it.func.id == "enumerate" and len(it.args) == 1 and isinstance(target, (ast.Tuple, ast.List)) and len(target.elts) == 2:
                bind(target.elts[0], it.args[0])
                bind(target.elts[1], it.args[0])
                return
            if it.func.id in ("list", "tuple", "iter", "reversed", "sorted") and len(it.args) == 1:
                bind(target, it.args[0])
                return
        p_ = expr_prov(it)
        for n in ast.walk(target):
            if isinstance(n, ast.Name):
                prov[n.id] = prov.get(n.id, set()) | p_
    for _ in range(3):
        for n in ast.walk(fn):
            if isinstance(n, (ast.For, ast.comprehension)):
                bind(n.target, n.iter)
            elif isinstance(n, ast.Assign):
                for t_ in n.targets:
                    if isinstance(t_, (ast.Name, ast.Tuple, ast.List)):
                        p_ = expr_prov(n.value)
                        for x in ast.walk(t_):
                            if isinstance(x, ast.Name) and isinstance(x.ctx, ast.Store):
                                prov[x.id] = prov.get(x.id, set()) | p_
            elif isinstance(n, ast.NamedExpr) and isinstance(n.target, ast.Name):
                prov[n.target.id] = prov.get(n.target.id, set()) | expr_prov(n.value)

    def compat(h, r, d):
        """does Grid h distribute dimension d like Grid r (so that its local / global indices along d are those of r's block)?"""
        if h == r:
            return True
        th, tr = tags.get(h), tags.get(r)
        if th is None or tr is None or th[1] is None or tr[1] is None or th[2] is None or tr[2] is None or d is None:
            return None
        oh, orr = list(th[1]), list(tr[1])
        if d not in oh or d not in orr:
            return None
        dh, dr = oh.index(d) < th[2], orr.index(d) < tr[2]
        if dh != dr:
            return False
        if not dh:
            return True
        # both distribute d: the blocks coincide when the same entry of the process grid splits d in both layouts (read from the driver)
        def split(order, ndist, pos):
            if len(order) == 4 and ndist == 2:
                return pos
            sym = process_splits(chk).get((tuple(order), ndist))
            return sym[pos] if sym and pos < len(sym) == ndist else None
        sh, sr = split(oh, th[2], oh.index(d)), split(orr, tr[2], orr.index(d))
        return True if sh is not None and sh == sr else None
    seen = set()
    table_axes = {}

    def judge(x, r, d, node, what):
        ps = prov.get(x.id)
        if not ps:
            return
        key = (x.id, r, d, what)
        if key in seen:
            return
        seen.add(key)
        dn = I.DIMNAMES.get(d, d)
        own = sorted(f"{h}.{acc}" for h, acc in ps)
        multi = stores.get(x.id, 0) > 1 and _binding_loop(node, x) is None
        verdicts = {(h, acc): (None if h == "?" else compat(h, r, d)) for h, acc in ps}
        bad = [k for k, v in verdicts.items() if v is False]
        und = [k for k, v in verdicts.items() if v is None]
        # VIOLATED-soundness: (1) `x` is bound once (one loop target / one store), so the accessor found IS the source of the value used;
        # (2) every source is an accessor of a Grid PARAMETER that is never re-bound, distinct from r, and both objects carry the layout the
        # caller's environment states (ordering + number of distributed axes): along dimension d exactly one of them is distributed, so
        # the index range of one object's block is not that of the other's; (3) a mixture of own and foreign sources, an unresolved
        # receiver, or an unknown layout is UNDECIDED
        if bad and not und and not multi and len(ps) == len(bad):
            h, acc = bad[0]
            th, tr = tags[h], tags[r]
            ok, why = False, (f"`{x.id}` {what} of `{r}`'s slice but derives from `{h}.{acc}(...)`: `{h}` (ordering {tuple(th[1])}, {th[2]} distributed "
                              f"axes) and `{r}` (ordering {tuple(tr[1])}, {tr[2]} distributed axes) do not distribute {dn} alike, so the index is that of "
                              f"`{h}`'s block (it starts at 0 where {dn} is not distributed), not the global/local position of the slice of `{r}` that is "
                              f"advected: with {dn} split over several processes the slice gets the parameters of another {dn} plane")
        elif bad or und:
            ok, why = None, (f"`{x.id}` {what} of `{r}`'s slice; it derives from {', '.join(own)}: that these index `{r}`'s own block along {dn} is "
                             "not established (receiver or layout unresolved, or several sources)")
        else:
            ok, why = True, f"`{x.id}` {what} of `{r}`'s slice and derives from {', '.join(own)} (same object, or same distribution of {dn})"
        chk.ob("C-index-provenance", node, f"{x.id} <- {', '.join(own)} @ {src(node)[:50]}", ok, why, file=rel, func=q)
    simple = (ast.Expr, ast.Assign, ast.AugAssign, ast.AnnAssign, ast.Return)
    for st in ast.walk(fn):
        if not isinstance(st, simple):
            continue
        slicers = []
        for n in ast.walk(st):
            if isinstance(n, ast.Call) and isinstance(n.func, ast.Attribute) and n.func.attr in _SLICERS:
                r, t = recv_of(n.func.value)
                slicers.append((n, r, t))
        if not slicers:
            continue
        for n, r, t in slicers:
            if t is None or t[1] is None:
                continue
            if r is None:
                for k, x in enumerate(n.args):
                    if isinstance(x, ast.Name) and prov.get(x.id):
                        chk.ob("C-index-provenance", n, f"{x.id} @ {src(n)[:50]}", None,
                               f"receiver `{src(n.func.value)[:40]}` of the slice is not a Grid parameter of the step: whose block `{x.id}` indexes is not resolved",
                               file=rel, func=q)
                continue
            tags[r] = t
            for k, x in enumerate(n.args):
                if isinstance(x, ast.Name) and k < len(t[1]):
                    judge(x, r, t[1][k], n, f"selects the local {I.DIMNAMES.get(t[1][k], t[1][k])} position")
        owners = {r for _, r, t in slicers if r is not None and t is not None}
        for n in ast.walk(st):
            if not isinstance(n, ast.Subscript):
                continue
            tb = a.node_tags.get(id(n.value))
            if not I.is_arr(tb):
                continue
            items = n.slice.elts if isinstance(n.slice, ast.Tuple) else [n.slice]
            k = 0
            for it in items:
                if isinstance(it, ast.Constant) and it.value is None:
                    continue
                if k >= len(tb[1]):
                    break
                w = tb[1][k]
                if isinstance(it, ast.Name) and w is not None and w[0] in ("G", "L") and isinstance(w[1], int) and prov.get(it.id):
                    table_axes.setdefault((src(n.value), k), set()).update(prov[it.id])
                    if len(owners) == 1:
                        judge(it, next(iter(owners)), w[1], n,
                              f"subscripts the {'Global' if w[0] == 'G' else 'Local'}({I.DIMNAMES.get(w[1], w[1])}) axis of `{src(n.value)[:30]}` for the parameters")
                k += 1
    return table_axes


def sibling_provenance(chk, rel, qa, qb, node, ta, tb):
    """the two entry points that read the same table must take the index of each of its axes from the same (receiver, accessor)"""
    for key in sorted(set(ta) & set(tb)):
        same = ta[key] == tb[key]
        # never VIOLATED by itself: which sibling is wrong is decided by C-index-provenance
        chk.ob("C-index-provenance", node, f"{key[0]} axis {key[1]}: {qa} / {qb}", True if same else None,
               f"axis {key[1]} of `{key[0]}` is indexed from {sorted('.'.join(p) for p in ta[key])} in both" if same else
               f"axis {key[1]} of `{key[0]}` is indexed from {sorted('.'.join(p) for p in ta[key])} in {qa} but from "
               f"{sorted('.'.join(p) for p in tb[key])} in {qb}: the siblings do not read the same entries of the table", file=rel, func=qb)


# ------------------------------------------------------------------ decisions taken from the local block only
_REDUCERS = {"max", "min", "sum", "mean", "any", "all", "prod", "amax", "amin", "argmax", "argmin", "std", "var", "norm", "ptp",
             "count_nonzero", "median", "average", "nanmax", "nanmin", "nansum", "nanmean", "vdot", "trace"}
_ELEMENTWISE = {"abs", "absolute", "fabs", "real", "imag", "square", "sqrt", "exp", "log", "conj", "conjugate", "isfinite", "isnan",
                "isinf", "sign", "negative", "logical_not", "asarray", "array", "ascontiguousarray", "copy", "astype", "float64"}
_MPI_REDUCTIONS = {"Allreduce", "allreduce", "Reduce", "reduce", "Allgather", "allgather", "Gather", "gather", "Allgatherv", "Gatherv",
                   "Bcast", "bcast", "Scan", "scan"}


def local_extent_dependence(chk, a, fn, rel, q):
    """C-local-extent: a reduction (max, sum, any, norm ...) over an axis that covers only THIS process's block of a distributed
    dimension yields a value that depends on the decomposition.  Such a value must pass through a reduction over the communicator before
    it decides a branch or is stored into an array; here: windows of the reduced operand from engine C's tags (followed through
    element-wise calls, reshape(n0, -1), flatten), def-use propagation over the locals of the function."""
    wenv = {}

    def local_dims(ws):
        out = set()
        for w in ws or ():
            if w is None:
                continue
            if w[0] == "L" and isinstance(w[1], int) and a.ctx.distributed(w[1]):
                out.add(w[1])
            elif w[0] == "MIX":
                out |= local_dims(w[1])
        return out

    def win(e):
        """windows of an array-valued expression or None"""
        t = a.node_tags.get(id(e))
        if I.is_arr(t):
            return list(t[1])
        if isinstance(e, ast.Name):
            return wenv.get(e.id)
        if isinstance(e, ast.Call):
            f = e.func
            name = f.attr if isinstance(f, ast.Attribute) else f.id if isinstance(f, ast.Name) else ""
            isnp = isinstance(f, ast.Attribute) and isinstance(f.value, ast.Name) and f.value.id in ("np", "numpy")
            if name in _ELEMENTWISE and (isnp or isinstance(f, ast.Name)) and e.args:
                return win(e.args[0])
            if isinstance(f, ast.Attribute) and not isnp:
                r = win(f.value)
                if r is None:
                    return None
                if name in _ELEMENTWISE:
                    return r
                if name in ("flatten", "ravel"):
                    return [("MIX", tuple(r))]
                if name == "reshape":
                    args = list(e.args[0].elts) if len(e.args) == 1 and isinstance(e.args[0], (ast.Tuple, ast.List)) else list(e.args)
                    if len(args) == 2 and src(args[1]) == "-1" and _is_len_of_axis0(args[0], r):
                        return [r[0], ("MIX", tuple(r[1:]))]
                    return [("MIX", tuple(r))] * max(1, len(args))
                if name in _REDUCERS:
                    return reduce_(e)[1]
            if isnp and name in _REDUCERS:
                return reduce_(e)[1]
            return None
        if isinstance(e, (ast.BinOp, ast.Compare, ast.BoolOp)):
            ops = [e.left, e.right] if isinstance(e, ast.BinOp) else ([e.left] + list(e.comparators) if isinstance(e, ast.Compare) else list(e.values))
            ws = [w for w in (win(x) for x in ops) if w]
            return max(ws, key=len) if ws else None
        if isinstance(e, ast.UnaryOp):
            return win(e.operand)
        if isinstance(e, ast.Attribute) and e.attr == "T":
            r = win(e.value)
            return list(reversed(r)) if r else None
        return None

    def _is_len_of_axis0(x, r):
        base = None
        if isinstance(x, ast.Subscript) and isinstance(x.value, ast.Attribute) and x.value.attr == "shape" and src(x.slice) == "0":
            base = x.value.value
        elif isinstance(x, ast.Call) and isinstance(x.func, ast.Name) and x.func.id == "len" and len(x.args) == 1:
            base = x.args[0]
        if base is None:
            return False
        wb = win(base)
        return bool(wb) and wb[0] == r[0]

    events = {}

    def reduce_(e):
        """(local dims removed by this reduction call, windows of its result)"""
        f = e.func
        name = f.attr if isinstance(f, ast.Attribute) else f.id
        isnp = isinstance(f, ast.Attribute) and (src(f.value) in ("np", "numpy", "np.linalg", "numpy.linalg"))
        operand = e.args[0] if isnp and e.args else (f.value if isinstance(f, ast.Attribute) and not isnp else None)
        if operand is None:
            return set(), None
        ws = win(operand)
        if not ws:
            return set(), None
        ax = [k.value for k in e.keywords if k.arg == "axis"]
        pos = e.args[1:] if isnp else e.args
        axis = ax[0] if ax else (pos[0] if pos else None)
        if axis is None:
            removed, rest = ws, []
        elif isinstance(axis, ast.Constant) and isinstance(axis.value, int) and -len(ws) <= axis.value < len(ws):
            k = axis.value % len(ws)
            removed, rest = [ws[k]], ws[:k] + ws[k + 1:]
        elif isinstance(axis, ast.UnaryOp) and isinstance(axis.op, ast.USub) and isinstance(axis.operand, ast.Constant) \
                and isinstance(axis.operand.value, int) and axis.operand.value <= len(ws):
            k = len(ws) - axis.operand.value
            removed, rest = [ws[k]], ws[:k] + ws[k + 1:]
        else:
            return set(), None
        dims = local_dims(removed)
        if dims:
            events[id(e)] = (e, dims, operand)
        return dims, rest

    # pass 1: windows of locals, reductions
    order = [n for n in ast.walk(fn) if isinstance(n, (ast.Assign, ast.AugAssign))]
    order.sort(key=lambda n: (n.lineno, n.col_offset))
    for _ in range(2):
        for st in order:
            if isinstance(st, ast.Assign) and len(st.targets) == 1 and isinstance(st.targets[0], ast.Name):
                w = win(st.value)
                if w:
                    wenv[st.targets[0].id] = w
    for n in ast.walk(fn):
        if isinstance(n, ast.Call):
            nm = n.func.attr if isinstance(n.func, ast.Attribute) else n.func.id if isinstance(n.func, ast.Name) else ""
            if nm in _REDUCERS and id(n) not in events:
                reduce_(n)
    if not events:
        chk.ob("C-local-extent", fn, f"{q}: reductions over local blocks", True,
               "no value is obtained by reducing over this process's block of a distributed dimension", file=rel, func=q, nontrivial=False)
        return
    # pass 2: taint
    tainted = {}

    def sources(e):
        out = []
        for x in ast.walk(e):
            if id(x) in events:
                out.append(events[id(x)])
            elif isinstance(x, ast.Name) and isinstance(x.ctx, ast.Load) and x.id in tainted:
                out += tainted[x.id]
        return out
    for _ in range(2):
        for st in order:
            tg = st.targets[0] if isinstance(st, ast.Assign) else st.target
            got = sources(st.value)
            if got:
                for x in ast.walk(tg):
                    if isinstance(x, ast.Name) and isinstance(x.ctx, ast.Store):
                        tainted[x.id] = list({id(g[0]): g for g in tainted.get(x.id, []) + got}.values())
    # values handed to a reduction over the communicator are made global there
    for n in ast.walk(fn):
        if isinstance(n, ast.Call) and isinstance(n.func, ast.Attribute) and n.func.attr in _MPI_REDUCTIONS:
            for x in ast.walk(n):
                if isinstance(x, ast.Name) and x.id in tainted:
                    tainted.pop(x.id)
                if id(x) in events:
                    events.pop(id(x))
    # a locally reduced value handed to a function this analysis does not know (a helper that may reduce it over the communicator, a
    # method of another object) may come back global: VIOLATED below assumes that no such call consumes it
    laundered = []
    for n in ast.walk(fn):
        if isinstance(n, ast.Call) and id(n) not in events:
            f_ = n.func
            nm = f_.attr if isinstance(f_, ast.Attribute) else f_.id if isinstance(f_, ast.Name) else ""
            isnp_ = isinstance(f_, ast.Attribute) and src(f_.value) in ("np", "numpy", "np.linalg", "numpy.linalg", "math")
            builtin = isinstance(f_, ast.Name) and nm in ("abs", "float", "int", "bool", "max", "min", "sum", "len", "print", "range", "round", "my_print")
            method_of_value = isinstance(f_, ast.Attribute) and not isnp_ and (nm in _REDUCERS or nm in _ELEMENTWISE or nm in ("reshape", "flatten", "ravel", "fill", "item"))
            if isnp_ or builtin or method_of_value or nm in _MPI_REDUCTIONS:
                continue
            args_ = list(n.args) + [k.value for k in n.keywords]
            if any((isinstance(x, ast.Name) and x.id in tainted) or id(x) in events for a_ in args_ for x in ast.walk(a_)):
                laundered.append(n)
    sinks = []
    quiet = {"print", "my_print", "warn", "warning", "info", "debug", "log", "write", "flush"}

    def effectful(stmts):
        """does the branch change data or control (anything but messages and aborting)?"""
        for s_ in stmts:
            for x in ast.walk(s_):
                if isinstance(x, (ast.Assign, ast.AugAssign, ast.Continue, ast.Break, ast.Return)):
                    return True
                if isinstance(x, ast.Expr) and isinstance(x.value, ast.Call):
                    nm = x.value.func.attr if isinstance(x.value.func, ast.Attribute) else x.value.func.id if isinstance(x.value.func, ast.Name) else ""
                    if nm not in quiet:
                        return True
        return False
    for n in ast.walk(fn):
        if isinstance(n, ast.If) and not effectful(n.body) and not effectful(n.orelse):
            continue
        if isinstance(n, (ast.If, ast.While, ast.IfExp)):
            got = sources(n.test)
            if got:
                sinks.append((n, f"decides `{'if' if not isinstance(n, ast.While) else 'while'} {src(n.test)[:60]}`", got))
        elif isinstance(n, (ast.Assign, ast.AugAssign)):
            tg = n.targets[0] if isinstance(n, ast.Assign) else n.target
            if isinstance(tg, ast.Subscript):
                got = sources(n.value)
                if got:
                    sinks.append((n, f"is stored by `{src(n)[:70]}`", got))
    if not sinks:
        chk.ob("C-local-extent", fn, f"{q}: reductions over local blocks", True,
               "values reduced over the local block neither decide a branch nor are stored before a reduction over the communicator",
               file=rel, func=q, nontrivial=False)
        return
    seen = set()
    for node, what, got in sinks:
        got = list({id(g[0]): g for g in got}.values())
        key = tuple(sorted(id(g[0]) for g in got))
        if key in seen:
            continue
        seen.add(key)
        reds = "; ".join(f"`{src(c)[:70]}` reduces over the local block of {', '.join(I.DIMNAMES.get(d, str(d)) for d in sorted(dims))} "
                         f"(operand `{src(op)[:50]}`)" for c, dims, op in got)
        verdict, extra = False, ""
        if laundered:
            verdict, extra = None, (f" - not decided: the reduced value is handed to `{src(laundered[0])[:60]}`, which this analysis does not follow "
                                    "(it may reduce over the communicator)")
        elif isinstance(node, (ast.Assign, ast.AugAssign)):
            # a store is a sink only when the array written is field data (typed by engine C as a block / slice of a grid); a work
            # array or an attribute may be reduced over the communicator elsewhere
            tg_ = node.targets[0] if isinstance(node, ast.Assign) else node.target
            tb_ = a.node_tags.get(id(tg_.value)) if isinstance(tg_, ast.Subscript) else None
            reduced_later = any(isinstance(c_, ast.Call) and isinstance(c_.func, ast.Attribute) and c_.func.attr in _MPI_REDUCTIONS and
                                any(src(x) == src(tg_.value) for a_ in c_.args for x in ast.walk(a_)) for c_ in ast.walk(fn)) if isinstance(tg_, ast.Subscript) else False
            if reduced_later:
                continue
            if not (I.is_arr(tb_) and any(w_ is not None and w_[0] in ("G", "L") for w_ in tb_[1])):
                verdict, extra = None, " - not decided: the array written is not typed as field data (it may be reduced over the communicator later)"
        chk.ob("C-local-extent", node, src(got[0][0])[:80], verdict,
               f"{reds}: only the part of the distributed dimension held by this process enters, and no reduction over the communicator follows; "
               f"the result {what}, so what is computed for a slice depends on which other slices share its process - the global field differs "
               "between process grids" + extra, file=rel, func=q)


def local_position_decisions(chk, a, fn, rel, q):
    """C-local-extent for constructors: the VALUES found at fixed positions of this process's block (`x[0]`, `x[-1]` of an array whose
    axis engine C typed Local(d), d a dimension the layout may distribute) are compared WITH EACH OTHER and the outcome decides a
    branch that changes data (which tables are built, how many rows they have).  What such a comparison establishes (the profile is
    flat / monotonic / symmetric on the block) is a property of THIS block only: another decomposition cuts the same profile elsewhere
    and takes the other branch, so the tables - and the results - depend on the process grid.
    VIOLATED only when ALL of this is established: (1) the test reads at least two samples at different literal positions of Local(d)
    windows of the same d (tags of engine C at the subscripts; locals followed through single plain assignments); (2) every other
    name in the test is a numpy / math namespace or a literal tolerance: nothing global enters the decision; (3) no operand passes through a
    reduction over the communicator or an unknown call; (4) a branch of the conditional assigns, returns or calls (messages and
    `raise` are no effect).  A test that mixes local samples with other data is UNDECIDED; one sample alone (a position test
    against a global bound) is no subject of this rule."""
    def sample(e):
        """(dimension, literal position) when `e` is `X[c]` / `X[c, ...]` with a literal c on a Local axis of a distributed dimension"""
        if not isinstance(e, ast.Subscript):
            return None
        t = a.node_tags.get(id(e.value))
        if not I.is_arr(t) or not t[1]:
            return None
        items = list(e.slice.elts) if isinstance(e.slice, ast.Tuple) else [e.slice]
        for k, it in enumerate(items[:len(t[1])]):
            w = t[1][k]
            if isinstance(it, ast.Slice) or (isinstance(it, ast.Constant) and it.value is Ellipsis):
                if isinstance(it, ast.Constant):
                    return None
                continue
            ti = a.node_tags.get(id(it))
            if w is not None and w[0] == "L" and isinstance(w[1], int) and a.ctx.distributed(w[1]) \
                    and isinstance(ti, tuple) and ti and ti[0] == "lit" and isinstance(ti[1], int):
                return (w[1], ti[1])
        return None

    single = {}
    counts = {}
    for st in ast.walk(fn):
        if isinstance(st, (ast.Assign, ast.AugAssign, ast.AnnAssign, ast.For, ast.NamedExpr, ast.comprehension)):
            tg = st.targets if isinstance(st, ast.Assign) else [st.target]
            for t_ in tg:
                for x in ast.walk(t_):
                    if isinstance(x, ast.Name):
                        counts[x.id] = counts.get(x.id, 0) + 1
            if isinstance(st, ast.Assign) and len(st.targets) == 1 and isinstance(st.targets[0], ast.Name):
                single[st.targets[0].id] = st.value
    single = {k: v for k, v in single.items() if counts.get(k) == 1}

    def parts(e, depth=0):
        """(samples, foreign names, opaque?) of a scalar expression, locals written out"""
        sm = sample(e)
        if sm is not None:
            return [(sm, e)], [], False
        if isinstance(e, ast.Name):
            if e.id in single and depth < 6:
                return parts(single[e.id], depth + 1)
            return [], [e.id], False
        if isinstance(e, ast.Constant):
            return [], [], False
        if isinstance(e, ast.Call):
            f = e.func
            known = (isinstance(f, ast.Attribute) and src(f.value) in ("np", "numpy", "math") and f.attr in
                     ("isclose", "allclose", "abs", "absolute", "fabs", "equal", "not_equal", "array_equal", "float64", "subtract")) or \
                    (isinstance(f, ast.Name) and f.id in ("abs", "float", "bool"))
            out = ([], [], not known)
            for x in list(e.args) + [k.value for k in e.keywords]:
                r = parts(x, depth)
                out = (out[0] + r[0], out[1] + r[1], out[2] or r[2])
            return out
        if isinstance(e, (ast.BinOp, ast.Compare, ast.BoolOp, ast.UnaryOp)):
            kids = [e.left, e.right] if isinstance(e, ast.BinOp) else [e.left] + list(e.comparators) if isinstance(e, ast.Compare) \
                else list(e.values) if isinstance(e, ast.BoolOp) else [e.operand]
            out = ([], [], False)
            for x in kids:
                r = parts(x, depth)
                out = (out[0] + r[0], out[1] + r[1], out[2] or r[2])
            return out
        return [], [src(e)[:30]], True

    def effectful(stmts):
        for s_ in stmts:
            for x in ast.walk(s_):
                if isinstance(x, (ast.Assign, ast.AugAssign, ast.Return)):
                    return True
                if isinstance(x, ast.Expr) and isinstance(x.value, ast.Call):
                    nm = x.value.func.attr if isinstance(x.value.func, ast.Attribute) else getattr(x.value.func, "id", "")
                    if nm not in ("print", "my_print", "warn", "warning", "info", "debug", "log", "write", "flush"):
                        return True
        return False

    found = False
    for n in ast.walk(fn):
        if not isinstance(n, (ast.If, ast.While, ast.IfExp)):
            continue
        smp, foreign, opaque = parts(n.test)
        by_dim = {}
        for (d, pos), node in smp:
            by_dim.setdefault(d, {}).setdefault(pos, node)
        dims = [d for d, ps in by_dim.items() if len(ps) >= 2]
        if not dims:
            continue
        if isinstance(n, ast.If) and not effectful(n.body) and not effectful(n.orelse):
            continue
        found = True
        d = dims[0]
        dn = I.DIMNAMES.get(d, d)
        nodes = [by_dim[d][p_] for p_ in sorted(by_dim[d])]
        what = f"{q}: `{src(n.test)[:60]}` decided from this process's block of {dn}"
        if foreign or opaque:
            chk.ob("C-local-extent", n, what, None,
                   f"the test compares the values at positions {sorted(by_dim[d])} of the local block of {dn} "
                   f"({', '.join('`' + src(x)[:40] + '`' for x in nodes)}) but also reads "
                   f"{sorted(set(foreign)) if foreign else 'the result of a call this rule does not follow'}: whether the decision is the "
                   "same on every process is not decided", file=rel, func=q)
            continue
        chk.ob("C-local-extent", n, what, False,
               f"`{src(n.test)[:80]}` compares the values at positions {sorted(by_dim[d])} of THIS process's block of {dn} "
               f"({', '.join('`' + src(x)[:50] + '`' for x in nodes)}) with each other, nothing else enters the test, and its outcome "
               f"decides which statements build the object's tables. What the comparison establishes holds for the block only: a profile "
               f"whose values coincide at the two ends of one process's range of {dn} but not in between (legal: the profile is a "
               f"function of {dn} supplied by the constants object) takes one branch there, while a process grid that cuts {dn} elsewhere "
               "takes the other branch: the tables, and with them the results, depend on the decomposition", file=rel, func=q)
    if not found:
        chk.ob("C-local-extent", fn, f"{q}: decisions from values at fixed positions of the local block", True,
               "no data-changing branch is decided by comparing values at fixed positions of this process's block with each other",
               file=rel, func=q, nontrivial=False)


def radius_argument(chk, analyses):
    """the `r` handed to VParallelAdvection.step is the coordinate of the line's own radius"""
    for m, a in analyses.items():
        fn = a.fn
        n = 0
        for c in ast.walk(fn):
            if isinstance(c, ast.Call) and isinstance(c.func, ast.Attribute) and c.func.attr == "step" and src(c.func.value) == "self":
                # the parameters of step as it is defined (the radius is the one named `r`: the reference name; another signature is
                # not followed)
                try:
                    sformals = [x.arg for x in method_table(chk, U.ADV, "VParallelAdvection")["step"][1].args.args if x.arg != "self"]
                except (KeyError, AnalysisError):
                    sformals = ["f", "dt", "c", "r"]
                b = agree.bind_call(c, sformals) or {}
                r = b.get("r")
                t = a.node_tags.get(id(r)) if r is not None else None
                ok = t == ("coord", 0)
                n += 1
                why = "the radius handed to the boundary rule is the r coordinate of the line being advanced" if ok else \
                    f"the value handed to the step as radius is {tname(t) if t else 'unknown'}"
                # VIOLATED only for a value the engine typed as something that is NOT a radius: the coordinate of another dimension or
                # an index; anything else (untyped, a derived quantity) is UNDECIDED
                if not ok and not (isinstance(t, tuple) and ((t[0] == "coord" and t[1] != 0) or t[0] in ("lidx", "gidx"))):
                    ok = None
                elif ok:
                    # ... of the SAME line: the coordinate is taken at the index that selects the slice
                    f_ = b.get("f")
                    sel = f_.args[0] if isinstance(f_, ast.Call) and isinstance(f_.func, ast.Attribute) and f_.func.attr == "get1DSlice" and f_.args else None
                    ok, w2 = coordinate_of_slice(a, fn, c, r, sel, 0)
                    why = w2 or why
                chk.ob("C-coordinate-role", c, f"step(..., r={src(r) if r is not None else '?'}) in {m}", ok, why, file=U.ADV,
                       func=f"VParallelAdvection.{m}")
        if n == 0:
            # the advection loop may live in a sibling grid-level method that this one calls with the grid it received
            # (e.g. gridStep = "all gradients first" + gridStepKeepGradient): the sibling's own obligation covers it
            deleg = [c for c in ast.walk(fn) if isinstance(c, ast.Call) and isinstance(c.func, ast.Attribute)
                     and src(c.func.value) == "self" and c.func.attr in analyses and c.func.attr != m
                     and any(isinstance(x, ast.Name) and x.id == "grid" for x in list(c.args) + [k.value for k in c.keywords])]
            if deleg:
                callee = analyses[deleg[0].func.attr].fn
                formals = [x.arg for x in callee.args.args if x.arg != "self"]
                b = agree.bind_call(deleg[0], formals) or {}
                same = set(b) == set(formals) and all(isinstance(v, ast.Name) and v.id == f for f, v in b.items())
                chk.ob("C-coordinate-role", deleg[0], f"{m} advects through self.{deleg[0].func.attr}(grid, ...)", True if same else None,
                       f"the lines are advanced by `{deleg[0].func.attr}` on the same grid, table and time step; its own step call is typed"
                       if same else f"`{src(deleg[0])}` does not hand its own grid/table/time step on under the same names: cannot decide",
                       file=U.ADV, func=f"VParallelAdvection.{m}")
                continue
            raise AnalysisError(f"C05: no self.step call in VParallelAdvection.{m}")


def poloidal(chk):
    env = {"eta_vals": eta_grid_tag(), "splines": OTHER, "constants": ("constants",), "nulEdge": OTHER,
           "explicitTrap": OTHER, "tol": OTHER}
    attrs, _ = ctor_attrs(chk, U.ADV, "PoloidalAdvection", env)
    cache_tags = {}
    # the per-plane potential splines are distinct objects (a cache written by gridStep and read again later)
    init = chk.func(U.ADV, "PoloidalAdvection.__init__")
    ps = [n for n in ast.walk(init) if isinstance(n, ast.Assign) and src(n.targets[0]) == "self._phiSplines"]
    okc, bad = False, None
    if ps:
        v = ps[0].value
        if isinstance(v, ast.ListComp) and isinstance(v.elt, ast.Call) and src(v.elt.func) == "Spline2D":
            okc = True
        elif isinstance(v, ast.BinOp) and isinstance(v.op, ast.Mult) and (isinstance(v.left, ast.List) or isinstance(v.right, ast.List)) \
                and any(isinstance(x, ast.Call) and src(x.func) == "Spline2D" for side in (v.left, v.right) if isinstance(side, ast.List) for x in side.elts):
            # recognised wrong form: `[Spline2D(...)] * n` is a list of n references to ONE object
            bad = (f"`{src(v)[:70]}` repeats ONE spline object for every z plane: the plane interpolated last overwrites all "
                   "others, so a later gridStep_SplinesUnchanged advects every plane with the last plane's potential")
    chk.pat("C-cache-distinct", ps[0] if ps else init, "self._phiSplines = [Spline2D(...) for each z plane]", okc,
            "one spline object per z plane: the potential splines computed by gridStep survive until gridStep_SplinesUnchanged", bad,
            file=U.ADV, func="PoloidalAdvection.__init__")
    for m in ("gridStep", "gridStep_SplinesUnchanged"):
        fn = chk.func(U.ADV, f"PoloidalAdvection.{m}")
        amb = I.ambient_from_asserts(fn)
        o = amb.get("grid")
        if o is None:
            raise AnalysisError(f"C05: PoloidalAdvection.{m} no longer asserts its layout")
        env2 = {"grid": grid_param(o, 2), "dt": OTHER}
        if m == "gridStep":
            op = amb.get("phi")
            rel_ok = True if op == o[1:] else (False if op is not None else None)
            chk.ob("C-layout-relation", fn, "phi layout = grid layout[1:]", rel_ok,
                   "the potential is required in the grid's layout without v" if rel_ok else
                   (f"the potential is required in layout {op}, which is not the grid's layout {o} without its first dimension: slice j of "
                    "phi is not the plane of slice (i, j) of the grid" if op is not None else
                    "relation between the layouts of grid and phi is no longer asserted"), file=U.ADV, func=f"PoloidalAdvection.{m}")
            env2["phi"] = grid_param(op or o[1:], 1)
        ctx = Ctx(dist_dims=dist_dims(o, 2))
        an = run_method(chk, U.ADV, "PoloidalAdvection", m, env2, ctx, dict(attrs),
                          {"step": {"params": ["f", "dt", "phi", "v"], "req": {}}})
        index_agreement(chk, an, fn, U.ADV, f"PoloidalAdvection.{m}")
        index_provenance(chk, an, fn, U.ADV, f"PoloidalAdvection.{m}")
        local_extent_dependence(chk, an, fn, U.ADV, f"PoloidalAdvection.{m}")
        for n_ in ast.walk(fn):
            if isinstance(n_, ast.Subscript) and src(n_.value) == "self._phiSplines":
                cache_tags.setdefault(m, []).append((n_, an.node_tags.get(id(n_.slice))))
        # the v handed to step is the coordinate of the slice's own v; the potential spline is the one of the slice's own z plane
        nstep = 0
        for c in ast.walk(fn):
            if not (isinstance(c, ast.Call) and isinstance(c.func, ast.Attribute) and c.func.attr == "step" and src(c.func.value) == "self"):
                continue
            nstep += 1
            try:
                pformals = [x.arg for x in method_table(chk, U.ADV, "PoloidalAdvection")["step"][1].args.args if x.arg != "self"]
            except (KeyError, AnalysisError):
                pformals = ["f", "dt", "phi", "v"]
            b = agree.bind_call(c, pformals) or {}
            vt = an.node_tags.get(id(b["v"])) if "v" in b else None
            problems, bad = [], []
            if vt == ("coord", 3):
                pass
            elif isinstance(vt, tuple) and vt[0] == "coord":
                bad.append(f"the velocity handed to step is {tname(vt)}, not the v coordinate of the slice")
            else:
                problems.append(f"velocity argument `{src(b['v']) if 'v' in b else '?'}` is {tname(vt) if vt else 'not typed'}")
            f_, ph = b.get("f"), b.get("phi")
            zpos = list(o).index(2) if 2 in o else None
            zsel = f_.args[zpos] if isinstance(f_, ast.Call) and isinstance(f_.func, ast.Attribute) and f_.func.attr == "get2DSlice" \
                and src(f_.func.value) == "grid" and zpos is not None and zpos < len(f_.args) else None
            if not (isinstance(ph, ast.Subscript) and src(ph.value) == "self._phiSplines") or zsel is None:
                problems.append(f"slice `{src(f_) if f_ is not None else '?'}` / potential `{src(ph) if ph is not None else '?'}` not recognised")
            else:
                pt, zt = an.node_tags.get(id(ph.slice)), an.node_tags.get(id(zsel))
                if not (isinstance(pt, tuple) and pt[0] in ("lidx", "gidx")) or not (isinstance(zt, tuple) and zt[0] in ("lidx", "gidx")):
                    problems.append(f"index spaces of `{src(ph)}` ({tname(pt) if pt else '?'}) and of the z selector `{src(zsel)}` "
                                    f"({tname(zt) if zt else '?'}) not determined")
                elif pt[1] != 2:
                    bad.append(f"the potential spline is selected by `{src(ph.slice)}`, an index along {I.DIMNAMES.get(pt[1], pt[1])}, while the "
                               f"slice is the z plane `{src(zsel)}`: planes are advected with the potential of another plane")
                elif src(ph.slice) != src(zsel) and _binding_loop(c, ph.slice) is not _binding_loop(c, zsel):
                    problems.append(f"`{src(ph.slice)}` and `{src(zsel)}` are not bound by the same loop: same plane not established")
            # VIOLATED-soundness: `bad` only holds engine-typed facts (velocity argument typed as the coordinate of another dimension; spline
            # selected by an index typed along another dimension than z); anything untyped / not recognised is in `problems` (UNDECIDED)
            okc = False if bad else (None if problems else True)
            chk.ob("C-coordinate-role", c, f"step(slice(i, j), dt, phiSplines[j], v) in {m}", okc,
                   "the velocity is the slice's own v coordinate and the potential spline is the one of the slice's own z plane"
                   if okc else "; ".join(bad + problems), file=U.ADV, func=f"PoloidalAdvection.{m}")
        if nstep == 0:
            # the stepping loop may live in the sibling grid-level method, called with the grid and time step this one received
            # (gridStep = "potential splines of all planes first" + gridStep_SplinesUnchanged): the sibling's own obligation covers it
            sibs = [x for x in ("gridStep", "gridStep_SplinesUnchanged") if x != m]
            deleg = [c for c in ast.walk(fn) if isinstance(c, ast.Call) and isinstance(c.func, ast.Attribute) and src(c.func.value) == "self"
                     and c.func.attr in sibs]
            okd, whyd = None, "no call of self.step found (idiom changed)"
            if len(deleg) == 1:
                callee = chk.func(U.ADV, f"PoloidalAdvection.{deleg[0].func.attr}")
                formals = [x.arg for x in callee.args.args if x.arg != "self"]
                b = agree.bind_call(deleg[0], formals) or {}
                own = {x.arg for x in fn.args.args}
                same = set(b) == set(formals) and all(isinstance(v_, ast.Name) and v_.id == f_ and f_ in own for f_, v_ in b.items())
                uncond = parent(parent(deleg[0])) is fn if isinstance(parent(deleg[0]), ast.Expr) else False
                if same and uncond:
                    okd, whyd = True, (f"the slices are advanced by `{deleg[0].func.attr}` on the same grid and time step (called unconditionally at "
                                       "the end of the method); its own step call is typed")
                else:
                    whyd = f"`{src(deleg[0])}` does not hand this method's own grid / time step on unconditionally: cannot decide"
            chk.ob("C-coordinate-role", deleg[0] if len(deleg) == 1 else fn, f"self.step(...) in {m}", okd, whyd, file=U.ADV,
                   func=f"PoloidalAdvection.{m}")
    # writer (gridStep) and reader (gridStep_SplinesUnchanged) of the cache use the same index space
    tags = {(m, I.tname(t) if t else "?") for m, lst in cache_tags.items() for _, t in lst}
    kinds = {t for _, t in tags}
    # 'not typed' is recognised on the VALUE (tag "other": OTHER and the engine's UNK for unmodelled constructs), not on its printed text
    untyped = any((not t) or (isinstance(t, tuple) and t and t[0] == "other") for lst in cache_tags.values() for _, t in lst)
    node = cache_tags.get("gridStep_SplinesUnchanged", [(None, None)])[0][0] or chk.func(U.ADV, "PoloidalAdvection.gridStep")
    if len(cache_tags) == 2 and not untyped:
        # VIOLATED-soundness: relational (writer vs reader of the cache); decided only when every subscript of the cache in both methods was
        # typed by engine C ('?' / other -> UNDECIDED branch below)
        ok = len(kinds) == 1
        chk.ob("C-cache-index-space", node, "self._phiSplines[...] in gridStep / gridStep_SplinesUnchanged", ok,
               f"the cache is written and read with {sorted(kinds)[0]}" if ok else
               f"the cache is indexed inconsistently: {sorted(tags)} - after gridStep, gridStep_SplinesUnchanged reads the splines of other "
               "z planes whenever z is distributed", file=U.ADV, func="PoloidalAdvection.gridStep_SplinesUnchanged")
    else:
        chk.ob("C-cache-index-space", node, "self._phiSplines[...] in gridStep / gridStep_SplinesUnchanged", None,
               f"index spaces of the cache subscripts not determined: {sorted(tags)}", file=U.ADV,
               func="PoloidalAdvection.gridStep_SplinesUnchanged")
    return attrs


def _binding_loop(at, expr):
    """innermost loop around `at` whose target binds a name of `expr` (None when there is none)"""
    names = {n.id for n in ast.walk(expr) if isinstance(n, ast.Name)}
    p_ = parent(at)
    while p_ is not None and not isinstance(p_, (ast.FunctionDef, ast.ClassDef)):
        if isinstance(p_, ast.For) and names & {n.id for n in ast.walk(p_.target) if isinstance(n, ast.Name)}:
            return p_
        p_ = parent(p_)
    return None


def range_slices_as_index(fn):
    """private copy of `fn` in which `A[R.start:R.stop]`, with R a local bound once to `<grid>.getGlobalIdxVals(k)` (the contiguous
    range of global indices of the local block), is written `A[R]`: selecting with the bounds of a unit-step range selects the
    same rows as indexing with the range itself, which is the form engine C types"""
    import copy
    defs = {}
    for n in ast.walk(fn):
        if isinstance(n, ast.Name) and isinstance(n.ctx, ast.Store):
            defs[n.id] = defs.get(n.id, 0) + 1
    ranges = {st.targets[0].id for st in ast.walk(fn) if isinstance(st, ast.Assign) and len(st.targets) == 1 and isinstance(st.targets[0], ast.Name)
              and defs.get(st.targets[0].id) == 1 and isinstance(st.value, ast.Call) and isinstance(st.value.func, ast.Attribute)
              and st.value.func.attr == "getGlobalIdxVals"}

    def hit(n):
        return isinstance(n, ast.Subscript) and isinstance(n.slice, ast.Slice) and n.slice.step is None \
            and isinstance(n.slice.lower, ast.Attribute) and isinstance(n.slice.upper, ast.Attribute) \
            and n.slice.lower.attr == "start" and n.slice.upper.attr == "stop" and isinstance(n.slice.lower.value, ast.Name) \
            and isinstance(n.slice.upper.value, ast.Name) and n.slice.lower.value.id == n.slice.upper.value.id and n.slice.lower.value.id in ranges
    if not any(hit(n) for n in ast.walk(fn)):
        return fn
    par = parent(fn)
    new = copy.deepcopy(fn, {id(par): par} if par is not None else {})
    for n in ast.walk(new):
        if hit(n):
            n.slice = ast.copy_location(ast.Name(id=n.slice.lower.value.id, ctx=ast.Load()), n.slice)
    for n in ast.walk(new):
        for ch in ast.iter_child_nodes(n):
            ch._parent = n
    new._parent = par
    return new


def density(chk):
    env = {"eta_grid": eta_grid_tag(), "constants": ("constants",), "degree": OTHER, "bspline": OTHER}
    attrs, _ = ctor_attrs(chk, U.POISSON, "DensityFinder", env)
    fe = attrs.get("_fEq")
    # whatever index range the table covers, the kernel call must pair its rows with the rows of the grid block (C-coindexed-axes)
    ok = True if I.is_arr(fe) and all(w is not None and w[0] in ("G", "L") for w in fe[1]) else None
    chk.ob("C-table-roles", chk.func(U.POISSON, "DensityFinder.__init__"), "self._fEq", ok,
           f"equilibrium table is {tname(fe)}" if ok else f"axes of the table not established: {tname(fe)}", file=U.POISSON,
           func="DensityFinder.__init__")
    res = {}
    for m in ("getPerturbedRho", "getRho"):
        fn = chk.func(U.POISSON, f"DensityFinder.{m}")
        fn = range_slices_as_index(fn)
        amb = I.ambient_from_asserts(fn)
        og, orho = amb.get("grid"), amb.get("rho")
        if og is None or orho is None:
            raise AnalysisError(f"C05: DensityFinder.{m} no longer asserts the layouts of grid and rho")
        ctx = Ctx(dist_dims=dist_dims(og, 2))
        a = IS2(chk, U.POISSON, f"DensityFinder.{m}", fn, {"grid": grid_param(og, 2), "rho": grid_param(orho, 2)}, ctx, dict(attrs))
        chk.functions.add(f"{U.POISSON}:DensityFinder.{m}")
        a.run()
        local_extent_dependence(chk, a, fn, U.POISSON, f"DensityFinder.{m}")
        # kernel call: co-indexed axes must cover the same index ranges
        kname = "get_perturbed_rho" if m == "getPerturbedRho" else "get_rho"
        calls = [c for c in ast.walk(fn) if isinstance(c, ast.Call) and isinstance(c.func, ast.Name) and c.func.id == kname]
        if len(calls) != 1:
            raise AnalysisError(f"C05: kernel call {kname} not found in DensityFinder.{m}")
        c = calls[0]
        kfn = chk.func(U.PTOOLS, kname)
        formals = [x.arg for x in kfn.args.args]
        b = agree.bind_call(c, formals)
        tags = {f: a.ev(v) for f, v in (b or {}).items()}
        co = coindexed_axes(kfn)
        for lv, uses in co.items():
            wins = []
            for (an, ax) in uses:
                t = tags.get(an)
                if I.is_arr(t) and ax < len(t[1]):
                    wins.append((an, ax, t[1][ax]))
            known = [(an, ax, w) for an, ax, w in wins if w is not None and w[0] in ("G", "L", "P")]
            bad = None
            for x in known[1:]:
                w0, w1 = known[0][2], x[2]
                if w0 == w1:
                    continue
                if w0[1] == w1[1] and {w0[0], w1[0]} == {"G", "L"} and not ctx.distributed(w0[1]):
                    continue
                bad = (known[0], x)
            stenc = [(an, ax, w) for an, ax, w in wins if w is not None and w[0] in ("S",)]
            if known:
                # VIOLATED-soundness: relational - two arrays subscripted by the same bare loop variable of the kernel have engine-typed windows that
                # differ (Local vs Global of a distributed dimension, or different dimensions); untyped arguments are left out of `known`
                chk.ob("C-coindexed-axes", c, f"{kname}: loop index `{lv}` over " + ", ".join(f"{an}[{ax}]" for an, ax, _ in wins),
                       False if bad else (None if stenc and len(known) >= 1 and any(w[0] == "S" for _, _, w in wins) else True),
                       ("all arrays indexed by this loop variable cover the same index range: " +
                        ", ".join(f"{an}[{ax}]={I.wname(w)}" for an, ax, w in wins)) if not bad else
                       f"`{bad[0][0]}` axis {bad[0][1]} is {I.wname(bad[0][2])} but `{bad[1][0]}` axis {bad[1][1]} is {I.wname(bad[1][2])}: "
                       "row i of one array does not belong to row i of the other", file=U.POISSON, func=f"DensityFinder.{m}")
        res[m] = tags
    return attrs, res


def coindexed_axes(kfn: ast.FunctionDef):
    """{loop var: [(array param, axis), ...]} from subscripts `A[i, j, ...]` with bare loop variables"""
    params = {a.arg for a in kfn.args.args}
    loopvars = set()
    for n in ast.walk(kfn):
        if isinstance(n, ast.For) and isinstance(n.target, ast.Name):
            loopvars.add(n.target.id)
    out = {}
    for n in ast.walk(kfn):
        if isinstance(n, ast.Subscript) and isinstance(n.value, ast.Name) and n.value.id in params:
            items = n.slice.elts if isinstance(n.slice, ast.Tuple) else [n.slice]
            for k, it in enumerate(items):
                if isinstance(it, ast.Name) and it.id in loopvars:
                    if (n.value.id, k) not in out.setdefault(it.id, []):
                        out[it.id].append((n.value.id, k))
    return out


def solver(chk):
    """DiffEqSolver / QuasiNeutralitySolver: global-mode tables indexed by the global mode index"""
    O = orders(chk)
    o_ms = O["mode_solve"]
    o_v2 = O["v_parallel_2d"]
    ctx = Ctx(dist_dims=dist_dims(o_ms, 2))
    env = {"degree": OTHER, "rspline": OTHER, "nr": ("size", G(0)), "nTheta": ("size", G(1)),
           "lNeumannIdx": OTHER, "uNeumannIdx": OTHER}
    attrs, _ = ctor_attrs(chk, U.POISSON, "DiffEqSolver", env)
    for k in ("_mVals", "_coeff_range", "_stiffness_range"):
        if k != "_mVals" and k not in attrs:
            continue            # a per-mode table the class no longer keeps: nothing to type
        t = attrs.get(k)
        ok = True if I.is_arr(t) and t[1] and t[1][0] is not None and t[1][0][0] in ("G", "L") and t[1][0][1] in (1, None) else None
        chk.ob("C-table-roles", chk.func(U.POISSON, "DiffEqSolver.__init__"), f"self.{k}", ok,
               f"per-mode table is {tname(t)}: its subscripts are typed against this axis (C-window)" if ok else f"axis of the table not established: {tname(t)}",
               file=U.POISSON, func="DiffEqSolver.__init__")
    sm, _ = summary_of(chk, U.POISSON, "DiffEqSolver", "_solveMode", dict(attrs), ctx,
                         {"phi": grid_param(o_ms, 2), "rho": grid_param(o_ms, 2)})
    smfn = chk.func(U.POISSON, "DiffEqSolver._solveMode")
    idxp = [p_ for p_ in sm["params"] if isinstance(sm["req"].get(p_), tuple) and sm["req"][p_][0] in ("lidx", "gidx")]
    ok = True if idxp else None
    chk.ob("C-table-roles", smfn, f"_solveMode({', '.join(sm['params'])})", ok,
           "; ".join(f"`{p_}` must be {tname(sm['req'][p_])}" for p_ in idxp) + " (the callers are checked against this at each call: C-slice-param)"
           if ok else f"index requirements not established: { {k: tname(v) for k, v in sm['req'].items()} }", file=U.POISSON,
           func="DiffEqSolver._solveMode")
    smf, _ = summary_of(chk, U.POISSON, "DiffEqSolver", "_solveModeFunc", dict(attrs), ctx, {"phi": grid_param(o_ms, 2), "rho": OTHER})
    for cls, m in (("DiffEqSolver", "solveEquation"), ("DiffEqSolver", "solveEquationForFunction"),
                   ("QuasiNeutralitySolver", "solveEquation")):
        # an inherited definition is analysed as the derived class runs it: template methods it calls resolve to the overrides
        owner_q, fn = resolve_method(chk, U.POISSON, cls, m)
        summ = {"_solveMode": sm, "_solveModeFunc": smf}
        a = IS2(chk, U.POISSON, f"{cls}.{m}", fn, {"phi": grid_param(o_ms, 2), "rho": grid_param(o_ms, 2) if m != "solveEquationForFunction" else OTHER},
               ctx, dict(attrs), summ)
        a.methods = {k: v[1] for k, v in method_table(chk, U.POISSON, cls).items() if k not in summ and v[1] is not fn}
        chk.functions.add(f"{U.POISSON}:{cls}.{m}")
        a.run()
        local_extent_dependence(chk, a, fn, U.POISSON, f"{cls}.{m}")
    for m in ("getModes", "findPotential"):
        fn = chk.func(U.POISSON, f"DiffEqSolver.{m}")
        amb = I.ambient_from_asserts(fn)
        nm = "rho" if m == "getModes" else "phi"
        o = amb.get(nm)
        if o is None:
            raise AnalysisError(f"C05: DiffEqSolver.{m} no longer asserts its layout")
        run_method(chk, U.POISSON, "DiffEqSolver", m, {nm: grid_param(o, 2)}, Ctx(dist_dims=dist_dims(o, 2)), {})
    return attrs


def initialisers(chk):
    O = orders(chk)
    want = {"r": 0, "rVec": 0, "theta": 1, "z": 2, "zVec": 2, "vPar": 3}
    for fname, lname, kname in (("initialise_flux_surface", "flux_surface", "init_f_flux"),
                                ("initialise_poloidal", "poloidal", "init_f_pol"),
                                ("initialise_v_parallel", "v_parallel", "init_f_vpar")):
        o = O[lname]
        fn = chk.func(U.INITIALISER, fname)
        ctx = Ctx(dist_dims=dist_dims(o, 2))
        a = IS2(chk, U.INITIALISER, fname, fn, {"grid": grid_param(o, 2), "constants": ("constants",)}, ctx, {})
        a.run()
        calls = [c for c in ast.walk(fn) if isinstance(c, ast.Call) and isinstance(c.func, ast.Name) and c.func.id == kname]
        if len(calls) != 1:
            raise AnalysisError(f"C05: kernel call {kname} not found in {fname}")
        c = calls[0]
        kfn = chk.func(U.INITF, kname)
        formals = [x.arg for x in kfn.args.args]
        b = agree.bind_call(c, formals) or {}
        # bind loop variables as in the loops
        a2 = IS2(_Mute(), U.INITIALISER, fname, fn, {"grid": grid_param(o, 2), "constants": ("constants",)}, ctx, {})
        tags = eval_at_call(a2, fn, c, b)
        for f, t in tags.items():
            if f in want:
                d = None
                if isinstance(t, tuple) and t[0] == "coord":
                    d = t[1]
                elif I.is_arr(t) and t[2] is not None and t[2][0] == "coord":
                    d = t[2][1]
                # VIOLATED-soundness: the kernel parameter is identified by its (reference) NAME r/theta/z/vPar; the actual was typed by engine C as
                # the coordinate of another dimension.  A renamed parameter is not in `want` (no obligation), an untyped actual is UNDECIDED
                chk.ob("C-coordinate-role", c, f"{kname}: {f} <- {src(b[f])}", d == want[f] if d is not None else None,
                       f"parameter `{f}` receives the {I.DIMNAMES[want[f]]} coordinate(s) of the slice" if d == want[f] else
                       f"parameter `{f}` receives {tname(t)}", file=U.INITIALISER, func=fname)
        # surface axes = last two dims of the layout, in the kernel's (first, second) loop order
        roles(chk, U.INITIALISER, fname, c, formals, {}, const_recv="constants", callee=kfn)
        co = coindexed_axes(kfn)


def eval_at_call(a: IS, fn, call, bound):
    """tags of the actuals of `call`, with loop variables bound as at the call"""
    res = {}

    def walk(stmts):
        for st in stmts:
            if isinstance(st, ast.For):
                it = a.ev(st.iter)
                tags = it[1] if isinstance(it, tuple) and it[0] == "iter" else OTHER
                a.bind_loop(st.target, tags)
                walk(st.body)
            elif isinstance(st, ast.Assign):
                v = a.ev(st.value)
                for t in st.targets:
                    a.assign(t, v, st)
            elif isinstance(st, ast.If):
                walk(st.body)
                walk(st.orelse)
            if any(n is call for n in ast.walk(st)) and not isinstance(st, (ast.For, ast.If)):
                for f, v in bound.items():
                    res[f] = a.ev(v)
    walk(fn.body)
    return res


# ------------------------------------------------------------------ driver typestate
OPERATOR_REQUIREMENTS = None


def ambient_of(chk, rel, cls, fn, depth=0):
    """layout requirements asserted by a method, those of same-class methods it hands its own grid parameters to included
    (`solveEquation(phi, rho)` = `self._solveLocalModes(phi, rho, ...)`: the callee's asserts on rho are the caller's)"""
    amb = dict(I.ambient_from_asserts(fn))
    if depth >= 2 or cls is None:
        return amb
    own = {a.arg for a in fn.args.args}
    table = method_table(chk, rel, cls)
    for st in fn.body:
        for c in ([st.value] if isinstance(st, (ast.Expr, ast.Return)) and isinstance(st.value, ast.Call) else []):
            if isinstance(c.func, ast.Attribute) and isinstance(c.func.value, ast.Name) and c.func.value.id == "self" and c.func.attr in table \
                    and table[c.func.attr][1] is not fn:
                callee = table[c.func.attr][1]
                formals = [a.arg for a in callee.args.args if a.arg != "self"]
                b = agree.bind_call(c, formals) or {}
                sub = ambient_of(chk, rel, cls, callee, depth + 1)
                for f_, a_ in b.items():
                    if isinstance(a_, ast.Name) and a_.id in own:
                        for k_, v_ in sub.items():
                            if k_ == f_ or k_.startswith(f_ + "["):
                                amb.setdefault(a_.id + k_[len(f_):], v_)
    return amb


def ordered_actuals(chk, c, cls, m):
    """the actual arguments of an operator call in the order of the callee's parameters (keyword arguments bound by name); the
    positional list when the callee is not found"""
    rel = {"FluxSurfaceAdvection": U.ADV, "VParallelAdvection": U.ADV, "PoloidalAdvection": U.ADV, "DensityFinder": U.POISSON,
           "QuasiNeutralitySolver": U.POISSON, "DiffEqSolver": U.POISSON, "DiagnosticCollector": U.DIAG}.get(cls)
    if not c.keywords or rel is None:
        return list(c.args)
    try:
        fn = method_table(chk, rel, cls).get(m, (None, None))[1]
    except AnalysisError:
        fn = None
    if fn is None:
        return list(c.args)
    static = any(isinstance(d, ast.Name) and d.id == "staticmethod" for d in fn.decorator_list)
    formals = [a.arg for a in fn.args.args][0 if static else 1:]
    b = agree.bind_call(c, formals)
    if b is None:
        return list(c.args)
    out = []
    for f_ in formals:
        if f_ not in b:
            break
        out.append(b[f_])
    return out


def callee_requirements(chk):
    """layout each grid-taking operator requires, read from its asserts"""
    req = {}
    O = orders(chk)
    for rel, q, params in (
            (U.ADV, "FluxSurfaceAdvection.gridStep", ["grid"]),
            (U.ADV, "PoloidalAdvection.gridStep", ["grid", "phi"]),
            (U.ADV, "PoloidalAdvection.gridStep_SplinesUnchanged", ["grid"]),
            (U.POISSON, "DensityFinder.getPerturbedRho", ["grid", "rho"]),
            (U.POISSON, "DensityFinder.getRho", ["grid", "rho"]),
            (U.POISSON, "DiffEqSolver.getModes", ["rho"]),
            (U.POISSON, "DiffEqSolver.findPotential", ["phi"])):
        amb = I.ambient_from_asserts(chk.func(rel, q))
        req[q.split(".")[-1]] = {p: amb.get(p) for p in params}
    for q in ("DiffEqSolver.solveEquation", "QuasiNeutralitySolver.solveEquation"):
        amb = ambient_of(chk, U.POISSON, q.split(".")[0], resolve_method(chk, U.POISSON, *q.split("."))[1])
        req.setdefault("solveEquation", {})["rho[-1]"] = amb.get("rho[-1]")
    return req


# methods / attributes of Grid that neither change its layout nor its save state (the reference API, read off pygyro/model/grid.py)
_GRID_READERS = {"nGlobalCoords", "eta_grid", "getCoords", "getEta", "getCoordVals", "getGlobalIdxVals", "getGlobalIndices", "get2DSlice",
                 "get2DSpline", "getSpline", "get1DSlice", "get1DSpline", "getAllData", "getLayout", "currentLayout", "writeH5Dataset",
                 "getBlockFromDict", "getBlockForFig", "getMin", "getMax", "setLayout", "saveGridValues", "freeGridSave", "restoreGridValues"}


def driver_typestate(chk):
    """walk fullSimulation.main: current layout of distribFunc / phi / rho at every operator call"""
    O = orders(chk)
    fn = chk.func(U.DRIVER, "main")
    req = callee_requirements(chk)
    GRIDS = ("distribFunc", "phi", "rho")
    state0 = {}
    events = []

    def order_of(g, name):
        nd = 4 if g == "distribFunc" else 3
        return O.get((name, nd))

    # what the walk assumes: a call written in a statement of main runs when that statement runs.  Not so for the bodies of lambdas and
    # nested functions (they run when CALLED): their calls are not events of the statement that defines them.  Grids they refer to
    # (closures) may change layout whenever a locally defined callable is invoked: from such a call on, the layout of these grids is
    # unknown (verdicts that need it become UNDECIDED)
    deferred = set()
    closure_grids = set()
    local_callables = set()
    for n in ast.walk(fn):
        if n is not fn and isinstance(n, (ast.Lambda, ast.FunctionDef, ast.AsyncFunctionDef)):
            if isinstance(n, ast.FunctionDef):
                local_callables.add(n.name)
            for x in ast.walk(n):
                if x is not n:
                    deferred.add(id(x))
                if isinstance(x, ast.Name) and x.id in GRIDS:
                    closure_grids.add(x.id)
    for n in ast.walk(fn):
        if isinstance(n, ast.Name) and isinstance(n.ctx, ast.Store) and id(n) not in deferred:
            local_callables.add(n.id)

    def call_events(st, state):
        calls = [c for c in ast.walk(st) if isinstance(c, ast.Call) and id(c) not in deferred]
        calls.sort(key=lambda c: (c.end_lineno, c.end_col_offset))
        for c in calls:
            f = c.func
            if closure_grids and isinstance(f, ast.Name) and f.id in local_callables and f.id not in GRIDS:
                for g_ in closure_grids:
                    if g_ in state:
                        state[g_] = {"cur": None, "saved": state[g_].get("saved"), "escaped": src(c)[:50], "unknown": src(c)[:50]}
            if isinstance(f, ast.Attribute) and isinstance(f.value, ast.Name) and f.value.id in GRIDS:
                g = f.value.id
                if f.attr == "setLayout" and not (c.args and isinstance(c.args[0], ast.Constant)):
                    # a layout that is not a literal: the state of this grid is unknown from here on (the rules below say so)
                    state[g] = {"cur": None, "saved": state.get(g, {}).get("saved"), "unknown": src(c)}
                    chk.ob("S-known-layout", c, src(c), None, "the layout handed to setLayout is not a literal name: not followed", file=U.DRIVER,
                           func="main", nontrivial=False)
                elif f.attr == "setLayout":
                    state[g] = {"cur": c.args[0].value, "saved": state.get(g, {}).get("saved")}
                    events.append(("setLayout", g, c.args[0].value, c))
                    known = order_of(g, c.args[0].value) is not None
                    # a name outside the literal dictionaries is a KeyError of the layout manager unless it was registered by other means
                    # (a dictionary built by code): not a silent wrong result, and not decidable here -> UNDECIDED
                    chk.ob("S-known-layout", c, src(c), True if known else None, "layout name is one of the layouts the grid's manager was built with"
                           if known else "layout name is not in the literal layout dictionaries", file=U.DRIVER, func="main", nontrivial=False)
                elif f.attr == "saveGridValues":
                    state[g] = {"cur": state[g]["cur"], "saved": state[g]["cur"]}
                    events.append(("save", g, state[g]["cur"], c))
                elif f.attr == "restoreGridValues":
                    sv = state[g].get("saved")
                    # "restore without a save" is reported only when every statement before it was followed: the grid was never handed to
                    # a function / method other than the known operators (which could have saved it), and no save sits in a construct the
                    # walk does not enter (try / with / nested function)
                    chk.ob("S-restore-layout", c, src(c), True if sv is not None else (False if not state[g].get("escaped") and not unfollowed else None),
                           f"restore brings `{g}` back to layout `{sv}`" if sv is not None else
                           (f"no saveGridValues of `{g}` precedes the restore on this path" +
                            ("" if not state[g].get("escaped") and not unfollowed else
                             f" - not decided: `{g}` was handed to `{state[g].get('escaped') or unfollowed[0]}`, which is not followed")),
                           file=U.DRIVER, func="main")
                    state[g] = {"cur": sv, "saved": None}
                    events.append(("restore", g, sv, c))
                elif f.attr == "freeGridSave":
                    state[g] = {"cur": state[g]["cur"], "saved": None}
                elif f.attr == "writeH5Dataset":
                    events.append(("write", g, state[g]["cur"], c))
                elif f.attr not in _GRID_READERS and g in state:
                    # a method of the grid this walk does not know (not one of the Grid API that leaves layout and save untouched) may
                    # change the layout (a context manager `with g.inLayout(...)`, a helper that transposes): unknown from here on
                    state[g] = {"cur": None, "saved": state[g].get("saved"), "escaped": src(c)[:50], "unknown": src(c)[:50]}
            # grid construction
            if isinstance(f, ast.Name) and f.id in ("setupCylindricalGrid", "setupFromFile"):
                lay = [k.value.value for k in c.keywords if k.arg == "layout" and isinstance(k.value, ast.Constant)]
                if lay:
                    state["distribFunc"] = {"cur": lay[0], "saved": None}
            if isinstance(f, ast.Name) and f.id == "Grid":
                stn = c
                while not isinstance(stn, ast.stmt):
                    stn = parent(stn)
                if isinstance(stn, ast.Assign) and isinstance(stn.targets[0], ast.Name) and len(c.args) >= 4 \
                        and isinstance(c.args[3], ast.Constant):
                    state[stn.targets[0].id] = {"cur": c.args[3].value, "saved": None}
            # operator calls taking grids
            passed = [a.id for a in list(c.args) + [k.value for k in c.keywords] if isinstance(a, ast.Name) and a.id in GRIDS]
            if isinstance(f, ast.Attribute) and passed:
                m = f.attr
                if m in req or m in ("gridStep", "gridStepKeepGradient", "collect"):
                    recv = src(f.value)
                    check_operator_call(chk, c, recv, m, state, req, order_of)
                    events.append(("op", recv + "." + m, {g: state.get(g, {}).get("cur") for g in GRIDS}, c))
                elif not (isinstance(f.value, ast.Name) and f.value.id in GRIDS):
                    for g_ in passed:
                        if g_ in state:
                            state[g_]["escaped"] = src(c)[:50]
            elif isinstance(f, ast.Name) and passed and f.id not in ("setupCylindricalGrid", "setupFromFile", "Grid", "print", "my_print", "len", "id", "type"):
                for g_ in passed:
                    if g_ in state:
                        state[g_]["escaped"] = src(c)[:50]

    unfollowed = []

    def run_block(stmts, state):
        for st in stmts:
            if isinstance(st, (ast.Try, ast.With)):
                # entered as straight-line code (the body runs once); noted, because a handler / context manager may change the flow
                if isinstance(st, ast.Try):
                    unfollowed.append(f"try block at line {st.lineno}")
                managers = []
                for it_ in getattr(st, "items", []) or []:
                    # the context expressions run on entry; what a context manager does on exit is not followed: a grid whose method
                    # supplied the manager is in an unknown layout again after the block
                    call_events(ast.Expr(value=it_.context_expr), state)
                    for c_ in ast.walk(it_.context_expr):
                        if isinstance(c_, ast.Call) and isinstance(c_.func, ast.Attribute) and isinstance(c_.func.value, ast.Name) and c_.func.value.id in GRIDS:
                            managers.append((c_.func.value.id, src(c_)[:50]))
                run_block(st.body, state)
                for g_, txt_ in managers:
                    if g_ in state:
                        state[g_] = {"cur": None, "saved": state[g_].get("saved"), "escaped": txt_, "unknown": txt_}
                for h in getattr(st, "handlers", []) or []:
                    pass
                run_block(getattr(st, "orelse", []) or [], state)
                run_block(getattr(st, "finalbody", []) or [], state)
                continue
            if isinstance(st, ast.If):
                call_events(ast.Expr(value=st.test), state)
                s1 = {k: dict(v) for k, v in state.items()}
                s2 = {k: dict(v) for k, v in state.items()}
                run_block(st.body, s1)
                run_block(st.orelse, s2)
                lay_of = lambda d: (d.get("cur"), d.get("saved")) if d else None
                for g in set(s1) | set(s2):
                    if lay_of(s1.get(g)) != lay_of(s2.get(g)):
                        # VIOLATED: both arms were followed and leave the grid in two different literal layouts; a grid created in one
                        # arm only, or a layout that is not a literal, is not a disagreement that can be decided
                        known2 = all(d is not None and d.get("cur") is not None for d in (s1.get(g), s2.get(g)))
                        chk.ob("S-branch-agreement", st, f"if {src(st.test)[:60]}", False if known2 else None,
                               f"`{g}` is in layout {lay_of(s1.get(g))} after one arm and {lay_of(s2.get(g))} after the other", file=U.DRIVER, func="main")
                    elif g in s1 and g in s2 and s2[g].get("escaped") and not s1[g].get("escaped"):
                        s1[g]["escaped"] = s2[g]["escaped"]
                state.clear()
                state.update(s1)
            elif isinstance(st, (ast.While, ast.For)):
                before = {k: dict(v) for k, v in state.items()}
                run_block(st.body, state)
                # loop invariant: layouts at the end of the body equal those at its start
                lay_of = lambda d: (d.get("cur"), d.get("saved")) if d else None
                for g in GRIDS:
                    ok = lay_of(before.get(g)) == lay_of(state.get(g))
                    if not ok and (state.get(g, {}).get("cur") is None or before.get(g, {}).get("cur") is None):
                        ok = None        # a layout set from a non-literal name inside the loop: not followed
                    chk.ob("S-loop-invariant", st, f"time loop: layout of {g}", ok,
                           f"`{g}` is in the same layout ({state.get(g, {}).get('cur')}) at the start and at the end of an iteration"
                           if ok else f"`{g}` starts an iteration in {before.get(g)} but ends it in {state.get(g)}",
                           file=U.DRIVER, func="main")
            elif isinstance(st, (ast.FunctionDef, ast.ClassDef)):
                continue
            else:
                call_events(st, state)

    run_block(fn.body, state0)
    chk.extra["driver_events"] = len(events)
    return events


def check_operator_call(chk, c, recv, m, state, req, order_of):
    cls_of = {"fluxAdv": "FluxSurfaceAdvection", "vParAdv": "VParallelAdvection", "polAdv": "PoloidalAdvection",
              "density": "DensityFinder", "QNSolver": "QuasiNeutralitySolver", "diagnostics": "DiagnosticCollector"}
    cls = cls_of.get(recv)
    if c.keywords:
        # keyword arguments are put in the callee's parameter order: the rules below speak of argument positions
        c = ast.copy_location(ast.Call(func=c.func, args=ordered_actuals(chk, c, cls, m), keywords=[]), c)
    args = [a.id for a in c.args if isinstance(a, ast.Name) and a.id in ("distribFunc", "phi", "rho")]
    label = f"{recv}.{m}({', '.join(args)})"
    if cls is None:
        chk.ob("S-operator-layout", c, label, None, f"receiver `{recv}` is not one of the known operator objects", file=U.DRIVER, func="main")
        return
    wanted = {}
    if cls == "FluxSurfaceAdvection":
        wanted = {0: req["gridStep"].get("grid")} if False else {0: I.ambient_from_asserts(chk.func(U.ADV, "FluxSurfaceAdvection.gridStep")).get("grid")}
    elif cls == "PoloidalAdvection":
        amb = I.ambient_from_asserts(chk.func(U.ADV, f"PoloidalAdvection.{m}"))
        wanted = {0: amb.get("grid")}
        if m == "gridStep":
            wanted[1] = amb.get("phi")
    elif cls == "VParallelAdvection":
        O = I.LAYOUT_ORDERS
        wanted = {0: O["v_parallel"]}
        if m == "gridStep":
            wanted[1] = O["v_parallel_1d"]
            # phi must be in a layout whose z is NOT distributed: the gradient is taken along the whole z line
            g = c.args[1].id if len(c.args) > 1 and isinstance(c.args[1], ast.Name) else None
            if g:
                cur = state.get(g, {}).get("cur")
                nd = I.LAYOUT_NDIST.get(cur)
                og = order_of(g, cur)
                zfree = (2 not in og[:nd]) if og is not None and nd is not None else None
                chk.ob("S-operator-layout", c, label + " [z lines complete]", zfree,
                       f"the potential is in layout `{cur}` = {og}, distributed along {[I.DIMNAMES.get(d, d) for d in og[:nd]]}: every process "
                       "holds complete z lines" if zfree else
                       (f"the potential is in layout `{cur}` = {og}, in which z is distributed: the parallel gradient needs the whole periodic z "
                        "line of each (r, theta)" if zfree is False else f"layout `{cur}` of the potential is not one of the known layouts"),
                       file=U.DRIVER, func="main")
    elif cls == "DensityFinder":
        amb = I.ambient_from_asserts(chk.func(U.POISSON, f"DensityFinder.{m}"))
        wanted = {0: amb.get("grid"), 1: amb.get("rho")}
    elif cls == "QuasiNeutralitySolver":
        if m in ("getModes", "findPotential"):
            amb = I.ambient_from_asserts(chk.func(U.POISSON, f"DiffEqSolver.{m}"))
            wanted = {0: amb.get("rho" if m == "getModes" else "phi")}
        elif m == "solveEquation":
            last = ambient_of(chk, U.POISSON, "QuasiNeutralitySolver",
                              resolve_method(chk, U.POISSON, "QuasiNeutralitySolver", "solveEquation")[1]).get("rho[-1]")
            for k, a in enumerate(c.args):
                if isinstance(a, ast.Name) and a.id in state:
                    o = order_of(a.id, state[a.id]["cur"])
                    ok = (o[-1] == last) if o is not None and last is not None else None
                    chk.ob("S-operator-layout", c, label + f" [{a.id}]", ok,
                           f"`{a.id}` is in layout `{state[a.id]['cur']}` whose last (contiguous) dimension is r" if ok else
                           (f"`{a.id}` is in layout `{state[a.id]['cur']}` = {o}, the solver needs r last" if ok is False else
                            f"layout of `{a.id}` ({state[a.id]['cur']} = {o}) or the solver's requirement on the last dimension ({last}) not "
                            "determined"), file=U.DRIVER, func="main")
            # both grids in the same layout: the solver loops over rho's modes and writes phi's slices
            if len(c.args) >= 2 and all(isinstance(a, ast.Name) and a.id in state for a in c.args[:2]):
                same = state[c.args[0].id]["cur"] == state[c.args[1].id]["cur"]
                if state[c.args[0].id]["cur"] is None or state[c.args[1].id]["cur"] is None:
                    same = None          # a layout set from a non-literal name: not followed
                chk.ob("S-operator-layout", c, label + " [same layout]", same,
                       "phi and rho are in the same layout" if same else
                       f"phi is in `{state[c.args[0].id]['cur']}` but rho in `{state[c.args[1].id]['cur']}`", file=U.DRIVER, func="main")
            return
    elif cls == "DiagnosticCollector":
        # collect(f, phi, t): norms were built for 'v_parallel' / 'v_parallel_2d'
        dfn = chk.func(U.DIAG, "DiagnosticCollector.__init__")
        names = [a.value for n in ast.walk(dfn) if isinstance(n, ast.Call) and isinstance(n.func, ast.Attribute)
                 and n.func.attr == "getLayout" for a in n.args if isinstance(a, ast.Constant)]
        want_f = {x for x in names if x in ("v_parallel", "flux_surface", "poloidal")}
        want_p = {x for x in names if x not in want_f}
        for k, (a, want) in enumerate(zip(c.args[:2], (want_f, want_p))):
            if isinstance(a, ast.Name) and a.id in state:
                cur = state[a.id]["cur"]
                ok = want == {cur}
                if cur is None or not want:
                    # the grid's layout is not known here / the layouts the collector was built for were not FOUND in its constructor
                    # (not finding them is not a mismatch)
                    ok = None
                chk.ob("S-operator-layout", c, label + f" [{a.id}]", ok,
                       f"`{a.id}` is in `{cur}`, the layout its diagnostics were built for" if ok else
                       f"`{a.id}` is in `{cur}` but its diagnostics were built for {sorted(want)}", file=U.DRIVER, func="main")
        return
    for k, o_want in wanted.items():
        if k >= len(c.args) or not isinstance(c.args[k], ast.Name) or c.args[k].id not in state:
            continue
        g = c.args[k].id
        cur = state[g]["cur"]
        o = order_of(g, cur)
        ok = o is not None and o_want is not None and tuple(o) == tuple(o_want)
        # VIOLATED needs both sides known: the layout the grid is in (set by literal names on every path to here) and the layout the
        # operator asserts; a layout name whose axis order is not in the literal dictionaries is not followed
        chk.ob("S-operator-layout", c, label + f" [{g}]", ok if (o_want is not None and cur is not None and o is not None) else None,
               f"`{g}` is in layout `{cur}` = {o}, as the operator requires" if ok else
               f"`{g}` is in layout `{cur}` = {o} but the operator requires {o_want}", file=U.DRIVER, func="main")


def run(chk):
    chk.explanation = (
        "Index-space and window typing (engine C) of every table look-up, slice selection and kernel argument of the "
        "grid-level operators (flux-surface, v-parallel, poloidal advection, parallel gradient, density, per-mode solver, "
        "initialisers): local vs global index, layout axis vs dimension, local block vs global table, co-indexed kernel "
        "axes; plus the driver layout typestate: at each of the operator calls of fullSimulation.main every grid is in the "
        "layout its callee requires, restore returns to the saved layout, the loop body is layout-invariant. This is the "
        "statically visible necessary condition 'each slice uses the parameters of its own global coordinates'; numerical "
        "equality of parallel and serial runs is not decided. Relational rules: one index value must not select a local slice and a "
        "Global axis of the same distributed dimension (C-same-index, also for indices the engine could not type); the coordinate "
        "handed to a per-line routine is the one at the index that selects the line; the block of the gradient table handed to "
        "parallel_gradient has the axes of the potential slice, is written in every iteration over the radii (E2-gradient-row-written) "
        "and is what the callee returns; a value reduced (max/sum/any/norm ...) over the local block of a distributed dimension must "
        "not decide a branch or be stored without a reduction over the communicator (C-local-extent). Normalisations applied before the "
        "rules: small fixed data structures (dict with literal keys, tuple/list literal, record, list(zip(...))) that group attributes are "
        "written back as the attributes they group; a grid-level method is analysed as the driver runs it (pure delegation to a sibling "
        "with bound arguments and unused optional parameters specialised, arms that cannot run dropped; when an anchor method vanished the "
        "driver's calls on the operator object, with their literal arguments bound, are the entry points); slice objects select windows "
        "like slice syntax. A constructor that keeps fewer table rows than local radii under a flag is typed path by path, the equality of "
        "the omitted rows being decided by the element-wise model of the tables (F6-radial-table, shared with C10).")
    chk.assumptions += ["standard layouts and their distributed axes are those of the literal dictionaries in setups.py/fullSimulation.py",
                        "the same dimension is partitioned identically in every layout group that distributes it over the same process count"]
    chk.in_file(U.ADV)
    normalise_structures(chk, U.ADV)
    normalise_structures(chk, U.POISSON)
    pg_attrs, pg_summ = parallel_gradient(chk)
    flux_surface(chk)
    v_parallel(chk, pg_summ)
    poloidal(chk)
    density(chk)
    solver(chk)
    initialisers(chk)
    driver_typestate(chk)
    from .C14 import per_mode
    try:
        per_mode(chk)
    except AnalysisError as e:
        # the per-mode rules (C14) cannot follow the solver: undecided here, the other sections keep their verdicts
        chk.ob("F4-mode-solve", chk.mod(U.POISSON).tree, "per-mode solver rules (C14.per_mode)", None, f"not analysable: {e}",
               file=U.POISSON, func="DiffEqSolver")
    # the z stencil of the parallel gradient wraps periodically over ALL z rows whatever block the caller owns: the three index
    # regimes tile [0, nz) (shared with C13)
    from .C13 import regimes as _regimes
    _regimes(chk)
    # floors: low enough that merged loops / consolidated call sites / a table-driven driver do not trip them (a floor is a guard
    # against a rule that matches nothing, not a count of today's sites)
    chk.floor("C-window", 20)
    chk.floor("C-sort", 3)
    chk.floor("S-operator-layout", 10)
    chk.floor("C-slice-param", 4)
