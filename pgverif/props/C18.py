"""C18 - checkpoints round-trip and a restarted run continues the original one.

Everything here is decided from the syntax tree; no code of the repository is run, concretely or symbolically.
* Functions are analysed on a work copy (`_work`): with-blocks spliced, simple nested helper functions written back at
  their calls; expressions are compared with local single definitions written out (`_Defs.resolve`), so temporaries,
  aliases and the order of independent statements do not matter.
* Caller and callee are one unit (`_Composer`): a call of a function / method of the repository - same class through self,
  a local built by a constructor, a function of this or an imported module, a member only the refactoring introduced on a
  receiver of unknown class, a new property - is replaced by the callee's body with the parameters bound, when the callee is
  not a function of the reference tree or (checkpoint rules) when it opens / lists / reads checkpoint files.  Early returns
  become if/else arms (`_single_exit`), tests decided by literal arguments are folded, first-match search loops become
  filtered lists.  Calls nested in expressions are given a name first.
* Equivalent statement forms are brought to the form the rules read: append loops -> comprehensions, np.copyto /
  read_direct / write_direct -> slice assignments, local lambdas / one-expression functions written out, small records
  (dict / SimpleNamespace / list / named tuple / data class used field by field) -> one local per field, copies of
  multi-definition locals coalesced, early returns / `continue`s -> else arms, common tails of if-arms merged.  Every step
  is a rewriting of the syntax tree into an equivalent one; nothing is evaluated.
* W1 (HDF5 agreement): recognised forms of the hyperslab, attribute, guard, look-up.
* W2 (file names): name expressions become templates (literal text + fields with format specs, `_template`); the rules
  compare templates (family, zero padding, glob pattern), classify the selection expression (max / min / by date / listing
  order) and the way a requested time is detected (presence / noneness / truth value).  The time parsed from the chosen
  name is decided on an abstract string (segments: arbitrary folder text, literals, the digits of the time field) to which
  the split / partition / basename / splitext operations of the parsing expression are applied (`_abs_string`).
* G3-printer: classification of the attribute source (dir(self) with filters, also written as early `continue`s; or the keys
  of a module-/class-level table, compared with the settable public attributes of the class), entry template and frame.
* W3 save steps: the two conditions as congruences on the global step index; counters of this invocation (0 + 1 per
  iteration, or `ti - <snapshot of ti before the loop>`) are recognised as such.
* G3-setters-commute and G4-zero-divisor are write-set / flow analyses.
Every recogniser is three-valued: HOLDS for a recognised correct form, VIOLATED only for a recognised wrong form, else UNDECIDED.

Soundness audit of the VIOLATED verdicts (pass 4).  For each diagnosis: the assumptions under which it is true of the code, and
how the rule establishes them (when one cannot be established the verdict is UNDECIDED).  The same notes stand next to the code.
 W1-dataset-name       a reader never reads the created path.  Checked: the dataset is created directly in the opened file (no
                       group); the reader's list of paths is complete (`_file_reads_complete`: all literal, none continued into
                       a group, no .get / visitor) and does not contain the created path.  A reader that reads it AND something
                       else: undecided.
 W1-hyperslab (block)  bounds are not [starts, ends) of one layout.  Checked: both bounds are properties of the REFERENCE Layout
                       (`_known_prop`; an alias / cached block a refactoring introduced is undecided), same layout or a layout
                       fixed by a literal name.  Fixed layout vs `self._f`: the value written is self._f and the writer does not
                       change layout itself.  Shape: a reference property other than fullShape.
 W1-hyperslab (subset) transfer done by some processes only: the test compares a rank (rank / *_rank / *Rank, not `ranks`) with a
                       literal by == / != and the other arm transfers nothing.  New argument switches the transfer off: its
                       default does, AND no call of the method in the analysed units passes it (`_some_call_passes`).
 W1-layout-attribute   reader never reads the recorded key and the writer provably writes no other attribute; writer records a
                       reference property other than the one the loader compares with (relational, both sides reference
                       properties); order of a literal layout recorded while another layout's block is written.
 W1-layout-guard       never compared: attribute value, file and dataset are handed to no callable, no test reads the attribute,
                       no code of a refactoring is called that the composition could not write back (`_calls_new_code`).
                       Wrong quantifier: `_eq_form` of the single guard (all / any / array_equal, negations folded).
                       Grid built in one layout and filled by another: one side is the caller's request and the other is not,
                       or exactly one side is a literal that no surrounding test mentions (dispatch by cases is not a mismatch).
                       Stored order -> name: selection by any-equal, or a default layout for an unknown order.  ("stays None and
                       nothing refuses" was withdrawn: the layout manager's look-up refuses None with a KeyError.)
                       setLayout missing / inverted: request handed to nothing, no new code called; test polarity read.
 W2-file-name-family   defaults differ: both parameters are the {N} field of the templates (roles read off the templates).  No
                       padding + choice by name: every driver call passes a plain number as time (`_callers_pass_plain_time`:
                       caller + callee).  Writer / loader / restart names differ: templates compared with every field given a role
                       by what it is (parameter, folder through a path normaliser, requested time); a field of unknown role makes
                       the name uncompared.  Parameter file / restart decision: the existence test that DECIDES the restart is
                       found by role (condition of the `if` that calls setupFromFile, through a boolean flag).
 W2-latest-selection   by date / smallest / unsorted listing: the selected-from expression is the listing itself (pattern read)
                       and nothing sorts elsewhere.  Pattern vs family: only the provable relations - disjoint, narrower, or wider
                       AND listing the files the driver writes under its other prefix.  Literal time: the only return.
                       Parsed time: abstract string semantics (`_abs_string`) - exact for the operations it models, None otherwise.
 W2-explicit-time      classification of the deciding test (presence / noneness against the parameter's actual default / truth
                       value); explicit and latest file sit in the two arms of that test.
 G3-setters-commute    write sets; a foreign key written only under a test on that key itself is undecided.
 G3-printer            `required` = settable public attributes (class-level values that are not tables of names, properties with
                       setter); vars(self) is wrong only if such attributes exist; table keys enumerated from a literal.
 G3-defaults-after-file  early install: the constructor flag's meaning is read off __init__; an early set_defaults call counts only
                       when unconditional (before / directly in the loop).  Completion overwrites: a write whose value reads the
                       attribute itself is an unrecognised guard (undecided).  Several loops: the SWEEP is the only loop that
                       calls eval_expr, the others (plain values stored first) stand before it; a set_defaults() call before /
                       in the sweep is early provided nothing puts an attribute back to None / deletes it and eval_expr does
                       compare with None (deferral rests on `operand is None`).
 G3-dependency-order   result never examined: every read of it is the value of a store.  Never retried: the container is mentioned
                       nowhere outside the loop and no new code is called.  Operand replaced: the replacement is a literal or
                       read from the defaults table, in an arm that does nothing else.  Never tested: every read is textual.
 G4-zero-divisor       flow analysis on {zero, pos, unknown}; arms that always leave do not reach the join; try / with bodies are
                       scanned; any binding the analysis does not model makes the counter unknown (never zero); a division
                       inside a try that handles the error is undecided.  Divisors: counter, counter + literal, and `X - S` for a
                       snapshot S = X (difference counter).
 W3-restart-index      literal overwrites the time: unconditional, top level, after every set-up call.  Literal start index: the
                       loop bound is an absolute index.  Step != 1: only when index = time // step was established.
 W3-save-steps         congruences on the recognised forms; other conventions (both sites in another variable, same other
                       residue) undecided.  A residue counter (c = ti % M before the loop, c += 1 per step, reset to 0 under
                       c == M; every store of c / ti / M accounted for, no jump between the increments and the reset) is read
                       as the residue it carries by the loop invariant (`_residue_counters`).  One grid only: no helper receives the same label / folder, no new code called.
                       Written from the other object: only when it is the object written under the other name.  Label: an
                       expression that does not read the time at all.
"""
from __future__ import annotations

import ast
import re
import string

from ..core import src, AnalysisError, parent, guards_of, same_expr, increment_of
from .. import units as U


# =========================================================================================================
# working copies of functions
# =========================================================================================================
_POS = ("lineno", "col_offset", "end_lineno", "end_col_offset")


def _clone(node):
    """copy of a syntax tree without the parent links (positions kept)"""
    if isinstance(node, ast.AST):
        new = node.__class__()
        for f in node._fields:
            if hasattr(node, f):
                setattr(new, f, _clone(getattr(node, f)))
        for a in _POS:
            if hasattr(node, a):
                setattr(new, a, getattr(node, a))
        return new
    if isinstance(node, list):
        return [_clone(x) for x in node]
    return node


def _link(root):
    root._parent = None
    for node in ast.walk(root):
        for ch in ast.iter_child_nodes(node):
            ch._parent = node


def _own_walk(fn):
    """nodes of a function body without the bodies of nested functions / classes / lambdas"""
    stack = list(reversed(fn.body)) if isinstance(fn, (ast.FunctionDef, ast.AsyncFunctionDef)) else [fn]
    while stack:
        n = stack.pop()
        yield n
        if isinstance(n, (ast.FunctionDef, ast.AsyncFunctionDef, ast.ClassDef, ast.Lambda)):
            continue
        stack.extend(reversed(list(ast.iter_child_nodes(n))))


def _blocks_of(node):
    for n in ast.walk(node):
        for f in ("body", "orelse", "finalbody"):
            b = getattr(n, f, None)
            if isinstance(b, list) and b and isinstance(b[0], ast.stmt):
                yield n, f, b


def _splice_with(fn):
    """`with ctx as name: body`  ->  `name = ctx; body` (the rules of this property do not depend on when a file is closed)"""
    changed = True
    while changed:
        changed = False
        for owner, f, blk in list(_blocks_of(fn)):
            for k, st in enumerate(blk):
                if isinstance(st, (ast.With, ast.AsyncWith)):
                    new = []
                    for it in st.items:
                        if it.optional_vars is not None:
                            a = ast.Assign(targets=[it.optional_vars], value=it.context_expr)
                        else:
                            a = ast.Expr(value=it.context_expr)
                        ast.copy_location(a, st)
                        new.append(a)
                    blk[k:k + 1] = new + st.body
                    changed = True
                    break
            if changed:
                break


class _Sub(ast.NodeTransformer):
    def __init__(self, mapping):
        self.m = mapping

    def visit_Name(self, node):
        if node.id in self.m:
            v = self.m[node.id]
            if isinstance(v, str):
                return ast.copy_location(ast.Name(id=v, ctx=node.ctx), node)
            if isinstance(node.ctx, ast.Load):
                new = _clone(v)
                for x in ast.walk(new):
                    ast.copy_location(x, node)
                return new
        return node

    def visit_Lambda(self, node):
        return node


def _simple_nested(h):
    a = h.args
    if a.vararg or a.kwarg or a.kwonlyargs or a.posonlyargs or h.decorator_list:
        return False
    body = [s for s in h.body if not (isinstance(s, ast.Expr) and isinstance(s.value, ast.Constant))]
    if not body:
        return False
    for n in ast.walk(h):
        if n is not h and isinstance(n, (ast.FunctionDef, ast.AsyncFunctionDef, ast.ClassDef, ast.Lambda, ast.Yield, ast.YieldFrom,
                                         ast.Global, ast.Nonlocal, ast.Try)):
            return False
    rets = [n for n in ast.walk(h) if isinstance(n, ast.Return)]
    return not rets or (len(rets) == 1 and rets[0] is body[-1])


def _inline_nested(fn):
    """calls `h(args)` (statement level) of a straight-line nested function of `fn` are replaced by its body with the
    parameters bound to the arguments - the inverse of "extract local function"; -> names of helpers written back"""
    helpers = {s.name: s for s in ast.walk(fn) if isinstance(s, ast.FunctionDef) and s is not fn and _simple_nested(s)}
    if not helpers:
        return []
    done, counter = [], [0]
    for _ in range(40):
        hit = None
        for owner, f, blk in _blocks_of(fn):
            for k, st in enumerate(blk):
                call = target = None
                if isinstance(st, ast.Expr) and isinstance(st.value, ast.Call):
                    call = st.value
                elif isinstance(st, ast.Assign) and len(st.targets) == 1 and isinstance(st.value, ast.Call):
                    call, target = st.value, st.targets[0]
                if call is None or not isinstance(call.func, ast.Name) or call.func.id not in helpers:
                    continue
                h = helpers[call.func.id]
                if any(x is st for x in ast.walk(h)):
                    continue            # a call inside the helper itself (recursion): left alone
                hit = (blk, k, st, call, target, h)
                break
            if hit:
                break
        if not hit:
            break
        blk, k, st, call, target, h = hit
        params = [a.arg for a in h.args.args]
        defaults = dict(zip(params[len(params) - len(h.args.defaults):], h.args.defaults))
        actual = dict(zip(params, call.args))
        bad = len(call.args) > len(params) or any(isinstance(a, ast.Starred) for a in call.args)
        for kw in call.keywords:
            if kw.arg is None or kw.arg not in params or kw.arg in actual:
                bad = True
            else:
                actual[kw.arg] = kw.value
        for p in params:
            if p not in actual:
                if p in defaults:
                    actual[p] = defaults[p]
                else:
                    bad = True
        if bad:
            helpers.pop(h.name)
            continue
        counter[0] += 1
        body = [_clone(s) for s in h.body if not (isinstance(s, ast.Expr) and isinstance(s.value, ast.Constant))]
        stored = {n.id for s in body for n in ast.walk(s) if isinstance(n, ast.Name) and isinstance(n.ctx, ast.Store)}
        outer = {n.id for n in _own_walk(fn) if isinstance(n, ast.Name)}
        mapping, pre = {}, []
        for p in params:
            a = actual[p]
            if p not in stored and isinstance(a, (ast.Name, ast.Constant)):
                mapping[p] = a
            else:
                nm = f"{p}__h{counter[0]}"
                mapping[p] = nm
                pre.append(ast.Assign(targets=[ast.Name(id=nm, ctx=ast.Store())], value=_clone(a)))
        for loc in stored - set(params):
            if loc in outer:
                mapping[loc] = f"{loc}__h{counter[0]}"
        body = [_Sub(mapping).visit(s) for s in body]
        out = pre + body
        if out and isinstance(out[-1], ast.Return):
            r = out.pop()
            if target is not None:
                out.append(ast.Assign(targets=[target], value=r.value if r.value is not None else ast.Constant(value=None)))
            elif r.value is not None:
                out.append(ast.Expr(value=r.value))
        elif target is not None:
            out.append(ast.Assign(targets=[target], value=ast.Constant(value=None)))
        for s in out:                       # reported at the call site
            for x in ast.walk(s):
                for a in _POS:
                    if hasattr(st, a) and hasattr(x, "_fields") and isinstance(x, (ast.stmt, ast.expr)):
                        setattr(x, a, getattr(st, a))
        blk[k:k + 1] = out
        done.append(h.name)
    return done


def _imported_functions(chk, rel, fn=None):
    """{local name: (module path, function name)} for `from <module of the repository> import f [as g]` at the top of module `rel`
    (and inside the function `fn`, when given)"""
    out = {}
    try:
        tree = chk.mod(rel).tree
    except AnalysisError:
        return out
    parts = rel.split("/")[:-1]
    for st in list(tree.body) + ([n for n in ast.walk(fn) if isinstance(n, ast.ImportFrom)] if fn is not None else []):
        if isinstance(st, ast.ImportFrom) and st.module and st.level - 1 <= len(parts):
            # relative to the package of the module, or absolute from the root of the repository
            base = parts[:len(parts) - (st.level - 1)] if st.level >= 1 else []
            target = "/".join(base + st.module.split(".")) + ".py"
            if chk.repo.exists(target):
                for al in st.names:
                    out[al.asname or al.name] = (target, al.name)
    return out


def _inline_expression_functions(chk, rel, w):
    """calls of functions imported from another module of the repository whose body is one `return <expression>` are replaced
    by that expression with the parameters bound (a shared helper such as `checkpointName(folder, name, t)`): the rules then
    see the same expression as when it is written in place"""
    imported = _imported_functions(chk, rel)
    if not imported:
        return []
    done = []

    class T(ast.NodeTransformer):
        def visit_Call(self, node):
            self.generic_visit(node)
            if not (isinstance(node.func, ast.Name) and node.func.id in imported):
                return node
            target, name = imported[node.func.id]
            try:
                h = chk.repo.mod(target).func(name)           # recorded as a unit of the check only when it is used (below)
            except AnalysisError:
                return node
            a = h.args
            body = [b for b in h.body if not (isinstance(b, ast.Expr) and isinstance(b.value, ast.Constant))]
            if a.vararg or a.kwarg or a.kwonlyargs or a.posonlyargs or h.decorator_list or len(body) != 1 or not isinstance(body[0], ast.Return) \
                    or body[0].value is None or any(isinstance(x, (ast.Lambda, ast.ListComp, ast.SetComp, ast.DictComp, ast.GeneratorExp, ast.NamedExpr))
                                                    for x in ast.walk(body[0].value)):
                return node
            params = [x.arg for x in a.args]
            actual = dict(zip(params, node.args))
            if len(node.args) > len(params) or any(isinstance(x, ast.Starred) for x in node.args):
                return node
            for kw in node.keywords:
                if kw.arg is None or kw.arg not in params or kw.arg in actual:
                    return node
                actual[kw.arg] = kw.value
            defaults = dict(zip(params[len(params) - len(a.defaults):], a.defaults))
            for p_ in params:
                if p_ not in actual:
                    if p_ not in defaults:
                        return node
                    actual[p_] = defaults[p_]
            # free names of the expression other than the parameters must be builtins / module names that mean the same here
            free = {x.id for x in ast.walk(body[0].value) if isinstance(x, ast.Name)} - set(params)
            if free - {"str", "int", "format", "os"}:
                return node
            new = _Sub(actual).visit(_clone(body[0].value))
            for x in ast.walk(new):
                ast.copy_location(x, node)
            done.append(name)
            chk.mod(target)
            return new
    T().visit(w)
    return done


# ---- methods by role: a method is looked up in its class and then in the bases of the class (mixins, base classes of the
#      repository, followed through the imports of the module that defines the class)
def _class_named(chk, rel, name):
    """the class called `name` in module `rel` (defined there or imported from a module of the repository) -> (module, ClassDef) | None"""
    try:
        m = chk.repo.mod(rel)
    except AnalysisError:
        return None
    if m.has(name) and isinstance(m.get(name), ast.ClassDef):
        return rel, m.get(name)
    imp = _imported_functions(chk, rel)
    if name in imp:
        target, real = imp[name]
        try:
            m2 = chk.repo.mod(target)
        except AnalysisError:
            return None
        if m2.has(real) and isinstance(m2.get(real), ast.ClassDef):
            return target, m2.get(real)
    return None


def _find_method(chk, rel, cls, name, depth=4):
    """the method `name` as an instance of class `cls` (of module `rel`) sees it: defined in the class, else in exactly one of its
    bases (searched through the repository) -> (FunctionDef, module, qualified name) | None.  Several definitions of the name in
    one class (property getter / setter) or in several bases are not resolved"""
    own = [m_ for m_ in cls.body if isinstance(m_, ast.FunctionDef) and m_.name == name]
    if len(own) == 1:
        return own[0], rel, f"{cls.name}.{name}"
    if own or depth <= 0:
        return None
    found = []
    for b in cls.bases:
        if not isinstance(b, ast.Name):
            continue
        got = _class_named(chk, rel, b.id)
        if got is None:
            continue
        r = _find_method(chk, got[0], got[1], name, depth - 1)
        if r is not None:
            found.append(r)
    return found[0] if len(found) == 1 else None


def _grid_method(chk, name):
    """the method `name` of Grid, wherever the class or one of its bases defines it -> (FunctionDef, module, qualified name);
    the anchor is reported as vanished when no class in reach defines it"""
    cls = chk.mod(U.GRID).cls("Grid")
    got = _find_method(chk, U.GRID, cls, name)
    if got is None:
        return chk.func(U.GRID, f"Grid.{name}"), U.GRID, f"Grid.{name}"         # raises "anchor vanished"
    fn, rel, qual = got
    return chk.func(rel, qual), rel, qual


def _property_expression(chk, rel, cls_name, h):
    """the expression the getter `h` of a property of class `cls_name` (module `rel`) stands for, in terms of the public properties
    of the object:  `return E` -> E;  the lazily cached form `if self._c is None: self._c = E` / `return self._c` -> E, when the
    cache `_c` is None initially and written nowhere else in the class, and everything E reads from self is written only by
    __init__ (the value cannot go stale).  Private attributes `self._b` that a read-only accessor property `b` returns are
    written as `self.b`.  None for any other getter"""
    try:
        cls = chk.repo.mod(rel).cls(cls_name)
    except AnalysisError:
        return None
    slf = h.args.args[0].arg
    body = [b for b in h.body if not (isinstance(b, ast.Expr) and isinstance(b.value, ast.Constant))]
    value = None
    if len(body) == 1 and isinstance(body[0], ast.Return) and body[0].value is not None:
        value = body[0].value
    elif len(body) == 2 and isinstance(body[0], ast.If) and not body[0].orelse and len(body[0].body) == 1 and isinstance(body[1], ast.Return) \
            and isinstance(body[1].value, ast.Attribute) and src(body[1].value.value) == slf:
        cache = body[1].value.attr
        st = body[0].body[0]
        if not (same_expr(body[0].test, f"{slf}.{cache} is None") and isinstance(st, ast.Assign) and len(st.targets) == 1
                and src(st.targets[0]) == f"{slf}.{cache}"):
            return None

        def stores(attr):
            """[(method name, value)] of the stores `<self>.attr = value` in the methods of the class (None value: another kind of store)"""
            out = []
            for m_ in cls.body:
                if not isinstance(m_, ast.FunctionDef) or not m_.args.args:
                    continue
                me = m_.args.args[0].arg
                for n_ in ast.walk(m_):
                    if isinstance(n_, ast.Attribute) and n_.attr == attr and isinstance(n_.ctx, (ast.Store, ast.Del)) and src(n_.value) == me:
                        p_ = parent(n_)
                        out.append((m_.name, p_.value if isinstance(p_, ast.Assign) and len(p_.targets) == 1 and p_.targets[0] is n_ else None))
            return out
        if any(isinstance(n_, ast.Call) and _fname(n_) in ("setattr", "delattr") for n_ in ast.walk(cls)) or any(
                isinstance(n_, ast.Attribute) and n_.attr == "__dict__" for n_ in ast.walk(cls)):
            return None
        cs = stores(cache)
        inits = [v_ for m_name, v_ in cs if m_name == "__init__"]
        class_level = [b_ for b_ in cls.body if isinstance(b_, ast.Assign) and any(isinstance(t_, ast.Name) and t_.id == cache for t_ in b_.targets)]
        if len(cs) != len(inits) + 1 or not all(_is_const_none(v_) for v_ in inits) or (not inits and not (
                len(class_level) == 1 and _is_const_none(class_level[0].value))):
            return None
        value = st.value
        reads = {n_.attr for n_ in ast.walk(value) if isinstance(n_, ast.Attribute) and src(n_.value) == slf}
        if any(isinstance(n_, ast.Call) and isinstance(n_.func, ast.Attribute) and src(n_.func.value) == slf for n_ in ast.walk(value)):
            return None
        if any(isinstance(n_, ast.Name) and n_.id == slf and not isinstance(parent(n_), ast.Attribute) for n_ in ast.walk(value)):
            return None
        for a_ in reads:
            if any(m_name != "__init__" for m_name, _v in stores(a_)):
                return None             # an input of the cached value can change after the cache was filled
    if value is None:
        return None
    # private storage -> the accessor property that returns it
    back = {}
    for m_ in cls.body:
        if isinstance(m_, ast.FunctionDef) and [src(d_) for d_ in m_.decorator_list] == ["property"] and len(m_.args.args) == 1:
            b_ = [x for x in m_.body if not (isinstance(x, ast.Expr) and isinstance(x.value, ast.Constant))]
            if len(b_) == 1 and isinstance(b_[0], ast.Return) and isinstance(b_[0].value, ast.Attribute) \
                    and src(b_[0].value.value) == m_.args.args[0].arg:
                back.setdefault(b_[0].value.attr, []).append(m_.name)
    value = _clone(value)
    _link(value)
    for n_ in ast.walk(value):
        if isinstance(n_, ast.Attribute) and isinstance(n_.ctx, ast.Load) and src(n_.value) == slf and len(back.get(n_.attr, [])) == 1:
            n_.attr = back[n_.attr][0]
    return value


# ---- caller + callee as one unit -------------------------------------------------------------------------
# A call of a function / method of the repository is replaced by the callee's body with the parameters bound to the arguments
# (early returns turned into if/else arms, `if` tests decided by literal arguments folded), when the callee is a helper the
# reference tree does not have, or - for the checkpoint rules - when it plays a role in the HDF5 protocol (opens a file, lists
# files, reads attributes).  This is substitution on the syntax tree; nothing is evaluated on values.
_H5_ROLE_CALLS = {"File", "glob", "iglob", "create_dataset"}


def _has_h5_role(fn):
    for n in ast.walk(fn):
        if isinstance(n, ast.Call) and _fname(n) in _H5_ROLE_CALLS:
            return True
        if isinstance(n, ast.Attribute) and n.attr == "attrs":
            return True
    return False


def _is_new_function(rel, qual):
    """the function is not one of the reference tree: a helper introduced by a refactoring (also every function of a module the
    reference tree does not have)"""
    try:
        from ..alpha import load_table
        table = load_table().get("__functions__", {})
    except Exception:
        return False
    if not table:
        return False
    return qual not in table.get(rel, [])


def _calls_new_code(chk, fn, rel=None):
    """names of the functions / methods called in the (composed) function `fn` that the present tree defines and the reference tree
    does not have under that name: code a refactoring introduced and the composition could not write back at the call.  A
    diagnosis of the kind "X is never done" is not established while such a call remains - X may be done there"""
    try:
        from ..alpha import load_table
        table = load_table().get("__functions__", {})
    except Exception:
        return ["?"]
    if not table:
        return ["?"]
    ref = {q.split(".")[-1] for quals in table.values() for q in quals}
    called = {_fname(n) for n in _own_walk(fn) if isinstance(n, ast.Call)} - {""} - ref
    # attributes read that are new properties count as calls
    called |= {n.attr for n in _own_walk(fn) if isinstance(n, ast.Attribute) and isinstance(n.ctx, ast.Load)} - ref
    if not called:
        return []
    defined = set()
    # the analysed units, and the modules the function's own module imports from (a module the reference tree does not have)
    mods = list(U.ALL_UNITS) + ([t for t, _ in _imported_functions(chk, rel, fn).values()] if rel is not None else [])
    for m in dict.fromkeys(mods):
        if not chk.repo.exists(m):
            continue
        try:
            tree = chk.repo.mod(m).tree
        except AnalysisError:
            return ["?"]
        defined |= {n.name for n in ast.walk(tree) if isinstance(n, (ast.FunctionDef, ast.AsyncFunctionDef))}
    return sorted(called & defined)


def _ref_simple_names():
    """the simple names of all functions / methods of the reference tree"""
    try:
        from ..alpha import load_table
        table = load_table().get("__functions__", {})
    except Exception:
        return set()
    return {q.split(".")[-1] for quals in table.values() for q in quals}


def _always_leaves(stmts):
    """the block ends, on every path, with a statement that leaves the enclosing block (return / raise / continue / break)"""
    if not stmts:
        return False
    last = stmts[-1]
    if isinstance(last, (ast.Return, ast.Raise, ast.Continue, ast.Break)):
        return True
    return isinstance(last, ast.If) and _always_leaves(last.body) and _always_leaves(last.orelse)


def _always_exits(stmts):
    if not stmts:
        return False
    last = stmts[-1]
    if isinstance(last, (ast.Return, ast.Raise)):
        return True
    return isinstance(last, ast.If) and _always_exits(last.body) and _always_exits(last.orelse)


def _has_return(node_or_list):
    xs = node_or_list if isinstance(node_or_list, list) else [node_or_list]
    return any(isinstance(x, ast.Return) for s in xs for x in ast.walk(s))


def _single_exit(stmts, emit, cont):
    """statements equivalent to `stmts` followed by `cont` in which every `return v` is replaced by emit(v): the code after an
    `if` with a returning arm moves into the arm(s) that fall through.  None when a return sits inside a loop / try / with, or when
    more than a trivial continuation would have to be duplicated"""
    for k, st in enumerate(stmts):
        if isinstance(st, ast.Return):
            return stmts[:k] + emit(st.value)
        if not _has_return(st):
            continue
        if not isinstance(st, ast.If):
            return None
        rest = _single_exit(stmts[k + 1:], emit, cont)
        if rest is None:
            return None
        b_all, e_all = _always_exits(st.body), _always_exits(st.orelse)
        if not (b_all or e_all) and len(rest) > 2:
            return None
        body = _single_exit(st.body, emit, [] if b_all else rest)
        orelse = _single_exit(st.orelse, emit, [] if e_all else (rest if b_all else _clone(rest)))
        if body is None or orelse is None:
            return None
        new = ast.copy_location(ast.If(test=st.test, body=body or [ast.copy_location(ast.Pass(), st)], orelse=orelse), st)
        return stmts[:k] + [new]
    return stmts + ([] if _always_exits(stmts) else cont)


def _literal_test(t):
    """truth value of a test made of literals only (after literal arguments have been bound), else None"""
    if isinstance(t, ast.Constant):
        return bool(t.value)
    if isinstance(t, ast.UnaryOp) and isinstance(t.op, ast.Not):
        d = _literal_test(t.operand)
        return None if d is None else not d
    if isinstance(t, ast.Compare) and len(t.ops) == 1 and isinstance(t.left, ast.Constant) and isinstance(t.comparators[0], ast.Constant):
        a, b, op = t.left.value, t.comparators[0].value, t.ops[0]
        if isinstance(op, (ast.Is, ast.IsNot)) and (a is None or b is None):
            return (a is b) == isinstance(op, ast.Is)
        if isinstance(op, (ast.Eq, ast.NotEq)) and type(a) is type(b):
            return (a == b) == isinstance(op, ast.Eq)
    return None


def _fold_literal_tests(stmts):
    out = []
    for st in stmts:
        if isinstance(st, ast.If):
            d = _literal_test(st.test)
            if d is not None:
                out.extend(_fold_literal_tests(st.body if d else st.orelse))
                continue
            st.body = _fold_literal_tests(st.body) or [ast.copy_location(ast.Pass(), st)]
            st.orelse = _fold_literal_tests(st.orelse)
        elif isinstance(st, (ast.For, ast.While, ast.With, ast.Try)):
            for f in ("body", "orelse", "finalbody"):
                b = getattr(st, f, None)
                if isinstance(b, list) and b:
                    setattr(st, f, _fold_literal_tests(b) or ([ast.copy_location(ast.Pass(), st)] if f == "body" else []))
        out.append(st)
    return out


class _Composer:
    def __init__(self, chk, rel, w, policy):
        self.chk, self.rel, self.w, self.policy = chk, rel, w, policy
        self.imported = _imported_functions(chk, rel, w)
        q = getattr(w, "_qual", w.name)
        self.cls_name = q.split(".")[0] if "." in q else None
        self.origin = q
        self.static = any(isinstance(d, ast.Name) and d.id in ("staticmethod", "classmethod") for d in w.decorator_list)
        self.counter = 0
        self.done = []

    # -- where a name of the calling module leads
    def _lookup(self, name):
        """-> (module path, node) of a top-level function / class called `name` in the calling module"""
        try:
            m = self.chk.repo.mod(self.rel)
            if m.has(name):
                return self.rel, m.get(name)
            if name in self.imported:
                target, real = self.imported[name]
                m2 = self.chk.repo.mod(target)
                if m2.has(real):
                    return target, m2.get(real)
        except AnalysisError:
            pass
        return None, None

    @staticmethod
    def _method(cls, name):
        ms = [m for m in cls.body if isinstance(m, ast.FunctionDef) and m.name == name]
        return ms[0] if len(ms) == 1 else None

    def _candidate_modules(self):
        mods = [self.rel] + [t for t, _ in self.imported.values()] + [U.GRID, U.LAYOUT]
        out = []
        for m in mods:
            if m not in out and self.chk.repo.exists(m):
                out.append(m)
        return out

    def new_member(self, name, want_property):
        """the one method / property called `name` that some class of the modules in reach defines and the reference tree does not
        have -> (function, module, qualified name) | None.  Used when the class of the receiver is not known from the text: a
        member introduced by the refactoring has one meaning only"""
        found = []
        for m in self._candidate_modules():
            try:
                tree = self.chk.repo.mod(m).tree
            except AnalysisError:
                continue
            for c in tree.body:
                if not isinstance(c, ast.ClassDef):
                    continue
                for h in c.body:
                    if isinstance(h, ast.FunctionDef) and h.name == name:
                        decs = [src(d) for d in h.decorator_list]
                        if (decs == ["property"]) == want_property and (want_property or not decs):
                            found.append((h, m, f"{c.name}.{h.name}"))
                        else:
                            return None
        if len(found) != 1 or not _is_new_function(found[0][1], found[0][2]) or name in _ref_simple_names():
            return None             # (a method the reference tree has under this name in some class has only moved: not a new member)
        return found[0]

    def resolve(self, call, D):
        """-> (callee, expression bound to its first parameter or None, module, qualified name) | None"""
        f = call.func
        if isinstance(f, ast.Name):
            if f.id in D.params or any(not isinstance(st_, ast.ImportFrom) for _, st_ in D.defs.get(f.id, [])):
                return None             # a local of the caller (other than a name imported inside the function)
            rel, node = self._lookup(f.id)
            if isinstance(node, ast.FunctionDef):
                return node, None, rel, node.name
            return None
        if not isinstance(f, ast.Attribute):
            return None
        if not isinstance(f.value, ast.Name) or (f.value.id in D.params and not (self.cls_name and self.w.args.args and f.value.id == self.w.args.args[0].arg)):
            # receiver of unknown class (an attribute chain, a parameter): a member that only the refactoring introduced
            e_ = f.value
            while isinstance(e_, ast.Attribute):
                e_ = e_.value
            got = self.new_member(f.attr, False) if isinstance(e_, ast.Name) else None
            if got is None or not got[0].args.args:
                return None
            return got[0], f.value, got[1], got[2]
        obj = f.value.id
        rel = cls = None
        bound = True
        if self.cls_name and not self.static and self.w.args.args and obj == self.w.args.args[0].arg:
            rel, cls = self._lookup(self.cls_name)
        elif obj in D.defs:
            ds = [v for v, _ in D.defs[obj]]
            if ds and all(isinstance(v, ast.Call) and isinstance(v.func, ast.Name) and v.func.id == ds[0].func.id for v in ds) and obj not in D.params:
                rel, cls = self._lookup(ds[0].func.id)
        elif obj not in D.params:
            rel, cls = self._lookup(obj)
            bound = False
        if not isinstance(cls, ast.ClassDef):
            # a local whose class the text does not tell: a member that only the refactoring introduced
            got = self.new_member(f.attr, False) if (obj in D.defs and bound) else None
            if got is None or not got[0].args.args:
                return None
            return got[0], f.value, got[1], got[2]
        got = _find_method(self.chk, rel, cls, f.attr)
        if got is None:
            return None
        h, rel, qual = got
        decs = [src(d) for d in h.decorator_list]
        if decs == ["staticmethod"]:
            return h, None, rel, qual
        if decs or not bound or not h.args.args:
            return None
        return h, f.value, rel, qual

    def eligible(self, h, rel, qual):
        if qual == self.origin and rel == self.rel:
            return False
        a = h.args
        if a.vararg or a.kwarg or a.kwonlyargs or a.posonlyargs:
            return False
        for n in ast.walk(h):
            if n is not h and isinstance(n, (ast.FunctionDef, ast.AsyncFunctionDef, ast.ClassDef, ast.Yield, ast.YieldFrom, ast.Global,
                                             ast.Nonlocal, ast.Try, ast.Await)):
                return False
        if h.name.startswith("__") and h.name.endswith("__"):
            return False
        if _is_new_function(rel, qual) and (h.name not in _ref_simple_names() or "." not in qual):
            return True             # (a method that only moved to a base class / mixin keeps its name: it is not a new helper)
        return self.policy == "h5" and _has_h5_role(h)

    def expand(self, call, h, self_expr, kind, target):
        params = [a.arg for a in h.args.args]
        rest = params[1:] if self_expr is not None else params
        if len(call.args) > len(rest) or any(isinstance(a, ast.Starred) for a in call.args) or any(k.arg is None for k in call.keywords):
            return None
        actual = dict(zip(rest, call.args))
        for k in call.keywords:
            if k.arg not in rest or k.arg in actual:
                return None
            actual[k.arg] = k.value
        defaults = dict(zip(params[len(params) - len(h.args.defaults):], h.args.defaults))
        for p in rest:
            if p not in actual:
                if p not in defaults:
                    return None
                actual[p] = defaults[p]
        if self_expr is not None:
            actual[params[0]] = self_expr
        hw = _clone(h)
        _splice_with(hw)
        body = [s for s in hw.body if not (isinstance(s, ast.Expr) and isinstance(s.value, ast.Constant))]
        if not body:
            return None
        self.counter += 1
        tag = f"__c{self.counter}"
        stored = {n.id for s in body for n in ast.walk(s) if isinstance(n, ast.Name) and isinstance(n.ctx, ast.Store)}
        caller = {n.id for n in _own_walk(self.w) if isinstance(n, ast.Name)} | set(_params(self.w))
        caller_stored = {n.id for n in _own_walk(self.w) if isinstance(n, ast.Name) and isinstance(n.ctx, ast.Store)} | set(_params(self.w))
        free = {n.id for s in body for n in ast.walk(s) if isinstance(n, ast.Name)} - stored - set(params)
        if free & caller_stored:
            return None                 # a global of the callee's module would be captured by a local of the caller
        mapping, pre = {}, []
        def chain(e_):              # x.a.b: reading it again gives the same object (no call, no subscript)
            while isinstance(e_, ast.Attribute):
                e_ = e_.value
            return isinstance(e_, ast.Name)
        for p in params:
            a = actual[p]
            if p not in stored and (isinstance(a, (ast.Name, ast.Constant)) or chain(a)):
                mapping[p] = a
            else:
                nm = p + tag
                mapping[p] = nm
                pre.append(ast.Assign(targets=[ast.Name(id=nm, ctx=ast.Store())], value=_clone(a)))
        for loc in stored - set(params):
            if loc in caller:
                mapping[loc] = loc + tag
        arg_names = {x.id for a in actual.values() for x in ast.walk(a) if isinstance(x, ast.Name)}
        if arg_names & {loc for loc in stored - set(params) if loc not in mapping}:
            return None                 # a local of the callee would capture a name used in an argument
        body = [_Sub(mapping).visit(s) for s in body]
        body = _fold_literal_tests(body)
        body = _first_match_loops(body, tag)

        def emit(v):
            if kind == "assign":
                return [ast.Assign(targets=[_clone(target)], value=v if v is not None else ast.Constant(value=None))]
            if kind == "return":
                return [ast.Return(value=v)]
            return [ast.Expr(value=v)] if v is not None and any(isinstance(x, ast.Call) for x in ast.walk(v)) else []
        out = _single_exit(body, emit, emit(None))
        if out is None:
            return None
        return pre + out

    def _hoist(self, D):
        """a call of an expandable callee nested inside the expression of a simple statement is given a name of its own in front of
        the statement (not from inside a lambda / comprehension / conditional expression / right operand of and-or)"""
        for owner, f, blk in _blocks_of(self.w):
            for k, st in enumerate(blk):
                if not isinstance(st, (ast.Assign, ast.AugAssign, ast.AnnAssign, ast.Expr, ast.Return, ast.Assert)):
                    continue
                top = st.value if not isinstance(st, ast.Assert) else st.test
                if top is None:
                    continue
                tops = [(top, True)]
                if isinstance(st, ast.Assign):          # subscripts of the targets: dset[<selection>] = ...
                    tops += [(t.slice, False) for t in st.targets if isinstance(t, ast.Subscript)]

                def walk(e, is_top):
                    if isinstance(e, (ast.Lambda, ast.ListComp, ast.SetComp, ast.DictComp, ast.GeneratorExp, ast.IfExp)):
                        return None
                    if isinstance(e, ast.BoolOp):
                        return walk(e.values[0], False)
                    if isinstance(e, ast.Call) and not (is_top and not isinstance(st, (ast.AugAssign, ast.Assert))):
                        r = self.resolve(e, D)
                        if r is not None and self.eligible(r[0], r[2], r[3]):
                            return e
                    for ch in ast.iter_child_nodes(e):
                        if isinstance(ch, ast.expr):
                            got = walk(ch, False)
                            if got is not None:
                                return got
                    return None
                got = None
                for top_, is_top_ in tops:
                    got = walk(top_, is_top_)
                    if got is not None:
                        break
                if got is None:
                    continue
                self.counter += 1
                nm = f"call__c{self.counter}"
                new = ast.copy_location(ast.Assign(targets=[ast.Name(id=nm, ctx=ast.Store())], value=_clone(got)), st)

                class R(ast.NodeTransformer):
                    def visit(self_, node):
                        if node is got:
                            return ast.copy_location(ast.Name(id=nm, ctx=ast.Load()), node)
                        return self_.generic_visit(node)
                blk[k] = R().visit(st)
                blk.insert(k, new)
                return True
        return False

    def inline_new_properties(self):
        """`X.p` where p is a property only the refactoring introduced, with a one-expression getter -> that expression with
        self bound to X (X a plain attribute chain)"""
        comp = self
        done = []

        class T(ast.NodeTransformer):
            def visit_Attribute(self, node):
                self.generic_visit(node)
                if not isinstance(node.ctx, ast.Load):
                    return node
                e_ = node.value
                while isinstance(e_, ast.Attribute):
                    e_ = e_.value
                if not isinstance(e_, ast.Name):
                    return node
                got = comp.new_member(node.attr, True)
                if got is None:
                    return node
                h = got[0]
                if len(h.args.args) != 1:
                    return node
                value = _property_expression(comp.chk, got[1], got[2].split(".")[0], h)
                if value is None:
                    return node
                bound = {x.id for x in ast.walk(value) if isinstance(x, ast.Name) and isinstance(x.ctx, ast.Store)}
                if bound & {x.id for x in ast.walk(node.value) if isinstance(x, ast.Name)}:
                    return node
                new = _Sub({h.args.args[0].arg: node.value}).visit(_clone(value))
                for x in ast.walk(new):
                    ast.copy_location(x, node)
                done.append(got[2])
                try:
                    comp.chk.mod(got[1])
                except AnalysisError:
                    pass
                return new
        for k, st in enumerate(self.w.body):
            self.w.body[k] = T().visit(st)
        return done

    def run(self):
        self.done += self.inline_new_properties()
        for _ in range(40):
            _link(self.w)
            D = _Defs(self.w)
            hit = None
            for owner, f, blk in _blocks_of(self.w):
                for k, st in enumerate(blk):
                    call = kind = target = None
                    if isinstance(st, ast.Expr) and isinstance(st.value, ast.Call):
                        call, kind = st.value, "expr"
                    elif isinstance(st, ast.Assign) and len(st.targets) == 1 and isinstance(st.value, ast.Call):
                        call, kind, target = st.value, "assign", st.targets[0]
                    elif isinstance(st, ast.Return) and isinstance(st.value, ast.Call):
                        call, kind = st.value, "return"
                    if call is None or id(call) in self._failed:
                        continue
                    r = self.resolve(call, D)
                    if r is None or not self.eligible(r[0], r[2], r[3]):
                        continue
                    new = self.expand(call, r[0], r[1], kind, target)
                    if new is None:
                        self._failed.add(id(call))
                        continue
                    hit = (blk, k, st, new, r)
                    break
                if hit:
                    break
            if hit:
                blk, k, st, new, r = hit
                for s in new:
                    for x in ast.walk(s):
                        if isinstance(x, (ast.stmt, ast.expr)):
                            ast.copy_location(x, st)
                blk[k:k + 1] = new or [ast.copy_location(ast.Pass(), st)]
                self.done.append(r[3])
                try:
                    self.chk.mod(r[2])
                except AnalysisError:
                    pass
                continue
            if not self._hoist(D):
                break
        self.done += self.inline_new_properties()          # properties read by the bodies written back above
        return self.done

    _failed: set = set()


def _compose_calls(chk, rel, w, policy):
    c = _Composer(chk, rel, w, policy)
    c._failed = set()
    try:
        return c.run()
    except RecursionError:
        return c.done


# ---- equivalent statement forms brought to the form the rules read ---------------------------------------
def _append_loops_to_comprehensions(w):
    """`x = []` ... `for T in IT: x.append(E)` (optionally under one `if C`)  ->  `x = [E for T in IT if C]`, when `x` is not
    mentioned between the two statements and has no other definition: the element-by-element construction of a list"""
    changed = True
    while changed:
        changed = False
        for owner, f, blk in list(_blocks_of(w)):
            for k, st in enumerate(blk):
                if not (isinstance(st, ast.For) and not st.orelse and len(st.body) == 1):
                    continue
                inner, cond = st.body[0], None
                if isinstance(inner, ast.If) and not inner.orelse and len(inner.body) == 1:
                    inner, cond = inner.body[0], inner.test
                if not (isinstance(inner, ast.Expr) and isinstance(inner.value, ast.Call) and isinstance(inner.value.func, ast.Attribute)
                        and inner.value.func.attr == "append" and isinstance(inner.value.func.value, ast.Name) and len(inner.value.args) == 1
                        and not inner.value.keywords):
                    continue
                x = inner.value.func.value.id
                mentions = lambda node: any(isinstance(n, ast.Name) and n.id == x for n in ast.walk(node))
                if mentions(st.iter) or mentions(inner.value.args[0]) or (cond is not None and mentions(cond)):
                    continue
                init = [j for j in range(k) if isinstance(blk[j], ast.Assign) and len(blk[j].targets) == 1 and isinstance(blk[j].targets[0], ast.Name)
                        and blk[j].targets[0].id == x]
                if len(init) != 1 or not (isinstance(blk[init[0]].value, ast.List) and not blk[init[0]].value.elts):
                    continue
                if any(mentions(blk[j]) for j in range(init[0] + 1, k)):
                    continue
                stores = [n for n in _own_walk(w) if isinstance(n, ast.Name) and n.id == x and isinstance(n.ctx, ast.Store)]
                if len(stores) != 1:
                    continue
                comp = ast.ListComp(elt=inner.value.args[0], generators=[ast.comprehension(target=st.target, iter=st.iter,
                                                                                           ifs=[cond] if cond is not None else [], is_async=0)])
                blk[init[0]].value = ast.copy_location(comp, st)
                del blk[k]
                changed = True
                break
            if changed:
                break


def _direct_io_to_assignments(w):
    """np.copyto(X, Y) -> X[:] = Y;  X[...] = Y -> X[:] = Y;  D.read_direct(X, source_sel=S) -> X[:] = D[S];
    D.write_direct(X, dest_sel=S) -> D[S] = X[:]
    (h5py: read_direct(dest, source_sel, dest_sel) / write_direct(source, source_sel, dest_sel); only the forms in which the
    array side is taken whole)"""
    full = lambda: ast.Slice(lower=None, upper=None, step=None)
    for owner, f, blk in list(_blocks_of(w)):
        for k, st in enumerate(blk):
            if isinstance(st, ast.Assign) and len(st.targets) == 1 and isinstance(st.targets[0], ast.Subscript) \
                    and _is_const(st.targets[0].slice, Ellipsis):
                # X[...] = Y -> X[:] = Y: both store into the whole of X (the same for every array / dataset of one or more
                # dimensions, the only ones a block selection applies to)
                st.targets[0].slice = ast.copy_location(full(), st.targets[0].slice)
                continue
            if not (isinstance(st, ast.Expr) and isinstance(st.value, ast.Call) and isinstance(st.value.func, ast.Attribute)):
                continue
            c = st.value
            new = None
            if c.func.attr == "copyto" and len(c.args) == 2 and not c.keywords and src(c.func.value) in ("np", "numpy"):
                new = ast.Assign(targets=[ast.Subscript(value=c.args[0], slice=full(), ctx=ast.Store())], value=c.args[1])
            elif c.func.attr in ("read_direct", "write_direct") and c.args and not any(isinstance(a, ast.Starred) for a in c.args):
                arr = c.args[0]
                src_sel = _arg(c, 1, "source_sel")
                dst_sel = _arg(c, 2, "dest_sel")
                if any(k_.arg not in ("source_sel", "dest_sel") for k_ in c.keywords) or len(c.args) > 3:
                    continue
                if c.func.attr == "read_direct" and src_sel is not None and (dst_sel is None or _is_const_none(dst_sel)):
                    new = ast.Assign(targets=[ast.Subscript(value=arr, slice=full(), ctx=ast.Store())],
                                     value=ast.Subscript(value=c.func.value, slice=src_sel, ctx=ast.Load()))
                elif c.func.attr == "write_direct" and dst_sel is not None and (src_sel is None or _is_const_none(src_sel)):
                    new = ast.Assign(targets=[ast.Subscript(value=c.func.value, slice=dst_sel, ctx=ast.Store())],
                                     value=ast.Subscript(value=arr, slice=full(), ctx=ast.Load()))
            if new is not None:
                blk[k] = ast.copy_location(new, st)
    ast.fix_missing_locations(w)


def _inline_local_expression_functions(w):
    """calls of a one-expression function of the function itself (`h = lambda a: E` / `def h(a): return E`, defined once and only
    called) are replaced by E with the parameters bound, wherever they occur in an expression"""
    cands = {}
    _link(w)
    for n in _own_walk(w):
        if isinstance(n, ast.Assign) and len(n.targets) == 1 and isinstance(n.targets[0], ast.Name) and isinstance(n.value, ast.Lambda):
            cands.setdefault(n.targets[0].id, []).append((n.value.args, n.value.body, n))
        elif isinstance(n, ast.FunctionDef) and n is not w and not n.decorator_list:
            body = [b for b in n.body if not (isinstance(b, ast.Expr) and isinstance(b.value, ast.Constant))]
            if len(body) == 1 and isinstance(body[0], ast.Return) and body[0].value is not None:
                cands.setdefault(n.name, []).append((n.args, body[0].value, n))
            else:
                cands.setdefault(n.name, []).append(None)
    stores = {}
    for n in _own_walk(w):
        if isinstance(n, ast.Name) and isinstance(n.ctx, ast.Store):
            stores[n.id] = stores.get(n.id, 0) + 1
    helpers = {}
    assigned = {n.id for n in _own_walk(w) if isinstance(n, ast.Name) and isinstance(n.ctx, ast.Store)} | set(_params(w))
    for nm, lst in cands.items():
        if len(lst) != 1 or lst[0] is None or stores.get(nm, 0) > (1 if isinstance(lst[0][2], ast.Assign) else 0):
            continue
        a, body, node = lst[0]
        if a.vararg or a.kwarg or a.kwonlyargs or a.posonlyargs or any(isinstance(x, (ast.Lambda, ast.Yield, ast.Await, ast.NamedExpr)) for x in ast.walk(body)):
            continue
        ps = [x.arg for x in a.args]
        free = {x.id for x in ast.walk(body) if isinstance(x, ast.Name)} - set(ps)
        # the free names of the expression must mean the same at the call as at the definition: names assigned once (or never)
        if any(stores.get(x, 0) > 1 for x in free if x in assigned) or any(isinstance(x, ast.Name) and isinstance(x.ctx, ast.Store) for x in ast.walk(body)):
            continue
        # only called, never passed around
        uses = [n for n in _own_walk(w) if isinstance(n, ast.Name) and n.id == nm and isinstance(n.ctx, ast.Load)]
        if not uses or not all(isinstance(parent(u), ast.Call) and parent(u).func is u for u in uses):
            continue
        helpers[nm] = (ps, a.defaults, body)
    if not helpers:
        return []
    done = []

    class T(ast.NodeTransformer):
        def visit_Call(self, node):
            self.generic_visit(node)
            if not (isinstance(node.func, ast.Name) and node.func.id in helpers):
                return node
            ps, defaults, body = helpers[node.func.id]
            if len(node.args) > len(ps) or any(isinstance(x, ast.Starred) for x in node.args) or any(k.arg is None for k in node.keywords):
                return node
            actual = dict(zip(ps, node.args))
            for k in node.keywords:
                if k.arg not in ps or k.arg in actual:
                    return node
                actual[k.arg] = k.value
            dflt = dict(zip(ps[len(ps) - len(defaults):], defaults))
            for p in ps:
                if p not in actual:
                    if p not in dflt:
                        return node
                    actual[p] = dflt[p]
            new = _Sub(actual).visit(_clone(body))
            for x in ast.walk(new):
                ast.copy_location(x, node)
            done.append(node.func.id)
            return new
    for k, st in enumerate(w.body):
        if not isinstance(st, (ast.FunctionDef, ast.AsyncFunctionDef, ast.ClassDef)):
            w.body[k] = T().visit(st)
    return done


def _record_types(chk, rel, fn):
    """{name usable in `fn`: [field names]} for the small record types of the repository in reach: `X = namedtuple('X', 'a b')`,
    `class X(NamedTuple)` / `@dataclass class X` with annotated fields only"""
    out = {}

    def of_module(m):
        found = {}
        try:
            tree = chk.repo.mod(m).tree
        except AnalysisError:
            return found
        for st in tree.body:
            if isinstance(st, ast.Assign) and len(st.targets) == 1 and isinstance(st.targets[0], ast.Name) and isinstance(st.value, ast.Call) \
                    and _fname(st.value) == "namedtuple" and len(st.value.args) >= 2:
                a = st.value.args[1]
                if _is_const(a, typ=str):
                    found[st.targets[0].id] = a.value.replace(",", " ").split()
                elif isinstance(a, (ast.List, ast.Tuple)) and all(_is_const(e, typ=str) for e in a.elts):
                    found[st.targets[0].id] = [e.value for e in a.elts]
            elif isinstance(st, ast.ClassDef):
                is_nt = any(src(b).split(".")[-1] == "NamedTuple" for b in st.bases)
                is_dc = any(src(d).split("(")[0].split(".")[-1] == "dataclass" for d in st.decorator_list)
                body = [b for b in st.body if not (isinstance(b, ast.Expr) and isinstance(b.value, ast.Constant))]
                if (is_nt or is_dc) and body and all(isinstance(b, ast.AnnAssign) and isinstance(b.target, ast.Name) and b.value is None for b in body):
                    found[st.name] = [b.target.id for b in body]
        return found
    own = of_module(rel)
    out.update(own)
    cache = {}
    for local, (target, real) in _imported_functions(chk, rel, fn).items():
        if target not in cache:
            cache[target] = of_module(target)
        if real in cache[target]:
            out[local] = cache[target][real]
    # the record types of the modules functions are imported from: a function written back at its call brings them along
    for target, found in cache.items():
        for name, fields in found.items():
            out.setdefault(name, fields)
    return out


def _scalar_replace(w, records=None):
    """a local record that is only ever used field by field - `S = {'a': x, 'b': y}` / `dict(a=x, b=y)` / `SimpleNamespace(a=x, b=y)` /
    `[x, y]` / `(x, y)` / a named tuple or data class of the repository `Rec(x, y)`, with every other occurrence of the form
    `S['a']` / `S.a` / `S[0]` - is replaced by one local per field (`S__a`): the rules then see plain counters and names
    whatever small structure carries them.  The record may be built at several places (the arms of an `if`), all with the
    same fields"""
    records = records or {}
    done = []

    def fields_of(v):
        """-> ([(field key, value)], {access mode: key -> field}) or None"""
        if isinstance(v, ast.Dict) and v.keys and all(_is_const(k, typ=str) for k in v.keys):
            return [(k.value, e) for k, e in zip(v.keys, v.values)], "item"
        if isinstance(v, ast.Call) and not v.args and v.keywords and all(k.arg for k in v.keywords) and (
                (isinstance(v.func, ast.Name) and v.func.id == "dict") or _fname(v) == "SimpleNamespace"):
            return [(k.arg, k.value) for k in v.keywords], "item" if _fname(v) == "dict" else "attr"
        if isinstance(v, (ast.List, ast.Tuple)) and v.elts and not any(isinstance(e, ast.Starred) for e in v.elts):
            return [(k, e) for k, e in enumerate(v.elts)], "index"
        if isinstance(v, ast.Call) and isinstance(v.func, ast.Name) and v.func.id in records and not any(isinstance(a, ast.Starred) for a in v.args) \
                and all(k.arg for k in v.keywords):
            names = records[v.func.id]
            got = dict(zip(names, v.args))
            for k in v.keywords:
                if k.arg not in names or k.arg in got:
                    return None
                got[k.arg] = k.value
            if len(v.args) > len(names) or set(got) != set(names):
                return None
            return [(n, got[n]) for n in names], "record"
        return None
    for _ in range(6):
        _link(w)
        defs, uses = {}, {}
        for n in _own_walk(w):
            if isinstance(n, ast.Name):
                if isinstance(n.ctx, ast.Store):
                    defs.setdefault(n.id, []).append(n)
                else:
                    uses.setdefault(n.id, []).append(n)
        hit = None
        for nm, ds in defs.items():
            if nm in _params(w):
                continue
            sts = [parent(d) for d in ds]
            if not all(isinstance(st, ast.Assign) and len(st.targets) == 1 and st.targets[0] is d for st, d in zip(sts, ds)):
                continue
            built = [fields_of(st.value) for st in sts]
            if any(b is None for b in built) or len({(b[1], tuple(f for f, _ in b[0])) for b in built}) != 1:
                continue
            mode = built[0][1]
            keys = [f for f, _ in built[0][0]]
            if len(set(keys)) != len(keys):
                continue
            if mode == "index" and len(ds) == 1 and isinstance(sts[0].value, ast.Tuple) and False:
                continue

            def field_of(u):
                p_ = parent(u)
                if mode in ("attr", "record") and isinstance(p_, ast.Attribute) and p_.value is u and p_.attr in keys:
                    return p_, p_.attr
                if mode == "item" and isinstance(p_, ast.Subscript) and p_.value is u and _is_const(p_.slice, typ=str) and p_.slice.value in keys:
                    return p_, p_.slice.value
                if mode in ("index", "record") and isinstance(p_, ast.Subscript) and p_.value is u and not isinstance(p_.slice, ast.Slice) \
                        and _const_index(p_.slice) is not None and -len(keys) <= _const_index(p_.slice) < len(keys):
                    return p_, keys[_const_index(p_.slice)]
                return None
            us = uses.get(nm, [])
            if not us or any(field_of(u) is None for u in us) or any(isinstance(field_of(u)[0].ctx, ast.Del) for u in us):
                continue
            if mode == "record" and any(isinstance(field_of(u)[0].ctx, ast.Store) for u in us):
                continue                    # tuples are immutable; a data class written field by field is left alone
            # a field value must not read the record itself
            if any(isinstance(x, ast.Name) and x.id == nm for b in built for _, e in b[0] for x in ast.walk(e)):
                continue
            hit = (nm, sts, built, [field_of(u) for u in us])
            break
        if hit is None:
            break
        nm, sts, built, accesses = hit
        local = lambda f: f"{nm}__{f}"
        repl = {id(node): local(f) for node, f in accesses}

        class T(ast.NodeTransformer):
            def visit(self, node):
                if id(node) in repl:
                    return ast.copy_location(ast.Name(id=repl[id(node)], ctx=node.ctx), node)
                return self.generic_visit(node)
        T().visit(w)
        for st, b in zip(sts, built):
            # no field value reads the record (checked above): the fields can be assigned one after the other
            new = [ast.copy_location(ast.Assign(targets=[ast.Name(id=local(f), ctx=ast.Store())], value=e), st) for f, e in b[0]]
            for owner, f_, blk in _blocks_of(w):
                if any(x is st for x in blk):
                    k = next(i for i, x in enumerate(blk) if x is st)
                    blk[k:k + 1] = new
                    break
        ast.fix_missing_locations(w)
        done.append(nm)
    return done


def _coalesce_copies(w):
    """`x = y` (the only definition of x, at the top level of the function; y a local that is not assigned again afterwards and
    not a parameter that x outlives in a different role): every use of x is a use of y - x is renamed to y and the copy dropped.
    Only for copies of locals that have several definitions (the arms of an `if`), which expressions cannot be written out for"""
    done = []
    for _ in range(10):
        defs = {}
        for n in _own_walk(w):
            if isinstance(n, ast.Name) and isinstance(n.ctx, ast.Store):
                defs.setdefault(n.id, []).append(n)
        hit = None
        for k, st in enumerate(w.body):
            if not (isinstance(st, ast.Assign) and len(st.targets) == 1 and isinstance(st.targets[0], ast.Name) and isinstance(st.value, ast.Name)):
                continue
            x, y = st.targets[0].id, st.value.id
            if x == y or len(defs.get(x, [])) != 1 or len(defs.get(y, [])) < 2 or x in _params(w) or y in _params(w):
                continue
            if any(_pos(d) >= _pos(st) for d in defs[y]):
                continue                    # y changes after the copy: x keeps the old value
            if any(isinstance(n, ast.Name) and n.id == x and _pos(n) < _pos(st) for n in _own_walk(w)):
                continue
            if any(isinstance(n, (ast.Global, ast.Nonlocal)) for n in _own_walk(w)):
                continue
            hit = (k, x, y)
            break
        if hit is None:
            break
        k, x, y = hit
        del w.body[k]
        for n in ast.walk(w):
            if isinstance(n, ast.Name) and n.id == x:
                n.id = y
        done.append(x)
    return done


def _forward_integer_temporaries(w):
    """`x = E` - the only definition of the local x, E integer arithmetic (+ - * // %) on plain local names and integer literals -
    is written out at the uses of x when that is the same computation: every use of x stands in the block of the definition after
    it, outside lambdas / nested functions / generator expressions, and before any operand of E is stored again; the one
    statement that stores an operand may still use x when it is a plain assignment (`ti = x`: the value is read before the
    store).  (`stepsDone = ti + 1 ... ti = stepsDone`, `rest = ti % saveStep`: counters are then read where the rules look.)"""
    done = []
    arith = (ast.Add, ast.Sub, ast.Mult, ast.FloorDiv, ast.Mod)

    def pure(e, top=True):
        if isinstance(e, ast.Name):
            return not top
        if isinstance(e, ast.Constant):
            return not top and isinstance(e.value, int) and not isinstance(e.value, bool)
        if isinstance(e, ast.BinOp) and isinstance(e.op, arith):
            return pure(e.left, False) and pure(e.right, False)
        return False
    if any(isinstance(n, (ast.Global, ast.Nonlocal)) for n in ast.walk(w)):
        return done
    for _ in range(10):
        stores, hit = {}, None
        for n in ast.walk(w):
            if isinstance(n, ast.Name) and isinstance(n.ctx, (ast.Store, ast.Del)):
                stores.setdefault(n.id, []).append(n)
        prm = set(_params(w))
        for owner, f, b in _blocks_of(w):
            for k, st in enumerate(b):
                if not (isinstance(st, ast.Assign) and len(st.targets) == 1 and isinstance(st.targets[0], ast.Name) and pure(st.value)):
                    continue
                x = st.targets[0].id
                ops = {n.id for n in ast.walk(st.value) if isinstance(n, ast.Name)}
                if len(stores.get(x, [])) != 1 or x in prm or x in ops or x in done:
                    continue
                uses_all = [n for n in ast.walk(w) if isinstance(n, ast.Name) and n.id == x and n is not st.targets[0]]
                allowed, blocked = set(), False
                for later in b[k + 1:]:
                    restored = any(isinstance(n, ast.Name) and n.id in ops and isinstance(n.ctx, (ast.Store, ast.Del)) for n in ast.walk(later))
                    here = [n for n in ast.walk(later) if isinstance(n, ast.Name) and n.id == x]
                    if blocked and here:
                        allowed = None
                        break
                    if restored:
                        if here and not (isinstance(later, ast.Assign) and len(later.targets) == 1 and isinstance(later.targets[0], ast.Name)):
                            allowed = None
                            break
                        blocked = True
                    allowed |= {id(n) for n in here}
                    if any(isinstance(m, (ast.Lambda, ast.FunctionDef, ast.AsyncFunctionDef, ast.GeneratorExp)) and any(
                            isinstance(n, ast.Name) and n.id == x for n in ast.walk(m)) for m in ast.walk(later)):
                        allowed = None
                        break
                if allowed is None or not uses_all or any(id(n) not in allowed for n in uses_all):
                    continue
                hit = (b, k, x, st.value)
                break
            if hit:
                break
        if hit is None:
            break
        b, k, x, value = hit
        del b[k]

        class _Put(ast.NodeTransformer):
            def visit_Name(self, n):
                if n.id == x and isinstance(n.ctx, ast.Load):
                    return _clone(value)
                return n
        for j in range(k, len(b)):
            b[j] = _Put().visit(b[j])
        if not b:
            b.append(ast.Pass())
        done.append(x)
    return []


def _first_match_loops(stmts, tag):
    """`for T in IT: if C: return E` (nothing else in the loop) -> `found = [E for T in IT if C]; if found: return found[0]`:
    the search loop that returns its first match, in a form without a return inside a loop"""
    out = []
    for st in stmts:
        if isinstance(st, ast.For) and not st.orelse and len(st.body) == 1 and isinstance(st.body[0], ast.If) and not st.body[0].orelse \
                and len(st.body[0].body) == 1 and isinstance(st.body[0].body[0], ast.Return) and st.body[0].body[0].value is not None \
                and not any(isinstance(x, (ast.NamedExpr, ast.Yield, ast.Await)) for x in ast.walk(st)):
            nm = f"found{tag}_{len(out)}"
            comp = ast.ListComp(elt=st.body[0].body[0].value, generators=[ast.comprehension(target=st.target, iter=st.iter, ifs=[st.body[0].test],
                                                                                             is_async=0)])
            out.append(ast.copy_location(ast.Assign(targets=[ast.Name(id=nm, ctx=ast.Store())], value=comp), st))
            out.append(ast.copy_location(ast.If(test=ast.Name(id=nm, ctx=ast.Load()), body=[ast.Return(value=ast.Subscript(
                value=ast.Name(id=nm, ctx=ast.Load()), slice=ast.Constant(value=0), ctx=ast.Load()))], orelse=[]), st))
            continue
        if isinstance(st, ast.If):
            st.body = _first_match_loops(st.body, tag + "a") or st.body
            st.orelse = _first_match_loops(st.orelse, tag + "b")
        out.append(st)
    return out


def _continue_to_else(w):
    """in a loop body, `if C: A; continue` followed by R  ->  `if C: A else: R` (the early end of the iteration written as the
    other arm), repeated; at the top level of the loop body and, recursively, inside the arms of an `if` that is the LAST
    statement of such a block (whatever follows a `continue` there is the rest of the iteration as well)"""
    changed = [False]

    def conv(block):
        """`block` is in tail position of an iteration: falling off its end ends the iteration"""
        for _ in range(20):
            hit = None
            for k, st in enumerate(block):
                if isinstance(st, ast.If) and st.body and isinstance(st.body[-1], ast.Continue) and k + 1 < len(block) \
                        and not any(isinstance(x, (ast.FunctionDef, ast.ClassDef)) for x in block[k + 1:]) \
                        and not (st.orelse and isinstance(st.orelse[-1], ast.Continue)):
                    hit = k
                    break
            if hit is None:
                break
            st = block[hit]
            rest = block[hit + 1:]
            st.body = st.body[:-1] or [ast.copy_location(ast.Pass(), st)]
            st.orelse = list(st.orelse) + rest
            del block[hit + 1:]
            changed[0] = True
        if block and isinstance(block[-1], ast.If):
            conv(block[-1].body)
            if block[-1].orelse:
                conv(block[-1].orelse)
    for lp in [n for n in ast.walk(w) if isinstance(n, (ast.For, ast.While))]:
        conv(lp.body)
    return changed[0]


def _merge_common_tails(w):
    """`if C: A; T else: B; T`  ->  `if C: A else: B` followed by T, for the longest common tail T of plain statements"""
    changed = True
    any_change = False
    while changed:
        changed = False
        for owner, f, blk in list(_blocks_of(w)):
            for k, st in enumerate(blk):
                if not (isinstance(st, ast.If) and st.body and st.orelse):
                    continue
                tail = []
                while st.body and st.orelse and not isinstance(st.body[-1], (ast.Continue, ast.Break, ast.Return, ast.Raise, ast.Pass)) \
                        and ast.dump(st.body[-1]) == ast.dump(st.orelse[-1]):
                    tail.insert(0, st.body.pop())
                    st.orelse.pop()
                if not tail:
                    continue
                if not st.body:
                    if st.orelse:
                        st.test = ast.copy_location(ast.UnaryOp(op=ast.Not(), operand=st.test), st.test)
                        st.body, st.orelse = st.orelse, []
                    else:
                        st.body = [ast.copy_location(ast.Pass(), st)]
                blk[k + 1:k + 1] = tail
                changed = any_change = True
                break
            if changed:
                break
    return any_change


def _to_single_exit(w):
    """a function with early `return`s at `if` level is brought to the form in which the code after a returning `if` is the other
    arm (the returns then end the arms); left alone when a return sits in a loop / try, or when there is at most one return"""
    rets = [n for n in _own_walk(w) if isinstance(n, ast.Return)]
    if len(rets) < 2:
        return False
    doc = [s for s in w.body if isinstance(s, ast.Expr) and isinstance(s.value, ast.Constant)]
    body = [s for s in w.body if s not in doc]
    nested = [s for s in body if isinstance(s, (ast.FunctionDef, ast.AsyncFunctionDef, ast.ClassDef))]
    if any(_has_return(s) and isinstance(s, (ast.FunctionDef, ast.AsyncFunctionDef)) for s in nested):
        return False            # returns of nested functions are not the function's own
    out = _single_exit(body, lambda v: [ast.Return(value=v)], [])
    if out is None:
        return False
    w.body = doc + out
    ast.fix_missing_locations(w)
    return True


def _work(fn, chk=None, rel=None, policy="new"):
    """copy of a function with with-blocks spliced, simple nested helper functions written back at their call sites and (when the
    module is given) imported one-expression functions written out and the calls of helper functions / methods of the repository
    replaced by their bodies (`policy`: 'new' = helpers the reference tree does not have; 'h5' = also the functions that open /
    list / read checkpoint files)"""
    qual = getattr(fn, "_qual", fn.name)
    w = _clone(fn)
    w._qual = qual
    _splice_with(w)
    if chk is not None and rel is not None:
        _inline_expression_functions(chk, rel, w)
    inlined = list(_inline_nested(w))

    def fold(w_):
        w_.body = _fold_literal_tests(w_.body) or w_.body
    steps = [_inline_local_expression_functions]
    if chk is not None and rel is not None:
        steps.append(lambda w_: _compose_calls(chk, rel, w_, policy))
    records = _record_types(chk, rel, w) if chk is not None and rel is not None else {}
    steps += [fold, lambda w_: _scalar_replace(w_, records), _coalesce_copies, _forward_integer_temporaries, _append_loops_to_comprehensions, _direct_io_to_assignments, _to_single_exit, _continue_to_else,
              _merge_common_tails, fold]
    for step in steps:
        # every step rewrites the copy into an equivalent form; a step that meets something it was not written for is skipped
        backup = _clone(w)
        try:
            got = step(w)
            if isinstance(got, list):
                inlined += got
        except AnalysisError:
            raise
        except Exception:
            w = backup
            w._qual = qual
    w._inlined = inlined
    ast.fix_missing_locations(w)
    _link(w)
    return w


def _accessors(cls):
    """{method name: attribute} for the methods of a class that only return one attribute of self (`def getAllData(self): return self._f`)"""
    out = {}
    for st in cls.body:
        if isinstance(st, ast.FunctionDef) and len(st.args.args) == 1 and not (st.args.vararg or st.args.kwarg or st.args.kwonlyargs) \
                and not st.decorator_list:
            body = [b for b in st.body if not (isinstance(b, ast.Expr) and isinstance(b.value, ast.Constant))]
            if len(body) == 1 and isinstance(body[0], ast.Return) and isinstance(body[0].value, ast.Attribute) \
                    and isinstance(body[0].value.value, ast.Name) and body[0].value.value.id == st.args.args[0].arg:
                out[st.name] = body[0].value.attr
    return out


def _write_back_accessors(w, acc, cls_name, self_too):
    """`obj.getX()` -> `obj.x` where `obj` is `self` inside the class or a local built by the class constructor, and getX is an
    accessor of that class: the rules then see the attribute itself"""
    if not acc:
        return
    D = _Defs(w)

    def is_obj(e):
        if not isinstance(e, ast.Name):
            return False
        if self_too and w.args.args and e.id == w.args.args[0].arg:
            return True
        ds = [v for v, _ in D.defs.get(e.id, [])]
        return bool(ds) and all(isinstance(v, ast.Call) and _fname(v) == cls_name and isinstance(v.func, ast.Name) for v in ds)

    class T(ast.NodeTransformer):
        def visit_Call(self, node):
            self.generic_visit(node)
            if isinstance(node.func, ast.Attribute) and node.func.attr in acc and not node.args and not node.keywords and is_obj(node.func.value):
                return ast.copy_location(ast.Attribute(value=node.func.value, attr=acc[node.func.attr], ctx=ast.Load()), node)
            return node
    T().visit(w)
    ast.fix_missing_locations(w)
    _link(w)


def _params(fn):
    a = fn.args
    out = [x.arg for x in a.posonlyargs + a.args + a.kwonlyargs]
    if a.vararg:
        out.append(a.vararg.arg)
    if a.kwarg:
        out.append(a.kwarg.arg)
    return out


# =========================================================================================================
# local definitions: expressions with single-definition locals written out
# =========================================================================================================
class _Defs:
    def __init__(self, fn):
        self.fn = fn
        self.params = set(_params(fn))
        self.defs: dict[str, list] = {}          # name -> [(value expr or None (opaque), statement)]
        for n in _own_walk(fn):
            if isinstance(n, ast.Assign):
                for t in n.targets:
                    self._bind(t, n.value, n)
            elif isinstance(n, ast.AnnAssign) and n.value is not None:
                self._bind(n.target, n.value, n)
            elif isinstance(n, ast.AugAssign):
                self._bind(n.target, None, n)
            elif isinstance(n, (ast.For, ast.AsyncFor)):
                self._bind(n.target, None, n)
            elif isinstance(n, ast.NamedExpr):
                self._bind(n.target, n.value, n)
            elif isinstance(n, (ast.Import, ast.ImportFrom)):
                for al in n.names:
                    self.defs.setdefault((al.asname or al.name).split(".")[0], []).append((None, n))
            elif isinstance(n, (ast.FunctionDef, ast.ClassDef)):
                self.defs.setdefault(n.name, []).append((None, n))
            elif isinstance(n, ast.ExceptHandler) and n.name:
                self.defs.setdefault(n.name, []).append((None, n))

    def _bind(self, t, v, st):
        if isinstance(t, ast.Name):
            self.defs.setdefault(t.id, []).append((v, st))
        elif isinstance(t, (ast.Tuple, ast.List)):
            if isinstance(v, (ast.Tuple, ast.List)) and len(v.elts) == len(t.elts) and not any(isinstance(e, ast.Starred) for e in t.elts + v.elts):
                for a, b in zip(t.elts, v.elts):
                    self._bind(a, b, st)
            else:
                for k, a in enumerate(t.elts):
                    if isinstance(a, ast.Starred):
                        self._bind(a.value, None, st)
                    elif v is not None and not any(isinstance(e, ast.Starred) for e in t.elts):
                        # element k of the value: kept symbolic as value[k]
                        self._bind(a, ast.Subscript(value=v, slice=ast.Constant(value=k), ctx=ast.Load()), st)
                    else:
                        self._bind(a, None, st)

    def one(self, name, within=None):
        """the defining expression of a local with exactly one definition (inside `within`, when given and ambiguous)"""
        if name in self.params:
            return None
        ds = self.defs.get(name, [])
        if len(ds) != 1 and within is not None:
            inside = {id(x) for x in (ast.walk(within) if isinstance(within, ast.AST) else (y for s in within for y in ast.walk(s)))}
            ds = [d for d in ds if id(d[1]) in inside]
        if len(ds) != 1 or ds[0][0] is None:
            return None
        v = ds[0][0]
        if any(isinstance(x, ast.Name) and x.id == name for x in ast.walk(v)):
            return None
        return v

    def resolve(self, e, within=None, depth=8, stop=(), only=None):
        """copy of expression `e` with every single-definition local replaced by its definition (recursively);
        `only(value)` restricts the definitions that are written out"""
        defs = self

        class R(ast.NodeTransformer):
            def __init__(self, d, bound):
                self.d, self.bound = d, bound

            def _scoped(self, node, names):
                return R(self.d, self.bound | names).generic_visit(node)

            def visit_ListComp(self, node):
                return self._scoped(node, _comp_names(node))
            visit_SetComp = visit_GeneratorExp = visit_DictComp = visit_ListComp

            def visit_Lambda(self, node):
                return self._scoped(node, set(_params(node)))

            def visit_Name(self, node):
                if not isinstance(node.ctx, ast.Load) or node.id in self.bound or node.id in stop or self.d <= 0:
                    return node
                v = defs.one(node.id, within)
                if v is None or (only is not None and not only(v)) or _is_ctor(v):
                    return node          # an object built by a class constructor keeps its name (identity matters)
                new = R(self.d - 1, self.bound).visit(_clone(v))
                for x in ast.walk(new):
                    ast.copy_location(x, node)
                return new
        return R(depth, set()).visit(_clone(e))


def _is_ctor(v):
    return isinstance(v, ast.Call) and isinstance(v.func, ast.Name) and v.func.id[:1].isupper()


def _reaching(D, name, node):
    """the definition of local `name` that reaches `node`: the last unconditional assignment before it in an enclosing block
    (None when a conditional assignment intervenes or none is found)"""
    ch, p = node, parent(node)
    while p is not None:
        for f in ("body", "orelse", "finalbody"):
            b = getattr(p, f, None)
            if isinstance(b, list) and any(x is ch for x in b):
                k = next(i for i, x in enumerate(b) if x is ch)
                for st in reversed(b[:k]):
                    for v, dst in D.defs.get(name, []):
                        if dst is st:
                            return v
                    if any(dst is x for v, dst in D.defs.get(name, []) for x in ast.walk(st)):
                        return None
        if isinstance(p, (ast.FunctionDef, ast.AsyncFunctionDef)):
            return None
        ch, p = p, parent(p)
    return None


def _comp_names(node):
    out = set()
    for g in getattr(node, "generators", []):
        for x in ast.walk(g.target):
            if isinstance(x, ast.Name):
                out.add(x.id)
    return out


def _is_const(e, value=None, typ=None):
    return isinstance(e, ast.Constant) and (value is None or e.value == value) and (typ is None or isinstance(e.value, typ))


def _arg(call, pos, kw=None):
    if pos is not None and len(call.args) > pos and not any(isinstance(a, ast.Starred) for a in call.args[:pos + 1]):
        return call.args[pos]
    for k in call.keywords:
        if kw is not None and k.arg == kw:
            return k.value
    return None


def _fname(call):
    f = call.func
    return f.id if isinstance(f, ast.Name) else f.attr if isinstance(f, ast.Attribute) else ""


# =========================================================================================================
# W1: writer / readers of the HDF5 checkpoint agree
# =========================================================================================================
_WRAP = {"array", "asarray", "list", "tuple"}
LAYOUT_PROPS = {"name", "ndims", "dims_order", "inv_dims_order", "starts", "ends", "shape", "fullShape", "max_block_shape", "size",
                "max_block_size", "nprocs", "ranks"}          # properties of pygyro.model.layout.Layout (checked in run())
# the properties whose MEANING this file knows (those of the reference Layout).  A diagnosis "this is not the block / the global
# shape / the order" may only name one of these: a property a refactoring introduced (an alias, a cached block) has a meaning
# the rules have not read, so a form that uses it is undecided, never wrong
_REF_LAYOUT_PROPS = frozenset(LAYOUT_PROPS)


def _known_prop(attr):
    return attr in _REF_LAYOUT_PROPS and attr in LAYOUT_PROPS


def _fixed_layout(text):
    """the layout expression names one fixed layout (`....getLayout('poloidal')`) instead of the current / stored one"""
    try:
        e = ast.parse(text, mode="eval").body
    except SyntaxError:
        return False
    return isinstance(e, ast.Call) and _fname(e) == "getLayout" and len(e.args) == 1 and _is_const(e.args[0], typ=str)


def _strip(e):
    while isinstance(e, ast.Call) and _fname(e) in _WRAP and len(e.args) >= 1 and not isinstance(e.args[0], ast.Starred):
        e = e.args[0]
    return e


_IDX = "__i"


def _element_binding(target, it):
    """names of a loop / comprehension target -> the element they stand for at position __i of the iteration, for the iterations
    zip(A, B, ...), range(n), range(len(A)), enumerate(A); None for anything else"""
    def at(seq):
        return ast.Subscript(value=seq, slice=ast.Name(id=_IDX, ctx=ast.Load()), ctx=ast.Load())
    if not isinstance(it, ast.Call) or it.keywords or any(isinstance(a, ast.Starred) for a in it.args):
        return None
    f = _fname(it)
    if f == "zip" and it.args:
        elems = [at(a) for a in it.args]
        if isinstance(target, ast.Name):
            return {target.id: ast.Tuple(elts=elems, ctx=ast.Load())}
        if isinstance(target, ast.Tuple) and len(target.elts) == len(elems) and all(isinstance(t, ast.Name) for t in target.elts):
            return {t.id: e for t, e in zip(target.elts, elems)}
        return None
    if f == "range" and len(it.args) == 1 and isinstance(target, ast.Name):
        return {target.id: ast.Name(id=_IDX, ctx=ast.Load())}
    if f == "enumerate" and len(it.args) == 1 and isinstance(target, ast.Tuple) and len(target.elts) == 2 \
            and all(isinstance(t, ast.Name) for t in target.elts):
        return {target.elts[0].id: ast.Name(id=_IDX, ctx=ast.Load()), target.elts[1].id: at(it.args[0])}
    return None


class _TupleSimplify(ast.NodeTransformer):
    """(a, b)[k] -> a / b;   f(*(a, b)) -> f(a, b)"""
    def visit_Subscript(self, node):
        self.generic_visit(node)
        k = _const_index(node.slice) if not isinstance(node.slice, ast.Slice) else None
        if isinstance(node.value, ast.Tuple) and k is not None and -len(node.value.elts) <= k < len(node.value.elts):
            return node.value.elts[k]
        return node

    def visit_Call(self, node):
        self.generic_visit(node)
        args = []
        for a in node.args:
            if isinstance(a, ast.Starred) and isinstance(a.value, ast.Tuple):
                args.extend(a.value.elts)
            else:
                args.append(a)
        node.args = args
        return node


def _hyperslab(e):
    """a selection whose element i is slice(A[i], B[i]) for every i -> (A, B).  Recognised: tuple / list of a comprehension over
    zip(A, B) / range(n) / enumerate(A) whose element is slice(s, e), slice(*se), slice(se[0], se[1]), slice(A[i], B[i]) ...;
    map(slice, A, B); starmap(slice, zip(A, B)); map(lambda s, e: slice(s, e), A, B)"""
    if not (isinstance(e, ast.Call) and _fname(e) in ("tuple", "list") and len(e.args) == 1):
        return None
    c = e.args[0]
    while isinstance(c, ast.Call) and _fname(c) in ("list", "tuple") and len(c.args) == 1:
        c = c.args[0]
    elt = None
    if isinstance(c, ast.Call) and _fname(c) == "map" and len(c.args) >= 2 and not c.keywords:
        fn_, seqs = c.args[0], c.args[1:]
        zipped = ast.Call(func=ast.Name(id="zip", ctx=ast.Load()), args=list(seqs), keywords=[])
        if isinstance(fn_, ast.Name) and fn_.id == "slice":
            b = _element_binding(ast.Name(id="__e", ctx=ast.Store()), zipped)
            elt = ast.Call(func=fn_, args=[ast.Starred(value=b["__e"], ctx=ast.Load())], keywords=[]) if b else None
        elif isinstance(fn_, ast.Lambda) and not (fn_.args.vararg or fn_.args.kwarg or fn_.args.kwonlyargs or fn_.args.defaults) \
                and len(fn_.args.args) == len(seqs):
            b = _element_binding(ast.Tuple(elts=[ast.Name(id=a.arg, ctx=ast.Store()) for a in fn_.args.args], ctx=ast.Store()), zipped)
            elt = _Sub(b).visit(_clone(fn_.body)) if b else None
    elif isinstance(c, ast.Call) and _fname(c) == "starmap" and len(c.args) == 2 and isinstance(c.args[0], ast.Name) and c.args[0].id == "slice":
        b = _element_binding(ast.Name(id="__e", ctx=ast.Store()), c.args[1])
        elt = ast.Call(func=c.args[0], args=[ast.Starred(value=b["__e"], ctx=ast.Load())], keywords=[]) if b else None
    elif isinstance(c, (ast.ListComp, ast.GeneratorExp)) and len(c.generators) == 1 and not c.generators[0].ifs:
        g = c.generators[0]
        b = _element_binding(g.target, g.iter)
        elt = _Sub(b).visit(_clone(c.elt)) if b else None
    if elt is None:
        return None
    elt = _TupleSimplify().visit(elt)
    if not (isinstance(elt, ast.Call) and _fname(elt) == "slice" and isinstance(elt.func, ast.Name) and len(elt.args) == 2 and not elt.keywords):
        return None
    out = []
    for x in elt.args:
        if not (isinstance(x, ast.Subscript) and isinstance(x.slice, ast.Name) and x.slice.id == _IDX) or any(
                isinstance(n, ast.Name) and n.id == _IDX for n in ast.walk(x.value)):
            return None
        out.append(x.value)
    return out[0], out[1]


def _block_layout(ab):
    """(A, B) of a hyperslab -> ('ok', layout source) | ('bad', diagnosis) | (None, None)"""
    if ab is None:
        return None, None
    a, b = ab
    if isinstance(a, ast.Attribute) and isinstance(b, ast.Attribute):
        if a.attr == "starts" and b.attr == "ends" and src(a.value) == src(b.value):
            return "ok", src(a.value)
        # VIOLATED needs: both bounds are properties of the reference Layout (known meaning: only starts/ends delimit the local
        # block), taken from one layout or from a layout fixed by a literal name.  Anything else: cannot decide
        if not _known_prop(a.attr) or not _known_prop(b.attr) or (src(a.value) != src(b.value) and not (
                _fixed_layout(src(a.value)) or _fixed_layout(src(b.value)))):
            return None, None           # not attributes this rule knows: cannot decide
        return "bad", (f"the block is taken as zip({src(a)}, {src(b)}), which is not [starts, ends) of one layout: a process writes/reads "
                       "a block that is not its own part of the global array")
    return None, None


def _attr_reads(e):
    """keys of `X.attrs[<key>]` / `X.attrs.get(<key>)` in an expression"""
    out = []
    for n in ast.walk(e):
        if isinstance(n, ast.Subscript) and isinstance(n.value, ast.Attribute) and n.value.attr == "attrs" and _is_const(n.slice, typ=str):
            out.append(n.slice.value)
        elif isinstance(n, ast.Call) and isinstance(n.func, ast.Attribute) and n.func.attr == "get" and isinstance(n.func.value, ast.Attribute) \
                and n.func.value.attr == "attrs" and n.args and _is_const(n.args[0], typ=str):
            out.append(n.args[0].value)
    return out


def _is_file_open(e):
    return isinstance(e, ast.Call) and _fname(e) == "File"


def _reader_facts(fn, D):
    """dataset keys read from an h5py file, attribute keys read, and the statement that fills `<obj>._f` from the dataset"""
    keys, akeys, loads = [], [], []
    for n in _own_walk(fn):
        if isinstance(n, ast.Subscript) and isinstance(n.ctx, ast.Load) and _is_const(n.slice, typ=str) and _is_file_open(D.resolve(n.value)):
            keys.append(n.slice.value)
        if isinstance(n, ast.expr) and not isinstance(parent(n), ast.expr):
            akeys.extend(_attr_reads(n))
        if isinstance(n, ast.Assign) and len(n.targets) == 1 and isinstance(n.targets[0], ast.Subscript) and \
                isinstance(n.targets[0].value, ast.Name) and isinstance(D.resolve(n.value), ast.Subscript):
            # the array was given a local name first (`dest = obj._f` ... `dest[:] = ...`): the name refers to the same array as
            # long as the attribute is not assigned anew in this function - then the store is a store into the attribute's array
            al = D.one(n.targets[0].value.id)
            if isinstance(al, ast.Attribute) and al.attr == "_f" and isinstance(al.value, ast.Name) and not any(
                    isinstance(x, ast.Attribute) and isinstance(x.ctx, ast.Store) and x.attr == "_f" for x in _own_walk(fn)) \
                    and not any(_pos(al) < _pos(st_) < _pos(n) for v_, st_ in D.defs.get(al.value.id, [])):
                n.targets[0].value = ast.copy_location(_clone(al), n.targets[0].value)
        if isinstance(n, ast.Assign) and len(n.targets) == 1 and isinstance(n.targets[0], ast.Subscript) and \
                isinstance(n.targets[0].value, ast.Attribute) and n.targets[0].value.attr == "_f" and isinstance(D.resolve(n.value), ast.Subscript):
            if not isinstance(n.value, ast.Subscript):
                n.value = D.resolve(n.value)            # the block was given a name first: written out
            base = D.resolve(n.value.value)
            if isinstance(base, ast.Subscript) and _is_file_open(base.value):
                loads.append(n)
    return keys, akeys, loads


def _file_reads_complete(fn, D):
    """every access to an opened HDF5 file in `fn` is `<file>[<literal path>]`, not continued by a further literal key (a group) and
    not made through .get / groups / visitors: the list of dataset paths read (`_reader_facts`) is then the complete list"""
    for n in _own_walk(fn):
        if isinstance(n, ast.Subscript) and _is_file_open(D.resolve(n.value)):
            if not _is_const(n.slice, typ=str):
                return False
            p_ = parent(n)
            if isinstance(p_, ast.Subscript) and p_.value is n and _is_const(p_.slice, typ=str):
                return False
        if isinstance(n, ast.Call) and isinstance(n.func, ast.Attribute) and n.func.attr in (
                "get", "require_group", "create_group", "visit", "visititems", "items", "values", "keys") and _is_file_open(D.resolve(n.func.value)):
            return False
    return True


def _eq_form(test):
    """-> (A, B, kind) with kind 'all-equal' / 'some-differ' / 'some-equal' / 'all-differ' describing when `test` is true"""
    neg = False
    while isinstance(test, ast.UnaryOp) and isinstance(test.op, ast.Not):
        test, neg = test.operand, not neg
    q, cmp_ = None, None
    if isinstance(test, ast.Call) and isinstance(test.func, ast.Attribute) and test.func.attr in ("all", "any") and not test.args \
            and isinstance(test.func.value, ast.Compare):
        q, cmp_ = test.func.attr, test.func.value
    elif isinstance(test, ast.Call) and _fname(test) in ("all", "any") and len(test.args) == 1 and isinstance(test.args[0], ast.Compare):
        q, cmp_ = _fname(test), test.args[0]
    elif isinstance(test, ast.Call) and _fname(test) in ("array_equal", "array_equiv") and len(test.args) == 2:
        a, b = test.args
        return a, b, "some-differ" if neg else "all-equal"
    elif isinstance(test, ast.Compare):
        q, cmp_ = "all", test
    if cmp_ is None or len(cmp_.ops) != 1 or not isinstance(cmp_.ops[0], (ast.Eq, ast.NotEq)):
        return None
    eq = isinstance(cmp_.ops[0], ast.Eq)
    kind = {("all", True): "all-equal", ("any", True): "some-equal", ("all", False): "all-differ", ("any", False): "some-differ"}[(q, eq)]
    if isinstance(test, ast.Compare) and not eq:
        kind = "some-differ"        # sequence inequality
    if neg:
        kind = {"all-equal": "some-differ", "some-differ": "all-equal", "some-equal": "all-differ", "all-differ": "some-equal"}[kind]
    return cmp_.left, cmp_.comparators[0], kind


def hdf5_agreement(chk):
    # writer and loader are found by role: the methods an instance of Grid has under these names, in Grid or in a base / mixin
    w0, w_rel, w_q = _grid_method(chk, "writeH5Dataset")
    r0, r_rel, r_q = _grid_method(chk, "loadFromFile")
    s0 = chk.func(U.SETUPS, "setupFromFile")
    w, r, s = _work(w0, chk, w_rel, "h5"), _work(r0, chk, r_rel, "h5"), _work(s0, chk, U.SETUPS, "h5")
    acc = _accessors(chk.mod(U.GRID).cls("Grid"))
    _write_back_accessors(w, acc, "Grid", True)
    _write_back_accessors(r, acc, "Grid", True)
    _write_back_accessors(s, acc, "Grid", False)
    Dw, Dr, Ds = _Defs(w), _Defs(r), _Defs(s)
    KW, KR, KS = dict(file=w_rel, func=w_q), dict(file=r_rel, func=r_q), dict(file=U.SETUPS, func="setupFromFile")

    # ---- what the writer does
    creates = [n for n in _own_walk(w) if isinstance(n, ast.Call) and _fname(n) in ("create_dataset", "require_dataset")]
    wname = wshape = None
    if len(creates) == 1:
        wname, wshape = _arg(creates[0], 0, "name"), _arg(creates[0], 1, "shape")
    def is_written_dataset(e_):
        """the dataset the writer created: the result of create_dataset, or <file opened here>[<the created name>]"""
        e_ = Dw.resolve(e_)
        if isinstance(e_, ast.Call) and _fname(e_) in ("create_dataset", "require_dataset"):
            return True
        return isinstance(e_, ast.Subscript) and _is_file_open(e_.value) and _is_const(e_.slice, typ=str) and wname is not None \
            and _is_const(wname, typ=str) and e_.slice.value.lstrip("/") == wname.value.lstrip("/")
    stores = [n for n in _own_walk(w) if isinstance(n, ast.Assign) and len(n.targets) == 1 and isinstance(n.targets[0], ast.Subscript)
              and is_written_dataset(n.targets[0].value)]
    wattr = []      # (key node, data node)
    for n in _own_walk(w):
        if isinstance(n, ast.Call) and isinstance(n.func, ast.Attribute) and n.func.attr in ("create", "modify") and \
                isinstance(n.func.value, ast.Attribute) and n.func.value.attr == "attrs":
            wattr.append((_arg(n, 0, "name"), _arg(n, 1, "data")))
        elif isinstance(n, ast.Assign) and len(n.targets) == 1 and isinstance(n.targets[0], ast.Subscript) and \
                isinstance(n.targets[0].value, ast.Attribute) and n.targets[0].value.attr == "attrs":
            wattr.append((n.targets[0].slice, n.value))
    rkeys, rakeys, rloads = _reader_facts(r, Dr)
    skeys, sakeys, sloads = _reader_facts(s, Ds)

    # ---- dataset name
    ok = bad = None
    if wname is not None and _is_const(wname, typ=str) and rkeys and skeys:
        # every dataset path read on either read path (a path may be read more than once, e.g. attribute first, block later)
        wn = wname.value.lstrip("/")
        nr, ns = {k.lstrip("/") for k in rkeys}, {k.lstrip("/") for k in skeys}
        if nr == {wn} and ns == {wn}:
            ok = True
        else:
            # VIOLATED needs: (a) the dataset is created directly in the opened file (not inside a group, whose path would be
            # composed of two keys); (b) a reader whose COMPLETE list of paths read (all literal, none continued into a group,
            # no .get / visitor) does not contain the created path.  A reader that reads the created path and something else
            # besides is a change of the file format this rule does not follow: cannot decide
            direct = isinstance(creates[0].func, ast.Attribute) and _is_file_open(Dw.resolve(creates[0].func.value)) and "/" not in wn
            culprits = [who for who, names, fn_, D_ in (("loadFromFile", nr, r, Dr), ("setupFromFile", ns, s, Ds))
                        if wn not in names and _file_reads_complete(fn_, D_) and all("/" not in k for k in names)]
            if direct and culprits:
                show = lambda ks: "/".join(sorted({repr(k) for k in ks}))
                bad = (f"the writer creates dataset '{wname.value}', loadFromFile reads {show(rkeys)}, setupFromFile reads {show(skeys)}: "
                       f"{' and '.join(culprits)} cannot read a checkpoint back (KeyError)")
    chk.pat("W1-dataset-name", w0, "dataset 'dset'", ok, "writer and both readers use the same dataset path", bad, **KW)

    # ---- the block the writer writes
    wl_kind = wl = None
    if len(stores) == 1:
        wl_kind, wl = _block_layout(_hyperslab(Dw.resolve(stores[0].targets[0].slice)))
    ok = bad = None
    if wl_kind == "bad":
        bad = wl
    elif wl_kind == "ok" and wshape is not None:
        shp = Dw.resolve(wshape)
        val = Dw.resolve(stores[0].value)
        val_ok = src(val) in ("self._f[:]", "self._f", "self._f[...]")
        # assumptions of the two diagnoses below: the value written is the grid's own array `self._f` (val_ok), which has the shape
        # of the current layout `self._layout` as long as the writer does not change the layout itself (no setLayout / no store
        # to self._layout / self._f in the writer); the shape is a property of the reference Layout other than fullShape
        steady = not any((isinstance(n, ast.Call) and _fname(n) in ("setLayout", "transpose", "swapaxes", "moveaxis"))
                         or (isinstance(n, ast.Attribute) and isinstance(n.ctx, ast.Store) and n.attr in ("_layout", "_f")) for n in _own_walk(w))
        if wl != "self._layout":
            if _fixed_layout(wl) and val_ok and steady:
                bad = (f"the block written is [starts, ends) of the fixed layout `{wl}`, but the data `self._f` is stored in the current "
                       "layout `self._layout`: the file does not hold the global array in the recorded order")
        elif isinstance(shp, ast.Attribute) and src(shp.value) == wl and shp.attr != "fullShape" and _known_prop(shp.attr):
            bad = (f"the dataset is created with shape `{src(shp)}` instead of the global shape `{wl}.fullShape`: the blocks of the "
                   "other processes do not fit into the file")
        elif src(shp) == wl + ".fullShape" and val_ok:
            ok = True
    if ok and len(stores) == 1:
        ok, bad = _always_done(w, stores[0], "the write of the local block", "writeH5Dataset", chk)
    chk.pat("W1-hyperslab", w0, "dset[starts:ends] <-> _f", ok, "the file holds the global array in the current layout's order; each "
            "process writes exactly its [start,end) block of it", bad, **KW)

    # ---- the layout attribute
    guards = []
    for n in _own_walk(r):
        t = None
        if isinstance(n, ast.Assert):
            t, want = n.test, "all-equal"
        elif isinstance(n, ast.If) and n.body and isinstance(n.body[0], ast.Raise):
            t, want = n.test, "some-differ"
        elif isinstance(n, ast.Expr) and isinstance(n.value, ast.Call) and _fname(n.value) in ("assert_array_equal", "assert_equal") \
                and len(n.value.args) >= 2:
            # numpy.testing: raises unless all elements are equal
            t, want = ast.copy_location(ast.Call(func=ast.Name(id="array_equal", ctx=ast.Load()), args=list(n.value.args[:2]), keywords=[]), n), "all-equal"
        if t is not None:
            rt = Dr.resolve(t)
            if _attr_reads(rt):
                guards.append((rt, want, n))
    reader_attr = None          # the Layout property the loader compares the stored attribute with
    if len(guards) == 1:
        f_ = _eq_form(guards[0][0])
        if f_ is not None:
            for side in (_strip(f_[0]), _strip(f_[1])):
                if isinstance(side, ast.Attribute) and not _attr_reads(side) and side.attr in LAYOUT_PROPS:
                    reader_attr = side
    ok = bad = None
    skip = wl_kind == "bad"          # decided (and reported) by the hyperslab rule
    if len(wattr) == 1 and wattr[0][0] is not None and wattr[0][1] is not None and _is_const(wattr[0][0], typ=str) and rakeys and sakeys:
        key = wattr[0][0].value
        data = _strip(Dw.resolve(wattr[0][1]))
        # the writer's list of attributes is complete when every mention of `.attrs` in it is the one recognised store
        w_complete = sum(1 for n in _own_walk(w) if isinstance(n, ast.Attribute) and n.attr == "attrs") == 1
        if set(rakeys) != {key} or set(sakeys) != {key}:
            # VIOLATED needs a reader that never reads the recorded attribute although it reads attributes (by literal key), and
            # a writer that provably writes no other attribute.  A reader that reads the recorded attribute AND another one
            # (an optional one read with .get, a version stamp) is not decided here
            if w_complete and (key not in set(rakeys) or key not in set(sakeys)):
                bad = (f"the writer records the attribute '{key}' but the readers read {sorted(set(rakeys) | set(sakeys))}: the stored "
                       "layout is not found on loading (KeyError)")
        elif isinstance(data, ast.Attribute) and wl_kind == "ok":
            if src(data) == wl + ".dims_order":
                ok = True
            elif data.attr != "dims_order" and src(data.value) == wl and _known_prop(data.attr):
                # relational: what the writer records against what the loader compares the stored value with; both must be
                # properties of the reference Layout (known to be different things) - an alias introduced by a refactoring is not
                if reader_attr is not None and reader_attr.attr != data.attr and _known_prop(reader_attr.attr):
                    bad = (f"the writer records `{src(data)}` in the attribute '{key}', but loadFromFile compares the stored value with "
                           f"`{src(reader_attr)}`: "
                           "checkpoints are refused or read in the wrong order")
                # else: writer and loader agree on another property: a consistent other convention, not decided here
            elif data.attr == "dims_order" and _fixed_layout(src(data.value)):
                bad = (f"the attribute records the order of `{src(data.value)}` while the data are written in the order of `{wl}`: "
                       "a reader that trusts the attribute reinterprets the axes")
    if not skip:
        chk.pat("W1-layout-attribute", w0, "attribute 'Layout' = dims_order", ok, "the recorded layout is the dims_order of the layout the "
                "data are written in, and both readers read the same attribute", bad, **KW)

    # ---- loadFromFile: guard and block
    rl_kind = rl = None
    if len(rloads) == 1:
        rl_kind, rl = _block_layout(_hyperslab(Dr.resolve(rloads[0].value.slice)))
    ok = bad = None
    anchor = r0
    if not guards:
        holders = {t.id for n in _own_walk(r) if isinstance(n, ast.Assign) and _attr_reads(n.value) for t in n.targets if isinstance(t, ast.Name)}
        passed_on = any(isinstance(n, ast.Call) and any(isinstance(x, ast.Name) and x.id in holders for a in n.args for x in ast.walk(a))
                        and not (_fname(n) in _WRAP) for n in _own_walk(r)) or any(
            isinstance(n, ast.Call) and any(_attr_reads(a) for a in n.args) and _fname(n) not in _WRAP for n in _own_walk(r))
        # the opened file / dataset handed to some other callable (a helper may do the comparison): cannot decide
        h5 = {t.id for n in _own_walk(r) if isinstance(n, ast.Assign) for t in n.targets if isinstance(t, ast.Name)
              and (_is_file_open(Dr.resolve(n.value)) or (isinstance(Dr.resolve(n.value), ast.Subscript) and _is_file_open(Dr.resolve(n.value).value)))}
        handed = any(isinstance(n, ast.Call) and _fname(n) not in _WRAP and any(isinstance(a, ast.Name) and a.id in h5 for a in
                     list(n.args) + [k.value for k in n.keywords]) for n in _own_walk(r))
        used = any(isinstance(n, ast.Name) and n.id in holders and isinstance(n.ctx, ast.Load) for n in _own_walk(r))
        tests_attr = any(isinstance(n, (ast.If, ast.While, ast.IfExp)) and _attr_reads(Dr.resolve(n.test)) for n in _own_walk(r))
        # VIOLATED ("never compared") needs every path by which a comparison could be made to be visible: the attribute value, the
        # file and the dataset are not handed to any callable, no test reads the attribute, and no code introduced by a
        # refactoring is called that the composition could not write back (the comparison may have moved there)
        if rloads and not passed_on and not handed and not tests_attr and not _calls_new_code(chk, r, U.GRID):
            if not rakeys:
                bad = ("the stored 'Layout' attribute is never read and nothing compares it with the layout of the grid: a checkpoint "
                       "written in another layout is loaded with permuted axes")
            elif holders and not used:
                bad = (f"the stored 'Layout' attribute is read into `{sorted(holders)[0]}` but never compared with the layout of the grid "
                       "(no assertion, no refusal): a checkpoint written in another layout is loaded with permuted axes")
    elif len(guards) == 1:
        rt, want, anchor = guards[0]
        f = _eq_form(rt)
        if f is not None:
            a, b, kind = f
            a, b = _strip(a), _strip(b)
            if not _attr_reads(a):
                a, b = b, a
            if _attr_reads(a) and isinstance(b, ast.Attribute) and b.attr == "dims_order":
                if kind != want:
                    bad = (f"the guard `{src(guards[0][0])[:90]}` passes when {kind.replace('-', ' ')} instead of requiring every "
                           "position of the stored order to equal the grid's: a checkpoint of another layout is accepted")
                elif rl_kind == "ok" and src(b.value) != rl:
                    if _fixed_layout(src(b.value)) or _fixed_layout(rl):
                        bad = (f"the stored order is compared with `{src(b)}` but the block is read with the starts/ends of `{rl}`")
                elif rl_kind == "ok" or src(b.value) == "self._layout":
                    ok = True
    if ok and len(guards) == 1:
        ok, bad = _always_done(r, guards[0][2], "the comparison of the stored layout with the grid's", "loadFromFile", chk)
    chk.pat("W1-layout-guard", anchor if anchor is not r0 else r0, "assert (order == self._layout.dims_order).all()", ok,
            "loading into a grid whose layout differs from the stored one is refused", bad, **KR)
    ok = bad = None
    if rl_kind == "bad":
        bad = rl
    elif rl_kind == "ok":
        tgt = rloads[0].targets[0]
        if rl != "self._layout" and src(tgt.value) == "self._f":
            # assumes `self._f` has the shape of `self._layout`, not of the literal layout: true unless the loader itself switches
            # the grid to that layout first (then the two are the same layout: not decided here)
            if _fixed_layout(rl) and not any(isinstance(n, ast.Call) and _fname(n) == "setLayout" for n in _own_walk(r)):
                bad = f"the block read is [starts, ends) of `{rl}` but it is stored into `self._f`, which has the shape of `self._layout`"
        elif src(tgt.value) == "self._f":
            ok = True
    if ok and len(rloads) == 1:
        ok, bad = _always_done(r, rloads[0], "the read of the local block", "loadFromFile", chk)
    chk.pat("W1-hyperslab", r0, "loadFromFile: self._f <- dataset[starts:ends] of the same layout", ok,
            "each process reads the [start,end) block of its current layout, the layout the guard has compared with the file", bad, **KR)

    # ---- setupFromFile: grid in the stored layout, filled with that layout's block
    ok = bad = None
    ML = None            # the local holding the name of the stored layout
    if len(sloads) == 1:
        sl_kind, sl = _block_layout(_hyperslab(Ds.resolve(sloads[0].value.slice, within=_enclosing_block(sloads[0]))))
        if sl_kind == "bad":
            bad = sl
        elif sl_kind == "ok":
            lay = ast.parse(sl, mode="eval").body
            gobj = src(sloads[0].targets[0].value.value)            # `grid` of grid._f
            ctor = Ds.one(gobj, within=_enclosing_block(sloads[0]))
            roles = _grid_ctor_roles(chk)
            if isinstance(ctor, ast.Call) and _fname(ctor) == "Grid" and roles is not None and src(lay) == f"{gobj}.{roles['attr']}":
                # the block is taken by the grid's own current layout (the read moved into a method of the grid): right after the
                # constructor that is <layout manager argument>.getLayout(<layout argument>), as Grid.__init__ sets it - unless the
                # layout is changed between construction and load
                larg, mgr = _arg(ctor, roles["layout"][0], roles["layout"][1]), _arg(ctor, roles["manager"][0], roles["manager"][1])
                ctor_st = next((st for v, st in Ds.defs.get(gobj, []) if v is ctor), None)
                moved = [n for n in _own_walk(s) if isinstance(n, ast.Call) and isinstance(n.func, ast.Attribute) and src(n.func.value) == gobj
                         and n.func.attr not in acc and ctor_st is not None and _pos(ctor_st) <= _pos(n) <= _pos(sloads[0])
                         and not any(x is n for x in ast.walk(sloads[0]))]
                moved += [n for n in _own_walk(s) if isinstance(n, ast.Attribute) and isinstance(n.ctx, ast.Store) and src(n.value) == gobj
                          and n.attr == roles["attr"]]
                if larg is not None and mgr is not None and not moved:
                    lay = ast.parse(f"{src(mgr)}.getLayout({src(larg)})", mode="eval").body
                else:
                    # a change of layout between construction and load: the block is then taken by the NEW current layout
                    sw = [n for n in moved if isinstance(n, ast.Call) and n.func.attr == "setLayout" and len(n.args) == 1]
                    if sw and len(sw) == len(moved) and larg is not None:
                        a_ = Ds.resolve(sw[-1].args[0], within=_enclosing_block(sw[-1]))
                        if src(a_) != src(Ds.resolve(larg, within=_enclosing_block(sloads[0]))) and any(_is_const(x, "layout") for x in ast.walk(a_)) \
                                and "kwargs" in src(a_):
                            bad = (f"the grid is switched to the requested layout (`{src(sw[-1])[:60]}`) BEFORE its block is read: the block is "
                                   f"taken by the starts/ends of that layout from a file written in the order of `{src(larg)}` (or the "
                                   "layout guard of the reading method refuses the file): a restart into another start layout fails or "
                                   "reads permuted data")
            if isinstance(lay, ast.Call) and _fname(lay) == "getLayout" and isinstance(lay.func, ast.Attribute) and len(lay.args) == 1 \
                    and isinstance(ctor, ast.Call) and _fname(ctor) == "Grid" and roles is not None:
                larg = _arg(ctor, roles["layout"][0], roles["layout"][1])
                larg_r = Ds.resolve(larg, within=_enclosing_block(sloads[0])) if larg is not None else None
                mgr = _arg(ctor, roles["manager"][0], roles["manager"][1])
                # VIOLATED needs two layout names that provably can differ: one is the layout the CALLER requests
                # (kwargs['layout'] / kwargs.pop('layout')), the other is not; or one is a literal name and the other is not, and no
                # test around the construction / the load mentions that literal (a dispatch by cases `if name == 'poloidal': ...`
                # makes the two equal).  Two different expressions alone are not enough
                request = lambda e_: any(_is_const(x, "layout") for x in ast.walk(e_)) and "kwargs" in src(e_)
                literal = lambda e_: _is_const(e_, typ=str)
                around = [t_ for n_ in (sloads[0], ctor) for t_, p_, k_ in guards_of(n_, stop=s)]
                if src(lay.func.value) != gobj and (mgr is None or src(lay.func.value) != src(mgr)):
                    pass                    # a layout of some other object: cannot decide
                elif larg is not None and src(larg_r) != src(lay.args[0]):
                    lit = [e_ for e_ in (larg_r, lay.args[0]) if literal(e_)]
                    if request(larg_r) != request(lay.args[0]) and not lit:
                        bad = (f"the grid is created in layout `{src(larg)}` but filled with the block of layout `{src(lay.args[0])[:60]}`: "
                               "the data are reinterpreted in another order of the dimensions")
                    elif len(lit) == 1 and not any(_is_const(x, lit[0].value) for t_ in around for x in ast.walk(t_)):
                        bad = (f"the grid is created in layout `{src(larg)}` but filled with the block of layout `{src(lay.args[0])[:60]}`: "
                               "the data are reinterpreted in another order of the dimensions")
                elif larg is not None and isinstance(larg, ast.Name):
                    ML = larg.id
                    ok = True
    chk.pat("W1-hyperslab", s0, "setupFromFile: grid built in the stored layout, block read by that layout's starts/ends", ok,
            "the restart grid is created in the layout found in the file and filled with this process's block of it (any process count)",
            bad, **KS)

    # ---- setupFromFile: stored order -> name of the standard layout
    skip = ML is None and bad is not None            # the two rules below need the local holding the stored layout's name
    ok = bad = None
    if ML is not None:
        ok, bad = _stored_layout_lookup(s, Ds, ML, chk)
    if not skip:
        chk.pat("W1-layout-guard", s0, "setupFromFile: stored order -> standard layout name, else refuse", ok,
                "the stored ordering selects the standard layout of that ordering; an unknown ordering is refused", bad, **KS)

    # ---- setupFromFile: the requested layout is reached by setLayout
    ok = bad = None
    if ML is not None:
        gobj = src(sloads[0].targets[0].value.value)
        sets = [n for n in _own_walk(s) if isinstance(n, ast.Call) and _fname(n) == "setLayout" and isinstance(n.func, ast.Attribute)
                and src(n.func.value) == gobj and len(n.args) == 1]
        req = []
        for c in sets:
            a = Ds.resolve(c.args[0], within=_enclosing_block(c), stop=(ML,))
            if any(_is_const(x, "layout") for x in ast.walk(a)) and "kwargs" in src(a):
                req.append(c)
        holders = {t.id for n in _own_walk(s) if isinstance(n, ast.Assign) and any(_is_const(x, "layout") for x in ast.walk(n.value))
                   and "kwargs" in src(n.value) for t in n.targets if isinstance(t, ast.Name)}
        blk = _enclosing_block(sloads[0]) or []
        handed = any(isinstance(n, ast.Call) and _fname(n) not in ("pop", "get") and any(
            isinstance(x, ast.Name) and x.id in holders for a in list(n.args) + [k.value for k in n.keywords] for x in ast.walk(a))
            for st in blk for n in ast.walk(st))
        # VIOLATED ("never") needs: the request is not handed to anything and no code of a refactoring is called that could make
        # the change of layout (a method of the grid that loads AND switches)
        if not sets and not handed and not _calls_new_code(chk, s, U.SETUPS):
            bad = ("the grid read from the checkpoint is never brought to the requested layout (no setLayout): the caller receives it in "
                   "the stored layout")
        elif len(req) == 1:
            c = req[0]
            gs = [(Ds.resolve(t, within=_enclosing_block(c), stop=(ML,)), pol) for t, pol, k in guards_of(c) if k == "if"]
            a = src(Ds.resolve(c.args[0], within=_enclosing_block(c), stop=(ML,)))
            for t, pol in gs:
                if isinstance(t, ast.Compare) and len(t.ops) == 1 and isinstance(t.ops[0], (ast.NotEq, ast.Eq)):
                    sides = {src(t.left), src(t.comparators[0])}
                    if ML in sides and (a in sides or src(c.args[0]) in sides):
                        if isinstance(t.ops[0], ast.NotEq) == pol:
                            ok = True
                        else:
                            bad = (f"setLayout is called when the requested layout EQUALS the stored one (`{src(t)}`): a different "
                                   "requested layout is never reached")
    if not skip:
        chk.pat("W1-layout-guard", s0, "setupFromFile: change to the requested layout after loading", ok,
                "the grid is brought to the requested start layout by setLayout, never by reinterpreting the data", bad, **KS)


def _always_done(fn, node, what, who, chk=None):
    """is the statement `node` of the working copy `fn` executed on every call (on every process)?  -> (True, None) when it depends
    on no condition, or only on a parameter whose default value lets it run; (None, diagnosis) when a parameter's default switches
    it off; (None, None) when it depends on any other condition (cannot decide)"""
    gs = [(t, pol, k) for t, pol, k in guards_of(node, stop=fn)]
    if not gs:
        return True, None
    a = fn.args
    defaults = dict(zip([x.arg for x in a.args][len(a.args) - len(a.defaults):], a.defaults))
    defaults.update({x.arg: d for x, d in zip(a.kwonlyargs, a.kw_defaults) if d is not None})
    stored = {n.id for n in _own_walk(fn) if isinstance(n, ast.Name) and isinstance(n.ctx, ast.Store)}
    verdict = True

    def is_rank(x):
        """a process rank: a name / attribute called rank or ..._rank / ...Rank, or a Get_rank() call (not `ranks`, `nranks`)"""
        nm = x.id if isinstance(x, ast.Name) else x.attr if isinstance(x, ast.Attribute) else \
            _fname(x) if isinstance(x, ast.Call) and not x.args else ""
        return nm.lower() == "rank" or nm.lower().endswith("_rank") or nm.endswith("Rank")
    for t, pol, k in gs:
        if k not in ("if", "ifexp"):
            return None, None
        # VIOLATED (process subset) needs: the test compares a process rank with a literal number by == / != (one process against
        # the others), and the other arm of that `if` does not transfer anything (no subscript store, no read_direct /
        # write_direct): a different transfer by the other processes is not followed here
        if isinstance(t, ast.Compare) and len(t.ops) == 1 and isinstance(t.ops[0], (ast.Eq, ast.NotEq)):
            a_, b_ = t.left, t.comparators[0]
            if _is_const(a_, typ=int):
                a_, b_ = b_, a_
            if is_rank(a_) and (_is_const(b_, typ=int) or (isinstance(b_, ast.Name) and b_.id in ("root", "master"))):
                holder = next((p_ for p_ in _ancestors(node) if isinstance(p_, ast.If) and p_.test is t), None)
                other = [] if holder is None else (holder.orelse if pol else holder.body)
                moves = any((isinstance(x, ast.Subscript) and isinstance(x.ctx, ast.Store)) or (isinstance(x, ast.Call) and _fname(x) in (
                    "read_direct", "write_direct", "copyto")) for s_ in other for x in ast.walk(s_))
                if holder is None or moves:
                    return None, None
                return None, (f"{what} is done only by the processes for which `{src(t)}` is {'true' if pol else 'false'}: the blocks of "
                              "the other processes are not transferred, the global array in the file / the local data stay incomplete")
        while isinstance(t, ast.UnaryOp) and isinstance(t.op, ast.Not):
            t, pol = t.operand, not pol
        if not (isinstance(t, ast.Name) and t.id in defaults and t.id not in stored and isinstance(defaults[t.id], ast.Constant)
                and isinstance(defaults[t.id].value, (bool, type(None)))):
            return None, None
        if bool(defaults[t.id].value) != pol:
            # VIOLATED needs: no call of the method anywhere in the repository passes the new argument (a caller that was
            # changed together with the method keeps the transfer); call sites are found by the method's name
            if chk is None or _some_call_passes(chk, who, fn, t.id):
                return None, None
            return None, (f"{what} only runs when the new argument `{t.id}` is {'true' if pol else 'false'}, and its default is "
                          f"`{defaults[t.id].value!r}`: every existing call of {who} now skips it")
    return verdict, None


def _some_call_passes(chk, method, fn, param):
    """does some call `X.<method>(...)` / `<method>(...)` in the analysed units pass the parameter `param` of `fn` (by keyword, by
    position, or through * / ** arguments)?  True also when no call site is found at all (nothing is known about the callers)"""
    ps = [a.arg for a in fn.args.args]
    k = ps.index(param) - (1 if ps and ps[0] in ("self", "cls") else 0) if param in ps else None
    sites = 0
    for rel in U.ALL_UNITS:
        if not chk.repo.exists(rel):
            continue
        try:
            tree = chk.repo.mod(rel).tree
        except AnalysisError:
            return True
        for n in ast.walk(tree):
            if isinstance(n, ast.Call) and _fname(n) == method:
                sites += 1
                if any(kw.arg is None or kw.arg == param for kw in n.keywords) or any(isinstance(a, ast.Starred) for a in n.args) \
                        or (k is not None and len(n.args) > k):
                    return True
    return sites == 0


def _grid_ctor_roles(chk):
    """which constructor arguments of Grid are the layout manager and the name of the start layout, and the attribute that holds
    the current layout: read off `self.<attr> = <manager parameter>.getLayout(<layout parameter>)` in Grid.__init__
    -> {'attr': name, 'manager': (position, keyword), 'layout': (position, keyword)} or None"""
    try:
        # helper methods introduced by a refactoring (`self._useLayout(name)`) are written back into the constructor first
        init = _work(chk.func(U.GRID, "Grid.__init__"), chk, U.GRID)
    except AnalysisError:
        return None
    ps = [a.arg for a in init.args.args]
    D = _Defs(init)
    found = []
    for st in init.body:
        if isinstance(st, ast.Assign) and len(st.targets) == 1 and isinstance(st.targets[0], ast.Attribute) and ps \
                and src(st.targets[0].value) == ps[0]:
            v = D.resolve(st.value)
            # the manager may have been stored on self first
            if isinstance(v, ast.Call) and _fname(v) == "getLayout" and isinstance(v.func, ast.Attribute) and len(v.args) == 1 and not v.keywords:
                found.append((st.targets[0].attr, v.func.value, v.args[0]))
    if not found:
        return None
    attr, mgr, name = found[0]
    stored = {}          # self.<x> = <parameter> at the top level of __init__
    for st in init.body:
        if isinstance(st, ast.Assign) and len(st.targets) == 1 and isinstance(st.targets[0], ast.Attribute) and src(st.targets[0].value) == ps[0] \
                and isinstance(st.value, ast.Name) and st.value.id in ps:
            stored[src(st.targets[0])] = st.value.id
    def param(e):
        e_ = D.resolve(e)
        nm = e_.id if isinstance(e_, ast.Name) else stored.get(src(e_))
        return (ps.index(nm) - 1, nm) if nm in ps[1:] else None
    pm, pl = param(mgr), param(name)
    if pm is None or pl is None:
        return None
    # several top-level stores (the same assignment repeated by a helper written back) must all say the same
    if any((a_, param(m_), param(n_)) != (attr, pm, pl) for a_, m_, n_ in found[1:]):
        return None
    # the attribute is not reassigned in any other way in __init__
    if sum(1 for n in ast.walk(init) if isinstance(n, ast.Attribute) and n.attr == attr and isinstance(n.ctx, ast.Store)) != len(found):
        return None
    return {"attr": attr, "manager": pm, "layout": pl}


def _enclosing_block(node):
    """statements of the innermost if-arm / loop body / function body around a node (where its locals are defined)"""
    ch, p = node, parent(node)
    while p is not None:
        for f in ("body", "orelse", "finalbody"):
            b = getattr(p, f, None)
            if isinstance(b, list) and any(x is ch for x in b):
                if isinstance(p, (ast.If, ast.FunctionDef)):
                    return b
        ch, p = p, parent(p)
    return None


def _module_value(chk, rel, name):
    """the expression a module-level name of `rel` is bound to, when it is assigned exactly once at the top level of the module and
    mentioned nowhere else as the target of a store / item store / method call that could change it (a module-level table)"""
    try:
        tree = chk.repo.mod(rel).tree
    except AnalysisError:
        return None
    vals = [st.value for st in tree.body if isinstance(st, ast.Assign) and len(st.targets) == 1 and isinstance(st.targets[0], ast.Name)
            and st.targets[0].id == name]
    if len(vals) != 1:
        return None
    for n in ast.walk(tree):
        if isinstance(n, ast.Name) and n.id == name:
            if isinstance(n.ctx, (ast.Store, ast.Del)) and not any(isinstance(st, ast.Assign) and st.targets[0] is n for st in tree.body):
                return None
            p_ = getattr(n, "_parent", None)
            if isinstance(p_, ast.Subscript) and isinstance(p_.ctx, (ast.Store, ast.Del)):
                return None
            if isinstance(p_, ast.Attribute) and p_.attr in ("update", "pop", "popitem", "clear", "setdefault", "__setitem__", "append", "extend", "insert", "remove", "sort", "reverse"):
                return None
        if isinstance(n, ast.Global) and name in n.names:
            return None
    return vals[0]


def _stored_layout_lookup(s, Ds, ML, chk=None):
    """how the local `ML` gets the name of the standard layout whose order is the stored one -> (ok, bad)"""
    refuse = False
    mentions = False            # some other raise / assert talks about ML: an unrecognised way of refusing
    for n in _own_walk(s):
        if isinstance(n, (ast.Assert, ast.If)) and any(isinstance(x, ast.Name) and x.id == ML for x in ast.walk(n.test)) and (
                isinstance(n, ast.Assert) or any(isinstance(x, ast.Raise) for b_ in (n.body, n.orelse) for y in b_ for x in ast.walk(y))):
            mentions = True
        if isinstance(n, ast.For) and any(isinstance(x, ast.Raise) for x in n.orelse) and any(isinstance(x, ast.Break) for x in ast.walk(n)) \
                and any(isinstance(x, ast.Name) and x.id == ML and isinstance(x.ctx, ast.Store) for x in ast.walk(n)):
            refuse = True
        if isinstance(n, ast.If) and any(isinstance(x, ast.Raise) for x in n.body) and same_expr(n.test, f"{ML} is None"):
            refuse = True
        if isinstance(n, ast.Assert) and (same_expr(n.test, f"{ML} is not None") or same_expr(n.test, ML)):
            refuse = True
    defs = Ds.defs.get(ML, [])
    # form (a): loop over the table of layouts
    for n in _own_walk(s):
        if not (isinstance(n, ast.For) and isinstance(n.target, ast.Tuple) and len(n.target.elts) == 2 and isinstance(n.iter, ast.Call)
                and _fname(n.iter) == "items"):
            continue
        nm, dims = (src(x) for x in n.target.elts)
        for i in [x for x in ast.walk(n) if isinstance(x, ast.If)]:
            sets = [a for a in i.body if isinstance(a, ast.Assign) and src(a.targets[0]) == ML and src(a.value) == nm]
            if not sets:
                continue
            f = _eq_form(Ds.resolve(i.test, stop=(nm, dims)))
            if f is None:
                return None, None
            a, b, kind = f
            a, b = _strip(a), _strip(b)
            if src(a) != dims:
                a, b = b, a
            if src(a) != dims or not _attr_reads(b):
                return None, None
            if kind != "all-equal":
                return None, (f"the stored order selects a layout when `{src(i.test)}` ({kind.replace('-', ' ')}), not when every position "
                              "agrees: the data are read in the order of a layout they were not written in")
            if not refuse:
                return None, None           # audit: passing None on is refused later by the layout manager's look-up (KeyError),
                                            # not silently accepted: no violation of the property can be stated
            if not any(_is_const(d[0], None) and isinstance(d[0], ast.Constant) and d[0].value is None for d in defs if d[0] is not None):
                return None, None
            return True, None
    # form (c): first match of a comprehension over the table: next(name for name, dims in T.items() if <all equal>) / [...][0]
    if len(defs) == 1 and defs[0][0] is not None:
        v = Ds.resolve(defs[0][0])
        comp, needs_refuse, default = None, False, False
        if isinstance(v, ast.Call) and _fname(v) == "next" and isinstance(v.func, ast.Name) and v.args and not v.keywords:
            comp = v.args[0]
            if isinstance(comp, ast.Call) and _fname(comp) == "iter" and len(comp.args) == 1:
                comp = comp.args[0]
            if len(v.args) > 1:
                needs_refuse, default = _is_const_none(v.args[1]), not _is_const_none(v.args[1])
        elif isinstance(v, ast.Subscript) and _const_index(v.slice) in (0, -1) and isinstance(v.value, ast.ListComp):
            comp = v.value              # an empty list refuses by IndexError
        if isinstance(comp, (ast.GeneratorExp, ast.ListComp)) and len(comp.generators) == 1 and len(comp.generators[0].ifs) == 1:
            g = comp.generators[0]
            if isinstance(g.target, ast.Tuple) and len(g.target.elts) == 2 and isinstance(g.iter, ast.Call) and _fname(g.iter) == "items" \
                    and src(comp.elt) == src(g.target.elts[0]):
                dims = src(g.target.elts[1])
                f = _eq_form(g.ifs[0])
                if f is None:
                    return None, None
                a, b, kind = f
                a, b = _strip(a), _strip(b)
                if src(a) != dims:
                    a, b = b, a
                if src(a) != dims or not _attr_reads(b):
                    return None, None
                if kind != "all-equal":
                    return None, (f"the stored order selects a layout when `{src(g.ifs[0])}` ({kind.replace('-', ' ')}), not when every "
                                  "position agrees: the data are read in the order of a layout they were not written in")
                if default:
                    return None, ("an unknown stored ordering is mapped to a default layout instead of being refused: the data are "
                                  "read in an order they were not written in")
                if needs_refuse and not refuse:
                    return None, None       # (see above: a None name is refused by the look-up of the layout manager)
                return True, None
    # form (b): inverted table {order: name}
    if len(defs) == 1 and defs[0][0] is not None:
        v = Ds.resolve(defs[0][0])
        table = key = None
        default = False
        if isinstance(v, ast.Call) and isinstance(v.func, ast.Attribute) and v.func.attr == "get" and v.args:
            table, key, default = v.func.value, v.args[0], len(v.args) > 1 and not _is_const(v.args[1], None) or bool(v.keywords)
            if len(v.args) > 1 and isinstance(v.args[1], ast.Constant) and v.args[1].value is None:
                default = False
            needs_refuse = True
        elif isinstance(v, ast.Subscript):
            table, key, needs_refuse = v.value, v.slice, False
        if isinstance(table, ast.Name) and table.id not in Ds.defs and table.id not in Ds.params and chk is not None:
            # a table kept at module level (built once, never changed): its defining expression is read instead
            mv = _module_value(chk, U.SETUPS, table.id)
            table = mv if mv is not None else table
        if key is not None:
            key = Ds.resolve(key)
        if isinstance(table, ast.DictComp) and len(table.generators) == 1 and not table.generators[0].ifs:
            g = table.generators[0]
            if isinstance(g.target, ast.Tuple) and len(g.target.elts) == 2 and isinstance(g.iter, ast.Call) and _fname(g.iter) == "items":
                nm, dims = (src(x) for x in g.target.elts)
                if src(table.value) == nm and src(_strip(table.key)) == dims and _attr_reads(key):
                    if default:
                        return None, ("an unknown stored ordering is mapped to a default layout instead of being refused: the data are "
                                      "read in an order they were not written in")
                    if needs_refuse and not refuse:
                        return None, None       # (see above: a None name is refused by the look-up of the layout manager)
                    return True, None
    return None, None


# =========================================================================================================
# W2: the file-name protocol, decided from the name expressions (no code is run)
# =========================================================================================================
def _merge(parts):
    out = []
    for p in parts:
        if p[0] == "lit" and out and out[-1][0] == "lit":
            out[-1] = ("lit", out[-1][1] + p[1])
        elif not (p[0] == "lit" and p[1] == ""):
            out.append(p)
    return out


def _spec_text(fs):
    if fs is None:
        return ""
    if isinstance(fs, ast.JoinedStr) and all(isinstance(v, ast.Constant) for v in fs.values):
        return "".join(str(v.value) for v in fs.values)
    return None


_PCT = re.compile(r"%(?:(%)|([-+ 0#]*)(\d*)(?:\.(\d+))?([sdif]))")


_PATHLIB = ("Path", "PurePath", "PosixPath", "PurePosixPath")


def _is_pathlib_expr(e):
    """Path(...) or a chain of `/` rooted (on the left) at one: a pathlib path"""
    while isinstance(e, ast.BinOp) and isinstance(e.op, ast.Div):
        e = e.left
    return isinstance(e, ast.Call) and _fname(e) in _PATHLIB and bool(e.args) and not e.keywords \
        and not any(isinstance(a, ast.Starred) for a in e.args)


def _template(e):
    """abstract value of a string-building expression: [('lit', text) | ('fld', source of the expression, format spec)] or None"""
    if isinstance(e, ast.Constant) and isinstance(e.value, str):
        return [("lit", e.value)]
    if _is_pathlib_expr(e):
        # pathlib: Path(a, b) / c names the file os.path.join(a, b, c) names (the text of the path, as open() / exists() use it)
        parts = [e.left, e.right] if isinstance(e, ast.BinOp) else list(e.args)
        out = []
        for k, a in enumerate(parts):
            t = _template(a)
            if t is None:
                return None
            if k and not (out and out[-1][0] == "lit" and out[-1][1].endswith("/")):
                out.append(("lit", "/"))
            out.extend(t)
        return _merge(out)
    if isinstance(e, ast.JoinedStr):
        out = []
        for p in e.values:
            if isinstance(p, ast.Constant):
                out.append(("lit", str(p.value)))
            else:
                sp = _spec_text(p.format_spec)
                if sp is None or getattr(p, "conversion", -1) not in (-1, 115):
                    return None             # a nested / computed format spec, or !r / !a (another text than str()): not modelled
                out.append(("fld", src(p.value), sp))
        return _merge(out)
    if isinstance(e, ast.BinOp) and isinstance(e.op, ast.Add):
        a, b = _template(e.left), _template(e.right)
        return None if a is None or b is None else _merge(a + b)
    if isinstance(e, ast.BinOp) and isinstance(e.op, ast.Mod) and isinstance(e.left, ast.Constant) and isinstance(e.left.value, str):
        args = list(e.right.elts) if isinstance(e.right, ast.Tuple) else [e.right]
        out, pos, k = [], 0, 0
        text = e.left.value
        for m in _PCT.finditer(text):
            out.append(("lit", text[pos:m.start()]))
            pos = m.end()
            if m.group(1):
                out.append(("lit", "%"))
                continue
            if k >= len(args) or m.group(4) or set(m.group(2)) - {"0"}:
                return None
            conv = m.group(5)
            spec = ("0" if "0" in m.group(2) else "") + m.group(3) + ("" if conv == "s" else "d" if conv in "di" else "f")
            out.append(("fld", src(args[k]), spec))
            k += 1
        if "%" in text[pos:] or k != len(args):
            return None
        out.append(("lit", text[pos:]))
        return _merge(out)
    if isinstance(e, ast.Call) and isinstance(e.func, ast.Attribute):
        f = e.func
        if f.attr == "format" and isinstance(f.value, ast.Constant) and isinstance(f.value.value, str):
            if any(isinstance(a, ast.Starred) for a in e.args) or any(k.arg is None for k in e.keywords):
                return None
            kw = {k.arg: k.value for k in e.keywords}
            out, auto = [], 0
            try:
                pieces = list(string.Formatter().parse(f.value.value))
            except ValueError:
                return None
            for lit, field, spec, conv in pieces:
                out.append(("lit", lit))
                if field is None:
                    continue
                if "{" in (spec or "") or conv not in (None, "s"):
                    return None
                if field == "":
                    arg = e.args[auto] if auto < len(e.args) else None
                    auto += 1
                elif field.isdigit():
                    arg = e.args[int(field)] if int(field) < len(e.args) else None
                elif field.isidentifier():
                    arg = kw.get(field)
                else:
                    return None
                if arg is None:
                    return None
                inner = _template(arg) if not spec else None
                if inner is not None and not (len(inner) == 1 and inner[0][0] == "fld"):
                    out.extend(inner)
                else:
                    out.append(("fld", src(arg), spec or ""))
            return _merge(out)
        if f.attr == "join" and src(f.value).endswith("path"):
            out = []
            for k, a in enumerate(e.args):
                if isinstance(a, ast.Starred):
                    return None
                t = _template(a)
                if t is None:
                    return None
                if k and not (out and out[-1][0] == "lit" and out[-1][1].endswith("/")):
                    out.append(("lit", "/"))
                out.extend(t)
            return _merge(out)
        if f.attr == "rjust" and len(e.args) == 2 and _is_const(e.args[0], typ=int) and _is_const(e.args[1], "0"):
            inner = e.func.value            # right-justified with zeros: the zero padding of a non-negative number
            if isinstance(inner, ast.Call) and _fname(inner) == "str" and len(inner.args) == 1:
                inner = inner.args[0]
            return [("fld", src(inner), "0" + str(e.args[0].value))]
        if f.attr == "zfill" and len(e.args) == 1 and _is_const(e.args[0], typ=int):
            inner = e.func.value
            if isinstance(inner, ast.Call) and _fname(inner) == "str" and len(inner.args) == 1:
                inner = inner.args[0]
            return [("fld", src(inner), "0" + str(e.args[0].value))]
    if isinstance(e, ast.Call) and isinstance(e.func, ast.Name) and e.func.id == "str" and len(e.args) == 1:
        if _is_pathlib_expr(e.args[0]):
            return _template(e.args[0])
        return [("fld", src(e.args[0]), "")]
    if isinstance(e, (ast.Name, ast.Attribute, ast.Subscript, ast.Call)):
        return [("fld", src(e), "")]
    return None


def _norm_spec(sp):
    return sp[:-1] if sp.endswith("d") else sp


def _canon(parts, roles, other="T"):
    """text of a template with the fields named by role; a field that has no role gets the role `other`"""
    out = []
    for p in parts:
        if p[0] == "lit":
            out.append(p[1])
        else:
            r = roles.get(p[1], other)
            if r.startswith("="):
                out.append(r[1:])            # a field with a known constant value
            else:
                out.append("{" + r + (":" + _norm_spec(p[2]) if p[2] else "") + "}")
    return "".join(out)


_ZERO_PAD = re.compile(r"^(0\d+|0[>=]\d+)$")


def _time_field(canon):
    """-> (text before the time field, spec, text after it) of a canonical template with exactly one {T...} field"""
    m = list(re.finditer(r"\{T(?::([^}]*))?\}", canon))
    if len(m) != 1:
        return None
    return canon[:m[0].start()], m[0].group(1) or "", canon[m[0].end():]


def _unwrap_names(x):
    """list()/sorted() wrappers around the listing -> (inner, sorted ascending?, key source or None)"""
    asc, key = None, None
    while isinstance(x, ast.Call) and isinstance(x.func, ast.Name) and x.func.id in ("list", "sorted", "tuple") and x.args:
        if x.func.id == "sorted":
            asc = True if asc is None else asc
            for k in x.keywords:
                if k.arg == "key":
                    key = src(k.value)
                elif k.arg == "reverse":
                    if _is_const(k.value, True):
                        asc = False
                    elif not _is_const(k.value, False):
                        key = key or "reverse=?"
        x = x.args[0]
    return x, asc, key


def _unwrap_num(text):
    """source text of a number expression without int( ) / round( ) / float( ) around it"""
    m = re.fullmatch(r"(?:int|round|float)\((.*)\)", text.strip())
    while m:
        text = m.group(1)
        m = re.fullmatch(r"(?:int|round|float)\((.*)\)", text.strip())
    return text.strip()


def _const_index(sl):
    if _is_const(sl, typ=int):
        return sl.value
    if isinstance(sl, ast.UnaryOp) and isinstance(sl.op, ast.USub) and _is_const(sl.operand, typ=int):
        return -sl.operand.value
    return None


class _Kind(str):
    """a selection kind that carries the key function (`fn`) and whether the largest or smallest key is taken (`pick`)"""
    fn = None
    pick = None


def _selection(value, stmt, D, block):
    """how one file is chosen among the listed names -> (kind, listing expression);
    kind: max | min | date | key | listing-order | None"""
    v = D.resolve(value, within=block)
    if _path_join(v) is not None:
        # os.path.join(folder, <one of the names listed in the folder>): the choice is made among the names
        inner_value = value
        if isinstance(value, ast.Name):
            inner_value = D.one(value.id, within=block) or value
        j0 = _path_join(inner_value)
        v = _path_join(v)[1]
        if j0 is not None:
            value = j0[1]
    pre_sorted = None
    if isinstance(value, ast.Subscript) and isinstance(value.value, ast.Name):
        # names.sort() before names[-1]
        nm = value.value.id
        for st in block or []:
            if st is stmt:
                break
            if isinstance(st, ast.Expr) and isinstance(st.value, ast.Call) and isinstance(st.value.func, ast.Attribute) \
                    and st.value.func.attr == "sort" and src(st.value.func.value) == nm:
                pre_sorted = (not any(k.arg == "reverse" and _is_const(k.value, True) for k in st.value.keywords),
                              next((src(k.value) for k in st.value.keywords if k.arg == "key"), None))

    def datekey(k):
        return any(w in k for w in ("getmtime", "getctime", "getatime", "st_mtime", "st_ctime"))
    if isinstance(v, ast.Call) and isinstance(v.func, ast.Name) and v.func.id in ("max", "min") and len(v.args) == 1:
        inner, asc, key = _unwrap_names(v.args[0])
        key = next((src(k.value) for k in v.keywords if k.arg == "key"), None)
        if key is not None:
            if datekey(key):
                return "date", inner
            k_ = _Kind("key")           # max / min by a key function: the rule looks at what the function extracts
            k_.fn, k_.pick = next(k.value for k in v.keywords if k.arg == "key"), v.func.id
            return k_, inner
        return v.func.id, inner
    if isinstance(v, ast.Subscript):
        idx = _const_index(v.slice)
        inner, asc, key = _unwrap_names(v.value)
        if pre_sorted is not None and asc is None:
            asc, key = pre_sorted
        if idx not in (0, -1):
            return None, inner
        if key is not None:
            return ("date" if datekey(key) else "key"), inner
        if asc is None:
            return "listing-order", inner
        return ("max" if (idx == -1) == asc else "min"), inner
    return None, None


def _is_glob(e):
    return isinstance(e, ast.Call) and _fname(e) in ("glob", "iglob") and len(e.args) >= 1


_REL = "__name_in_folder__"          # stands for the chosen file's name without the folder (names listed by os.listdir)


def _path_join(e):
    """os.path.join(F, X) -> (F, X)"""
    if isinstance(e, ast.Call) and isinstance(e.func, ast.Attribute) and e.func.attr == "join" and src(e.func.value).endswith("path") \
            and len(e.args) == 2 and not e.keywords and not any(isinstance(a, ast.Starred) for a in e.args):
        return e.args[0], e.args[1]
    return None


def _listing_template(g):
    """the names a listing expression yields, as the template of the equivalent glob pattern on full paths
    -> (template or None, folder expression when the names are relative to it (os.listdir) else None).  Recognised: glob(P) / iglob(P);
    Path(F).glob(P); fnmatch.filter(os.listdir(F), P); [x for x in os.listdir(F) if x.startswith(A) [and x.endswith(B)] / fnmatch(x, P)]"""
    def listdir(e):
        while isinstance(e, ast.Call) and isinstance(e.func, ast.Name) and e.func.id in ("sorted", "list", "tuple") and len(e.args) == 1:
            e = e.args[0]
        return e.args[0] if isinstance(e, ast.Call) and _fname(e) == "listdir" and len(e.args) == 1 and not e.keywords else None

    def under(folder, pat):
        f = _template(folder)
        return _merge(f + [("lit", "/")] + pat) if f is not None and pat is not None else None
    if _is_glob(g):
        if isinstance(g.func, ast.Attribute) and isinstance(g.func.value, ast.Call) and _fname(g.func.value) in ("Path", "PurePath") \
                and len(g.func.value.args) == 1:
            return under(g.func.value.args[0], _template(g.args[0])), None
        return _template(g.args[0]), None
    if isinstance(g, ast.Call) and _fname(g) == "filter" and isinstance(g.func, ast.Attribute) and src(g.func.value) == "fnmatch" \
            and len(g.args) == 2 and listdir(g.args[0]) is not None:
        return under(listdir(g.args[0]), _template(g.args[1])), listdir(g.args[0])
    if isinstance(g, (ast.ListComp, ast.GeneratorExp)) and len(g.generators) == 1 and isinstance(g.generators[0].target, ast.Name) \
            and isinstance(g.elt, ast.Name) and g.elt.id == g.generators[0].target.id and listdir(g.generators[0].iter) is not None:
        x = g.elt.id
        head = tail = whole = None
        for c in [c for t in g.generators[0].ifs for c in _conjuncts(t)]:
            if isinstance(c, ast.Call) and isinstance(c.func, ast.Attribute) and src(c.func.value) == x and len(c.args) == 1 and not c.keywords:
                if c.func.attr == "startswith" and head is None:
                    head = _template(c.args[0])
                    continue
                if c.func.attr == "endswith" and tail is None:
                    tail = _template(c.args[0])
                    continue
            if isinstance(c, ast.Call) and _fname(c) in ("fnmatch", "fnmatchcase") and len(c.args) == 2 and src(c.args[0]) == x and whole is None:
                whole = _template(c.args[1])
                continue
            return None, None
        if whole is not None and head is None and tail is None:
            return under(listdir(g.generators[0].iter), whole), listdir(g.generators[0].iter)
        if head is not None and whole is None:
            return under(listdir(g.generators[0].iter), _merge(head + [("lit", "*")] + (tail or []))), listdir(g.generators[0].iter)
    return None, None


def _chosen_file(fn, D):
    """the local that names the HDF5 file opened for reading, and its definitions [(value, statement, block)]"""
    opens = [n for n in _own_walk(fn) if _is_file_open(n) and n.args and (len(n.args) < 2 or _is_const(n.args[1], "r"))]
    # the file may be opened more than once (attribute first, block later): every opening must name the same local
    if not opens or not all(isinstance(n.args[0], ast.Name) for n in opens) or len({n.args[0].id for n in opens}) != 1:
        return None, []
    nm = opens[0].args[0].id
    return nm, [(v, st, _enclosing_block(st)) for v, st in D.defs.get(nm, []) if v is not None]


def _request_test(test, req):
    """when is `test` true?  `req(e)` tells whether e denotes the requested time (-> source text of the value it has when
    nothing is requested, normally 'None') -> 'present' | 'absent' | 'truthy' | 'falsy' | None"""
    neg = False
    while isinstance(test, ast.UnaryOp) and isinstance(test.op, ast.Not):
        test, neg = test.operand, not neg
    kind = None
    if isinstance(test, ast.Compare) and len(test.ops) == 1:
        op, a, b = test.ops[0], test.left, test.comparators[0]
        if isinstance(op, (ast.In, ast.NotIn)) and _is_const(a, "timepoint") and src(b) == "kwargs":
            kind = "present" if isinstance(op, ast.In) else "absent"
        elif isinstance(op, (ast.Is, ast.IsNot, ast.Eq, ast.NotEq)):
            if req(a) is None and req(b) is not None:
                a, b = b, a
            absent_value = req(a)
            if absent_value is not None and src(b) == absent_value:
                kind = "absent" if isinstance(op, (ast.Is, ast.Eq)) else "present"
    elif req(test) is not None:
        kind = "truthy"
    elif isinstance(test, ast.Call) and _fname(test) == "bool" and len(test.args) == 1 and req(test.args[0]) is not None:
        kind = "truthy"
    if kind is not None and neg:
        kind = {"present": "absent", "absent": "present", "truthy": "falsy", "falsy": "truthy"}[kind]
    return kind


def _other_prefixes(chk, default):
    """the literal name prefixes (third argument) the driver passes to the checkpoint writer, other than `default`"""
    try:
        mn = chk.repo.mod(U.DRIVER).func("main")
    except (AnalysisError, Exception):
        return []
    out = []
    for c in ast.walk(mn):
        if _is_write(c):
            a = _arg(c, 2, "nameConvention")
            if _is_const(a, typ=str) and a.value != default and a.value not in out:
                out.append(a.value)
    return out


def _callers_pass_plain_time(chk):
    """every call `X.writeH5Dataset(folder, time, ...)` of the driver passes as time a name / number / arithmetic on those (after
    local definitions are written out), i.e. not a string built by the caller; False when there is no call or one cannot be read"""
    try:
        mn = _work(chk.repo.mod(U.DRIVER).func("main"), chk, U.DRIVER)
    except (AnalysisError, Exception):
        return False
    D = _Defs(mn)
    calls = [c for c in _own_walk(mn) if _is_write(c)]
    if not calls:
        return False
    for c in calls:
        a = _arg(c, 1, "time")
        if a is None:
            return False
        a = D.resolve(a, within=_enclosing_block(c))
        if not _arith(a):
            return False
        if any(isinstance(x, ast.Constant) and isinstance(x.value, str) for x in ast.walk(a)):
            return False
    return True


def file_names(chk):
    w0, w_rel, w_q = _grid_method(chk, "writeH5Dataset")
    r0, r_rel, r_q = _grid_method(chk, "loadFromFile")
    s0 = chk.func(U.SETUPS, "setupFromFile")
    w, r, s = _work(w0, chk, w_rel, "h5"), _work(r0, chk, r_rel, "h5"), _work(s0, chk, U.SETUPS, "h5")
    Dw, Dr, Ds = _Defs(w), _Defs(r), _Defs(s)
    KW, KR, KS = dict(file=w_rel, func=w_q), dict(file=r_rel, func=r_q), dict(file=U.SETUPS, func="setupFromFile")
    pw, pr, ps = _params(w), _params(r), _params(s)

    # ---- default name convention (signature comparison; reported below, once the roles of the parameters are known)
    d1 = {a.arg: d for a, d in zip(w.args.args[-len(w.args.defaults):], w.args.defaults)} if w.args.defaults else {}
    d2 = {a.arg: d for a, d in zip(r.args.args[-len(r.args.defaults):], r.args.defaults)} if r.args.defaults else {}
    a, b = d1.get(pw[3]) if len(pw) > 3 else None, d2.get(pr[3]) if len(pr) > 3 else None
    default = a.value if _is_const(a, typ=str) and _is_const(b, typ=str) else None

    # ---- the family of names the writer produces
    wopen = [n for n in _own_walk(w) if _is_file_open(n) and n.args]
    wt = _template(Dw.resolve(wopen[0].args[0])) if len(wopen) == 1 else None
    fam = None
    if wt is not None and len(pw) >= 4:
        wcanon = _canon(wt, {pw[1]: "F", pw[2]: "T", pw[3]: "N"}, other="?")
        fam = _time_field(wcanon) if "{?" not in wcanon else None
    # the readers
    rfile, rdefs = _chosen_file(r, Dr)
    sfile, sdefs = _chosen_file(s, Ds)

    def classify(defs, D, roles, time_like=lambda e_: False):
        """definitions of the opened file's name -> explicit [(canon, stmt, block)], chosen [(kind, pattern canon or None, stmt, block)], other.
        The fields of an explicit name get their role from what they are: a parameter with a known role, the folder parameter
        passed through a path normaliser (-> F), the requested time (`time_like`, also through int() / round()) (-> T); a name
        with a field of any other kind is not compared (-> other)"""
        explicit, chosen, other = [], [], []

        def with_roles(t):
            rl = dict(roles)
            folder = next((k for k, v in roles.items() if v == "F"), None)
            for p_ in t:
                if p_[0] != "fld" or p_[1] in rl:
                    continue
                if time_like(p_[1]):
                    rl[p_[1]] = "T"
                elif folder is not None and re.fullmatch(r"(?:os\.path\.(?:abspath|normpath|realpath|expanduser)|os\.fspath|str|Path)\(" + re.escape(folder) + r"\)", p_[1]):
                    rl[p_[1]] = "F"
            return rl
        for v, st, blk in defs:
            if _is_const_none(v):
                continue
            kind, listing = _selection(v, st, D, blk)
            if kind is not None or listing is not None:
                pat = None
                if listing is not None:
                    g = D.resolve(listing, within=blk)
                    t, folder = _listing_template(g)
                    if folder is not None:
                        # names relative to the listed folder: the chosen one must be joined with that same folder
                        j = _path_join(D.resolve(v, within=blk))
                        if j is None or src(j[0]) != src(folder):
                            t = None
                    pat = _canon(t, roles, other="?") if t is not None else None
                try:            # quoted in diagnoses with the locals written out (the statement may be a piece of a helper written back)
                    st._shown = f"{src(st.targets[0]) if isinstance(st, ast.Assign) and len(st.targets) == 1 and isinstance(st.targets[0], ast.Name) else sfile_name(defs)} = " \
                                f"{src(D.resolve(v, within=blk))}"
                except Exception:
                    pass
                chosen.append((kind, pat, st, blk))
                continue
            t = _template(D.resolve(v, within=blk))
            if t is not None and any(p[0] == "lit" for p in t) and any(p[0] == "fld" for p in t) and "{?" not in _canon(t, with_roles(t), other="?"):
                explicit.append((_canon(t, with_roles(t), other="?"), st, blk))
            else:
                other.append(st)
        return explicit, chosen, other
    def sfile_name(defs):
        return "file"
    rroles = {pr[1]: "F", pr[3]: "N"} if len(pr) > 3 else {}
    if len(pr) > 2:
        rroles[pr[2]] = "T"
    sroles = {ps[0]: "F"}
    rex, rch, roth = classify(rdefs, Dr, rroles, lambda e_: len(pr) > 2 and _unwrap_num(e_) == pr[2])
    def is_request_text(e_):
        """the field is the time the caller requests: kwargs['timepoint'] / kwargs.pop('timepoint'...) / .get, possibly through
        int() / round(), or a local one of whose definitions is that"""
        e_ = _unwrap_num(e_)
        if "kwargs" in e_ and ("'timepoint'" in e_ or '"timepoint"' in e_):
            return True
        return e_.isidentifier() and any(v_ is not None and "kwargs" in src(v_) and any(_is_const(x, "timepoint") for x in ast.walk(v_))
                                         for v_, _st in Ds.defs.get(e_, []))
    sex, sch, soth = classify(sdefs, Ds, sroles, is_request_text)

    # VIOLATED needs: the two parameters compared really are the name prefix on both sides - the writer's fourth parameter is the
    # {N} field of the name it builds, the loader's fourth parameter the {N} field of a name / pattern it builds (roles read off
    # the templates, not assumed from the position)
    ok = bad = None
    if _is_const(a, typ=str) and _is_const(b, typ=str):
        n_in_writer = wt is not None and any(p_[0] == "fld" and p_[1] == pw[3] for p_ in wt)
        n_in_reader = any("{N" in c for c, *_ in rex) or any(pat_ is not None and "{N" in pat_ for _k, pat_, *_ in rch)
        if a.value == b.value:
            ok = True
        elif n_in_writer and n_in_reader:
            bad = f"default name of the writer is '{a.value}', of the loader '{b.value}': a plain load does not find a plain save"
    chk.pat("W2-file-name-family", r0, "nameConvention default", ok, "writer and loader share the default prefix that the restart globs for",
            bad, **KR)

    ok = bad = None
    padded = None
    if fam is not None:
        pre, spec, suf = fam
        padded = bool(_ZERO_PAD.match(_norm_spec(spec)))
        by_name = any(k in ("max", "min") for k, *_ in rch + sch)
        # VIOLATED (no padding) needs: the value formatted is the number the callers pass, not a text a caller has already padded
        # (caller + callee are one unit): every call of the writer in the driver passes a time that is not built as a string
        if _norm_spec(spec) == "" and by_name and _callers_pass_plain_time(chk):
            bad = (f"the time is written without padding (`{wcanon}`) while the latest checkpoint is chosen by name order: with "
                   "checkpoints at times 9 and 10 the name of time 9 is the largest, so a restart resumes from an older state")
        elif padded and len(rex) == 1 and len(sex) == 1 and default is not None:
            wd = wcanon.replace("{N}", default)
            width = int(re.search(r"\d+$", _norm_spec(spec)[1:] if _norm_spec(spec)[1:2] in "<>=" else _norm_spec(spec)).group())
            if rex[0][0] != wcanon:
                bad = (f"the writer names a checkpoint `{wcanon}` but loadFromFile looks for `{rex[0][0]}` when a time is given: the file "
                       "the writer wrote is not found")
            elif sex[0][0] != wd:
                bad = (f"the driver's checkpoints are named `{wd}` but the restart looks for `{sex[0][0]}` when a time point is "
                       "requested: the checkpoint is not found")
            else:
                ok = True
                note = f"(fixed width {width}: names sort like times while t < 10**{width})"
    chk.pat("W2-file-name-family", w0, "<folder>/<name>_<t:06>.h5 / glob <name>_* / grid_<t:06>.h5", ok,
            "writer, explicit-time loader and explicit-time restart build the same name; the time field is zero-padded "
            + (note if ok else ""), bad, **KW)

    # ---- latest checkpoint: the largest NAME of the family (= largest time, by the padding)
    def latest(chosen, who, canon_w, anchor, construct, K, fn_=None):
        ok = bad = None
        sorts_elsewhere = fn_ is None or any(isinstance(n, ast.Call) and _fname(n) in ("sort", "sorted", "natsorted", "reverse", "reversed", "heapify",
                                                                                         "nlargest", "nsmallest") for n in _own_walk(fn_))
        if len(chosen) == 1 and fam is not None and padded is not False:
            kind, pat, st, blk = chosen[0]
            pre = _time_field(canon_w)[0]
            if kind == "date":
                bad = (f"{who} takes the most recently WRITTEN file (`{getattr(st, "_shown", src(st))[:70]}`), not the file of the largest time: after a run was "
                       "restarted from an earlier time point (or an old checkpoint was copied/rewritten) the newest file is not the "
                       "latest state, and the time parsed from its name is reported as the resume time")
            # VIOLATED (smallest name / listing order) needs: what is selected from IS the listing of the files (its pattern was
            # read: `pat`), not a local this rule could not follow (a list sorted or keyed somewhere else), and the list is not
            # sorted in place anywhere in the function other than where the selection rule looked
            elif kind == "min" and pat is not None:
                bad = f"{who} takes the smallest name (`{getattr(st, "_shown", src(st))[:70]}`): the OLDEST checkpoint is loaded instead of the latest"
            elif kind == "listing-order" and pat is not None and not sorts_elsewhere:
                bad = (f"{who} takes an element of the unsorted directory listing (`{getattr(st, "_shown", src(st))[:70]}`): glob returns names in arbitrary "
                       "order, so any checkpoint may be loaded")
            elif kind == "key" and getattr(kind, "fn", None) is not None and isinstance(kind.fn, ast.Lambda) and len(kind.fn.args.args) == 1 \
                    and pat is not None and "{?" not in pat and pat.count("*") == 1 and not any(ch in pat for ch in "[]?") \
                    and pat[:pat.find("*")] == pre and suf_ok(pat[pat.find("*") + 1:]):
                # the files of the family ordered by a key: decided when the key is the time field of the name
                kok, kbad = _time_parser(kind.fn.body, kind.fn.args.args[0].arg, pre, fam[2])
                if kok and kind.pick == "max":
                    ok = True
                elif kok:
                    bad = f"{who} takes the file of the SMALLEST time (`{getattr(st, "_shown", src(st))[:70]}`): the oldest checkpoint is loaded instead of the latest"
                elif kbad:
                    bad = f"{who} orders the files by a key that is not their time: " + kbad
            elif kind == "max" and pat is not None and padded:
                star = pat.find("*")
                if star < 0 or "{?" in pat or any(ch in pat for ch in "[]?") or pat.count("*") != 1:
                    pass                    # character classes / several wildcards: the set of names is not compared here
                elif pat[:star] == pre and suf_ok(pat[star + 1:]):
                    ok = True
                else:
                    # VIOLATED needs one of three provable relations between the set of names the pattern lists and the family
                    # the writer produces (texts before / after the single wildcard compared with the texts around the time
                    # field): (1) no name of the family matches; (2) the pattern is narrower by literal text after the family's
                    # prefix (some checkpoints are never listed); (3) the pattern is wider and also lists the files the driver
                    # writes with its other name prefix (the potential).  A wider pattern that lists nothing else the driver
                    # writes selects the same file: not a violation, left undecided
                    head, tail = pat[:star], pat[star + 1:]
                    full_suffix = fam[2]
                    tail_fits = tail == "" or full_suffix.endswith(tail)
                    if not (pre.startswith(head) or head.startswith(pre)) or (not tail_fits and "{" not in tail and not re.fullmatch(r"\d*" + re.escape(full_suffix), tail)):
                        bad = (f"{who} lists `{pat}` but the checkpoints are named `{canon_w}`: no checkpoint of the family matches the "
                               "pattern (nothing, or only foreign files, can be chosen)")
                    elif head.startswith(pre) and head != pre and tail_fits:
                        bad = (f"{who} lists `{pat}` but the checkpoints are named `{canon_w}`: the pattern only lists the names whose time "
                               f"field begins with `{head[len(pre):]}`, the latest checkpoint may not be among them")
                    elif pre.startswith(head) and tail_fits:
                        others = _other_prefixes(chk, default)
                        hit = [o for o in others if "{N}" in wcanon and wcanon.replace("{N}", o).startswith(head) and "{N}" not in head]
                        if hit:
                            bad = (f"{who} lists `{pat}` but the checkpoints are named `{canon_w}`: the pattern also lists the files the driver "
                                   f"writes under the name '{hit[0]}' (same folder, same time format), which can be the largest name")
        if not (fam is not None and padded is False):
            chk.pat("W2-latest-selection", anchor, construct, ok,
                    "the latest checkpoint is the largest name among exactly the files of the family (zero-padded, so the largest time)",
                    bad, **K)

    def suf_ok(rest):
        return rest == "" or (fam is not None and "*" not in rest and fam[2].endswith(rest))
    if fam is not None:
        latest(rch, "loadFromFile", wcanon, r0, "loadFromFile: no time given -> file of the largest time", KR, r)
        latest(sch, "the restart", wcanon.replace("{N}", default or "{N}"), s0,
               "max(list_of_files); t = int(name after last '_' before '.')", KS, s)
    else:
        chk.ob("W2-latest-selection", s0, "max(list_of_files); t = int(name after last '_' before '.')", None,
               "the writer's name expression is not recognised: cannot decide", **KS)

    # ---- the time the restart returns: requested, or parsed from the chosen name
    ok = bad = None
    rets = [n for n in _own_walk(s) if isinstance(n, ast.Return) and isinstance(n.value, ast.Tuple) and len(n.value.elts) == 3]
    if rets and len(sch) == 1 and fam is not None and sfile:
        blk = sch[0][3]
        # the returned time: the local in third position of a return (there may be several returns after early exits were
        # brought to if/else form) that is defined in the block where the latest file is chosen
        tvs = {r.value.elts[2].id for r in rets if isinstance(r.value.elts[2], ast.Name)}
        tvs = {tv for tv in tvs if any(v is not None and blk is not None and any(st is x for x in blk) for v, st in Ds.defs.get(tv, []))}
        if len(tvs) == 1:
            tv = next(iter(tvs))
            parsed = [v for v, st in Ds.defs.get(tv, []) if v is not None and blk is not None and any(st is x for x in blk)]
            if len(parsed) == 1:
                e = Ds.resolve(parsed[0], within=blk, stop=(sfile,))
                # another name of the chosen file (the value it was chosen from, written out) is the chosen file
                chosen = [v for v, st, b_ in sdefs if st is sch[0][2]]
                if len(chosen) == 1:
                    cres = Ds.resolve(chosen[0], within=blk)
                    csrc = src(cres)
                    rsrc = src(_path_join(cres)[1]) if _path_join(cres) is not None else None

                    class Alias(ast.NodeTransformer):
                        def visit(self, node):
                            if isinstance(node, ast.expr) and not isinstance(node, ast.Name) and src(node) == csrc:
                                return ast.copy_location(ast.Name(id=sfile, ctx=ast.Load()), node)
                            if isinstance(node, ast.expr) and rsrc is not None and src(node) == rsrc:
                                return ast.copy_location(ast.Name(id=_REL, ctx=ast.Load()), node)
                            return self.generic_visit(node)
                    e = Alias().visit(e)
                ok, bad = _time_parser(e, sfile, fam[0].replace("{N}", default or "{N}"), fam[2])
        # VIOLATED (literal time) needs: this is the ONLY way the function returns (no other `return`, of any form), the file chosen
        # among the checkpoints is opened on the way, and no code of a refactoring is called that could return for it
        elif len(rets) == 1 and _is_const(rets[0].value.elts[2], typ=(int, float)) and not isinstance(rets[0].value.elts[2].value, bool) \
                and len([n for n in _own_walk(s) if isinstance(n, ast.Return)]) == 1 and not _calls_new_code(chk, s, U.SETUPS):
            bad = (f"the restart returns the literal time {rets[0].value.elts[2].value!r} whatever checkpoint was loaded: the driver "
                   "resumes its clock and step index from that value instead of the checkpoint's time")
    chk.pat("W2-latest-selection", s0, "restart: returned time = int(piece of the chosen name between separator and extension)", ok,
            "the time returned for the latest checkpoint is the time field of its name", bad, **KS)

    # ---- a requested time is honoured, also time 0
    def request(fn, D, explicit, chosen, is_req, who, anchor, construct, K, zero):
        ok = bad = None
        if len(explicit) == 1 and len(chosen) == 1:
            est, cst = explicit[0][1], chosen[0][2]
            for n in _own_walk(fn):
                if not isinstance(n, ast.If):
                    continue
                in_body = lambda x: any(x is y for b_ in n.body for y in ast.walk(b_))
                in_else = lambda x: any(x is y for b_ in n.orelse for y in ast.walk(b_))
                if (in_body(est) and in_else(cst)) or (in_else(est) and in_body(cst)):
                    kind = _request_test(n.test, lambda e_: is_req(e_, n))
                    explicit_when_true = in_body(est)
                    if kind in ("present", "absent"):
                        if (kind == "present") == explicit_when_true:
                            ok = True
                        else:
                            bad = f"{who} uses the requested file exactly when NO time is requested (`{src(n.test)}`)"
                    elif kind in ("truthy", "falsy"):
                        if (kind == "truthy") == explicit_when_true:
                            bad = (f"{who} decides by the truth value of the request (`{src(n.test)}`): {zero} counts as 'no request' and "
                                   "the latest checkpoint is loaded silently instead")
                        else:
                            bad = f"{who} uses the requested file exactly when the request is false (`{src(n.test)}`)"
        chk.pat("W2-explicit-time", anchor, construct, ok,
                "the latest checkpoint is used exactly when no time is requested; any requested time, including 0, selects that checkpoint",
                bad, **K)

    def loader_req(e_, ifnode):
        """the loader's time parameter -> source of the value it has when no time is requested (its default in the signature)"""
        if not (isinstance(e_, ast.Name) and len(pr) > 2 and e_.id == pr[2]):
            return None
        if any(isinstance(x, ast.Name) and x.id == pr[2] and isinstance(x.ctx, ast.Store) for x in _own_walk(r)):
            return None             # reassigned in the body: the test does not see the caller's value
        return src(d2[pr[2]]) if pr[2] in d2 else None

    def restart_req(e_, ifnode):
        """is e_ the popped request? -> source of its default ('None' when absent/None)"""
        v = Ds.resolve(e_, within=_enclosing_block(ifnode))
        if isinstance(v, ast.Name) and v.id not in Ds.params:
            v = _reaching(Ds, v.id, ifnode) or v
        if isinstance(v, ast.Call) and isinstance(v.func, ast.Attribute) and v.func.attr in ("pop", "get") and src(v.func.value) == "kwargs" \
                and v.args and _is_const(v.args[0], "timepoint"):
            if len(v.args) == 1:
                return "None" if v.func.attr == "get" else None
            return "None" if _is_const_none(v.args[1]) else src(v.args[1])
        return None
    ifs = [n for n in r0.body if isinstance(n, ast.If)]
    as_latest = lambda ch, oth: ch if ch else [(None, None, st, None) for st in oth]     # an unclassified choice is still the 'latest' arm
    request(r, Dr, rex, as_latest(rch, roth), loader_req, "loadFromFile", ifs[0] if ifs else r0, "if time is None: latest else: requested", KR,
            "an explicit time 0")
    request(s, Ds, sex, as_latest(sch, soth), restart_req, "the restart", s0, "setupFromFile: timepoint given -> that file", KS,
            "timepoint=0 (the checkpoint every run writes first)")


# ---- abstract strings: a checkpoint name as a sequence of segments  ('any',) arbitrary text (the folder) | ('lit', text) |
#      ('dig',) the digits of the time field.  The parsing operations (split / partition / basename / splitext ...) are applied
#      to this abstract value; nothing is run on concrete names.
def _segs_of_canon(canon_prefix, suffix):
    out = []
    for m in re.finditer(r"\{([A-Za-z?]+)(?::[^}]*)?\}|([^{}]+)", canon_prefix):
        out.append(("any",) if m.group(1) else ("lit", m.group(2)))
    out.append(("dig",))
    if suffix:
        out.append(("lit", suffix))
    return out


def _clean(segs):
    out = []
    for g in segs:
        if g[0] == "lit" and g[1] == "":
            continue
        if g[0] == "lit" and out and out[-1][0] == "lit":
            out[-1] = ("lit", out[-1][1] + g[1])
        else:
            out.append(g)
    return out


def _find(segs, c, last):
    """position of the last / first occurrence of the character c -> ('found', k, pos) | ('any', k) | ('absent',) | None"""
    if len(c) != 1 or c.isdigit():
        return None
    order = range(len(segs) - 1, -1, -1) if last else range(len(segs))
    for k in order:
        g = segs[k]
        if g[0] == "any":
            return ("any", k)
        if g[0] == "lit":
            pos = g[1].rfind(c) if last else g[1].find(c)
            if pos >= 0:
                return ("found", k, pos)
    return ("absent",)


def _cut(segs, c, side, last):
    """the part after / before the last / first `c` -> ('ok', segs) | ('folder', c) | ('nosep', c) | None (cannot tell)"""
    f = _find(segs, c, last)
    if f is None:
        return None
    if f[0] == "any":
        return ("nosep", c) if last else ("folder", c)
    if f[0] == "absent":
        return ("whole", segs)
    _, k, pos = f
    text = segs[k][1]
    if side == "after":
        return ("ok", _clean([("lit", text[pos + 1:])] + segs[k + 1:]))
    return ("ok", _clean(segs[:k] + [("lit", text[:pos])]))


def _abs_string(x, fname, name_segs):
    """abstract value of a string expression built from the chosen file name -> ('ok', segs) | ('folder', c) | ('nosep', c) | None"""
    def lit_arg(call, k=0):
        return call.args[k].value if len(call.args) > k and _is_const(call.args[k], typ=str) else None

    def sub(e):
        r = _abs_string(e, fname, name_segs)
        return r
    if isinstance(x, ast.Name):
        if x.id == _REL:                # the name without its folder
            c = _cut(list(name_segs), "/", "after", True)
            return ("ok", c[1]) if c is not None and c[0] == "ok" else None
        return ("ok", list(name_segs)) if x.id == fname else None
    if isinstance(x, ast.Call) and _fname(x) == "str" and len(x.args) == 1:
        return sub(x.args[0])
    if isinstance(x, ast.Call) and _fname(x) == "basename" and len(x.args) == 1:
        r = sub(x.args[0])
        if r is None or r[0] != "ok":
            return r
        c = _cut(r[1], "/", "after", True)
        if c is not None and c[0] == "nosep":
            return None
        return ("ok", c[1]) if c is not None else None
    if isinstance(x, ast.Attribute) and x.attr in ("name", "stem") and isinstance(x.value, ast.Call) and _fname(x.value) in ("Path", "PurePath") \
            and len(x.value.args) == 1:
        r = sub(x.value.args[0])
        if r is None or r[0] != "ok":
            return r
        c = _cut(r[1], "/", "after", True)
        if c is None or c[0] == "nosep":
            return None
        if x.attr == "stem":
            c = _cut(c[1], ".", "before", True)
            if c is None or c[0] not in ("ok", "whole"):
                return None
        return ("ok", c[1])
    if isinstance(x, ast.Call) and isinstance(x.func, ast.Attribute) and x.func.attr == "removesuffix" and lit_arg(x) is not None:
        r = sub(x.func.value)
        if r is None or r[0] != "ok":
            return r
        if r[1] and r[1][-1][0] == "lit" and r[1][-1][1].endswith(lit_arg(x)):
            return ("ok", _clean(r[1][:-1] + [("lit", r[1][-1][1][:len(r[1][-1][1]) - len(lit_arg(x))])]))
        return None
    if isinstance(x, ast.Subscript) and isinstance(x.slice, ast.Slice) and x.slice.lower is None and x.slice.step is None:
        n = _const_index(x.slice.upper) if x.slice.upper is not None else None
        r = sub(x.value)
        if r is None or r[0] != "ok":
            return r
        if n is not None and n < 0 and r[1] and r[1][-1][0] == "lit" and len(r[1][-1][1]) >= -n:
            return ("ok", _clean(r[1][:-1] + [("lit", r[1][-1][1][:n])]))
        return None
    if isinstance(x, ast.Subscript) and isinstance(x.value, ast.Call):
        call, i = x.value, _const_index(x.slice)
        if i is None:
            return None
        if _fname(call) == "splitext" and len(call.args) == 1:
            r = sub(call.args[0])
            if r is None or r[0] != "ok":
                return r
            f = _find(r[1], ".", True)
            if i != 0 or f is None or f[0] != "found" or any(g[0] == "lit" and "/" in g[1] for g in r[1][f[1] + 1:]) \
                    or "/" in r[1][f[1]][1][f[2]:]:
                return None
            c = _cut(r[1], ".", "before", True)
            return ("ok", c[1])
        if not isinstance(call.func, ast.Attribute):
            return None
        m, c = call.func.attr, lit_arg(call)
        if m not in ("split", "rsplit", "partition", "rpartition") or c is None:
            return None
        r = sub(call.func.value)
        if r is None or r[0] != "ok":
            return r
        segs = r[1]
        limit = call.args[1].value if len(call.args) > 1 and _is_const(call.args[1], typ=int) else None
        if len(call.args) > 1 and limit is None or call.keywords:
            return None
        op = None
        if m == "partition":
            op = {0: ("before", False), 2: ("after", False), -3: ("before", False), -1: ("after", False)}.get(i)
        elif m == "rpartition":
            op = {0: ("before", True), 2: ("after", True), -3: ("before", True), -1: ("after", True)}.get(i)
        elif m == "split" and limit is None:
            if i == -1:
                op = ("after", True)
            elif i == 0:
                op = ("before", False)
            elif i > 0:
                for _ in range(i):
                    cc = _cut(segs, c, "after", False)
                    if cc is None or cc[0] != "ok":
                        return cc if cc is not None and cc[0] == "folder" else None
                    segs = cc[1]
                op, i = ("before", False), 0            # piece i of the text = piece 0 of what follows the i-th separator
        elif m == "split" and limit == 1:
            op = {0: ("before", False), 1: ("after", False), -1: ("after", False), -2: ("before", False)}.get(i)
        elif m == "rsplit" and limit == 1:
            op = {0: ("before", True), 1: ("after", True), -1: ("after", True), -2: ("before", True)}.get(i)
        elif m == "rsplit" and limit is None:
            if i == -1:
                op = ("after", True)
            elif i == 0:
                op = ("before", False)
        if op is None:
            return None
        cc = _cut(segs, c, op[0], op[1])
        if cc is None:
            return None
        if cc[0] == "whole":
            # the separator does not occur: split()[0] / [-1] and the matching partition pieces are the whole text;
            # the other pieces are empty or missing
            whole_ok = (m in ("split", "rsplit") and i in (0, -1)) or (m == "partition" and i in (0, -3)) or (m == "rpartition" and i in (2, -1))
            return ("ok", segs) if whole_ok else None
        return cc
    return None


def _show_segs(segs):
    return "".join("<folder>" if g[0] == "any" else "<t>" if g[0] == "dig" else g[1] for g in segs)


def _time_parser(e, fname, prefix, suffix):
    """is `e` the integer of the time field of the name held by `fname`?  The name is the abstract string
    <prefix with the folder arbitrary><digits><suffix>; the string operations of `e` are applied to it -> (ok, bad)"""
    if not (isinstance(e, ast.Call) and _fname(e) == "int" and len(e.args) == 1):
        return None, None
    sep = prefix[-1:]
    if not sep or sep == "}" or sep.isdigit():
        return None, None
    name = _clean(_segs_of_canon(prefix, suffix))
    r = _abs_string(e.args[0], fname, name)
    if r is None:
        return None, None
    if r[0] == "folder" and r[1] != sep:
        return None, None            # depends on the folder name only through a character the name family does not use as separator
    if r[0] == "folder":
        return None, (f"the time is taken from a piece of the whole path counted from its beginning (split at `{r[1]}`): a folder name that "
                      f"contains `{r[1]}` " + ("(the default folder is `simulation_<i>`) " if r[1] == "_" else "") + "shifts the pieces and "
                      "another text is parsed as the time")
    if r[0] == "nosep":
        return None, (f"the time is parsed after the last `{r[1]}` of the name, but the writer separates the time with `{sep}` "
                      f"(names are `{_show_segs(name)}`): the text converted is not the time field")
    segs = r[1]
    if segs == [("dig",)]:
        return True, None
    if ("dig",) in segs and all(g[0] != "any" for g in segs) and any(g[0] == "lit" and re.search(r"[A-Za-z./]", g[1]) for g in segs):
        return None, (f"the text converted by int() is `{_show_segs(segs)}` of the name `{_show_segs(name)}`, not the time field alone: "
                      "int() raises ValueError for every checkpoint")
    if ("dig",) not in segs and all(g[0] == "lit" for g in segs):
        return None, (f"the text converted by int() is `{_show_segs(segs)}` of the name `{_show_segs(name)}`: it does not contain the time field")
    return None, None


# =========================================================================================================
# G3: the parameter file reproduces the constants
# =========================================================================================================
def _add_chain(e):
    if isinstance(e, ast.BinOp) and isinstance(e.op, ast.Add):
        return _add_chain(e.left) + _add_chain(e.right)
    return [e]


def _attr_source(e, D):
    """what a printer iterates over -> (kind 'dir' | 'dict' | None, [(variable, [conditions])] filters applied on the way)"""
    filters = []
    for _ in range(6):
        if isinstance(e, ast.Call) and isinstance(e.func, ast.Name) and e.func.id in ("sorted", "list", "tuple", "reversed") and len(e.args) == 1:
            e = e.args[0]
        elif isinstance(e, ast.Call) and isinstance(e.func, ast.Attribute) and e.func.attr in ("keys", "items") and not e.args:
            e = e.func.value
        elif isinstance(e, (ast.ListComp, ast.GeneratorExp)) and len(e.generators) == 1 and isinstance(e.generators[0].target, ast.Name) \
                and isinstance(e.elt, ast.Name) and e.elt.id == e.generators[0].target.id:
            filters.append((e.elt.id, [c for t in e.generators[0].ifs for c in _conjuncts(t)]))
            e = e.generators[0].iter
        elif isinstance(e, ast.Name) and D.one(e.id) is not None:
            e = D.one(e.id)
        else:
            break
    if isinstance(e, ast.Call) and isinstance(e.func, ast.Name) and e.func.id == "dir" and len(e.args) == 1 and src(e.args[0]) == "self":
        return "dir", filters
    if (isinstance(e, ast.Call) and isinstance(e.func, ast.Name) and e.func.id == "vars" and len(e.args) == 1 and src(e.args[0]) == "self") \
            or src(e) == "self.__dict__":
        return "dict", filters
    if isinstance(e, ast.Name) and e.id not in D.defs and e.id not in D.params:
        return ("table", e.id), filters          # the keys of a table that is not local to the printer (module level / imported)
    if isinstance(e, ast.Attribute) and (src(e.value) in ("self", "type(self)", "self.__class__") or (isinstance(e.value, ast.Name) and e.value.id[:1].isupper())):
        return ("table", src(e)), filters        # a table kept on the class
    lit = _string_keys(e)
    if lit is not None:
        return ("table", src(e)[:40] + ("..." if len(src(e)) > 40 else ""), lit), filters     # names spelled out in the printer
    return None, filters


def _string_keys(v):
    """the strings of a literal tuple / list / set, or the keys of a literal dict; None for anything else"""
    if isinstance(v, ast.Dict) and v.keys and all(_is_const(k, typ=str) for k in v.keys):
        return {k.value for k in v.keys}
    if isinstance(v, (ast.Tuple, ast.List, ast.Set)) and v.elts and all(_is_const(k, typ=str) for k in v.elts):
        return {k.value for k in v.elts}
    if isinstance(v, ast.Call) and _fname(v) in ("tuple", "list", "set", "frozenset", "sorted") and len(v.args) == 1 and not v.keywords:
        return _string_keys(v.args[0])
    return None


def _negated(t):
    """conjuncts of `not t` (De Morgan on `or`, comparison operators flipped, double negation removed); None when `t` is a
    conjunction (its negation is a disjunction, not a list of conditions)"""
    if isinstance(t, ast.BoolOp) and isinstance(t.op, ast.Or):
        out = []
        for v in t.values:
            n = _negated(v)
            if n is None:
                return None
            out.extend(n)
        return out
    if isinstance(t, ast.BoolOp):
        return None
    if isinstance(t, ast.UnaryOp) and isinstance(t.op, ast.Not):
        return _conjuncts(t.operand)
    flip = {ast.Eq: ast.NotEq, ast.NotEq: ast.Eq, ast.Is: ast.IsNot, ast.IsNot: ast.Is, ast.In: ast.NotIn, ast.NotIn: ast.In,
            ast.Lt: ast.GtE, ast.GtE: ast.Lt, ast.Gt: ast.LtE, ast.LtE: ast.Gt}
    if isinstance(t, ast.Compare) and len(t.ops) == 1 and type(t.ops[0]) in flip:
        return [ast.copy_location(ast.Compare(left=t.left, ops=[flip[type(t.ops[0])]()], comparators=t.comparators), t)]
    return [ast.copy_location(ast.UnaryOp(op=ast.Not(), operand=t), t)]


def _conjuncts(t):
    if isinstance(t, ast.BoolOp) and isinstance(t.op, ast.And):
        return [c for v in t.values for c in _conjuncts(v)]
    return [t]


def _flatten_pair_comprehension(c):
    """[E(a, b) for a, b in ((A(x), B(x)) for x in S if C1) if C2(a, b)]  ->  [E(A(x), B(x)) for x in S if C1 if C2(A(x), B(x))]:
    a comprehension over a generator of tuples, with the tuple written out (the elements are expressions without side effects
    evaluated once per x either way: names, attribute reads, getattr calls)"""
    if not (isinstance(c, (ast.ListComp, ast.GeneratorExp)) and len(c.generators) == 1 and isinstance(c.generators[0].target, ast.Tuple)
            and all(isinstance(t, ast.Name) for t in c.generators[0].target.elts)):
        return c
    g = c.generators[0]
    inner = g.iter
    if not (isinstance(inner, (ast.ListComp, ast.GeneratorExp)) and len(inner.generators) == 1 and isinstance(inner.generators[0].target, ast.Name)
            and isinstance(inner.elt, ast.Tuple) and len(inner.elt.elts) == len(g.target.elts)):
        return c
    pure = lambda e: all(isinstance(x, (ast.Name, ast.Attribute, ast.Constant, ast.Call, ast.expr_context)) and (
        not isinstance(x, ast.Call) or _fname(x) == "getattr") for x in ast.walk(e))
    if not all(pure(e) for e in inner.elt.elts):
        return c
    var = inner.generators[0].target.id
    m = {t.id: e for t, e in zip(g.target.elts, inner.elt.elts)}
    if var in m and not (isinstance(m[var], ast.Name) and m[var].id == var):
        return c                # the outer target of that name hides the inner variable with another value
    if len(m) != len(g.target.elts):
        return c
    sub = lambda e: _Sub(m).visit(_clone(e))
    new = c.__class__(elt=sub(c.elt), generators=[ast.comprehension(
        target=ast.Name(id=var, ctx=ast.Store()), iter=inner.generators[0].iter,
        ifs=list(inner.generators[0].ifs) + [sub(t) for t in g.ifs], is_async=0)])
    return ast.fix_missing_locations(ast.copy_location(new, c))


def _printer(fn, D, required=None, methods=(), table_keys=None, optional=()):
    """static classification of Constants.__str__ -> (ok, bad): is the text a JSON object of exactly the public data attributes?
    `required`: the public data attributes of the class (class-level values and properties); `table_keys(name)`: the keys of a
    module-level table (or None when they cannot be enumerated); the attribute source may be dir(self) filtered, or the keys
    of such a table: then the keys are compared with `required`"""
    lists = {n.func.value.id for n in _own_walk(fn) if isinstance(n, ast.Call) and isinstance(n.func, ast.Attribute)
             and n.func.attr == "append" and isinstance(n.func.value, ast.Name)}
    rets = [n for n in _own_walk(fn) if isinstance(n, ast.Return) and n.value is not None]
    if len(rets) != 1:
        return None, None
    ret = D.resolve(rets[0].value, stop=tuple(lists))
    K, conds, entry, frame = None, [], None, None         # key variable, filter conditions, entry expression, (head, sep, tail, trailing)
    source = None

    def rename(e, var):
        return _Sub({var: "K"}).visit(_clone(e)) if var != "K" else e
    table_value = None          # `for key, value in <table>.items()`: the name bound to the table's own value
    extra_keys = set()          # keys of entries written outside the loop
    loops = []
    for n in _own_walk(fn):
        if isinstance(n, ast.For) and isinstance(n.target, ast.Name):
            loops.append(n)
        elif isinstance(n, ast.For) and isinstance(n.target, ast.Tuple) and len(n.target.elts) == 2 and all(isinstance(x, ast.Name) for x in n.target.elts) \
                and isinstance(n.iter, ast.Call) and isinstance(n.iter.func, ast.Attribute) and n.iter.func.attr == "items" and not n.iter.args:
            loops.append(n)
    joins = [n for n in ast.walk(ret) if isinstance(n, ast.Call) and isinstance(n.func, ast.Attribute) and n.func.attr == "join"
             and isinstance(n.func.value, ast.Constant) and len(n.args) == 1]
    for j in joins:
        j.args[0] = _flatten_pair_comprehension(j.args[0])
    dumps = ret if isinstance(ret, ast.Call) and _fname(ret) == "dumps" and len(ret.args) >= 1 and isinstance(ret.args[0], ast.DictComp) else None
    if dumps is not None:
        dc = dumps.args[0]
        if len(dc.generators) != 1 or not isinstance(dc.generators[0].target, ast.Name):
            return None, None
        var = dc.generators[0].target.id
        source, filters = _attr_source(dc.generators[0].iter, D)
        conds = [rename(c, v) for v, cs in filters for c in cs] + [rename(c, var) for t in dc.generators[0].ifs for c in _conjuncts(t)]
        if src(rename(dc.key, var)) != "K" or src(rename(dc.value, var)) != "getattr(self, K)":
            return None, None
        entry, frame = "json", ("{", ",", "}", "")
    elif len(loops) == 1:
        lp = loops[0]
        if isinstance(lp.target, ast.Tuple):
            var, table_value = lp.target.elts[0].id, lp.target.elts[1].id
        else:
            var = lp.target.id
        source, filters = _attr_source(lp.iter, D)
        conds = [rename(c, v) for v, cs in filters for c in cs]
        emits = []
        for n in ast.walk(lp):
            if isinstance(n, ast.AugAssign) and isinstance(n.op, ast.Add) and isinstance(n.target, ast.Name):
                emits.append((n, n.target.id, n.value, "str"))
            elif isinstance(n, ast.Expr) and isinstance(n.value, ast.Call) and isinstance(n.value.func, ast.Attribute) \
                    and n.value.func.attr == "append" and isinstance(n.value.func.value, ast.Name) and len(n.value.args) == 1:
                emits.append((n, n.value.func.value.id, n.value.args[0], "list"))
        if len(emits) != 1:
            return None, None
        st, acc, e, how = emits[0]
        # entries added to the same text outside the loop (`s += '"rp":{},\n'.format(self.rp)`): their keys count as printed;
        # an addition that is not such an entry cannot be followed
        in_lp = {id(x) for x in ast.walk(lp)}
        for n in _own_walk(fn):
            ev = None
            if id(n) in in_lp:
                continue
            if isinstance(n, ast.AugAssign) and isinstance(n.target, ast.Name) and n.target.id == acc:
                ev = n.value
            elif isinstance(n, ast.Assign) and len(n.targets) == 1 and src(n.targets[0]) == acc and isinstance(n.value, ast.BinOp) \
                    and isinstance(n.value.op, ast.Add) and src(n.value.left) == acc:
                ev = n.value.right
                if _is_const(ev, typ=str) and "\"" not in ev.value:
                    continue            # closing text (the frame), not an entry
            elif isinstance(n, ast.Expr) and isinstance(n.value, ast.Call) and isinstance(n.value.func, ast.Attribute) and n.value.func.attr in (
                    "append", "insert", "extend") and src(n.value.func.value) == acc and n.value.args:
                ev = n.value.args[-1]
            if ev is None:
                continue
            t_ = _template(D.resolve(ev))
            m_ = re.match(r'^\s*"(\w+)"\s*:\s*$', t_[0][1]) if t_ and len(t_) in (2, 3) and t_[0][0] == "lit" and t_[1][0] == "fld" else None
            if m_ is None or t_[1][1] not in (f"self.{m_.group(1)}", f"getattr(self, '{m_.group(1)}')") or (len(t_) == 3 and t_[2][0] != "lit"):
                return None, None
            extra_keys.add(m_.group(1))
        for t, pol, k in guards_of(st, stop=lp):
            if k != "if":
                return None, None
            cs = _conjuncts(t) if pol else _negated(t)
            if cs is None:
                return None, None
            conds.extend(rename(D.resolve(c, stop=(var,)), var) for c in cs)
        # early exits of the iteration: `if <test>: continue` at the top level of the body before the entry is emitted filters
        # the names like a guard with the negated test; any other jump out of the iteration cannot be followed
        top = st
        while parent(top) is not lp:
            top = parent(top)
        k_emit = next((k for k, x in enumerate(lp.body) if x is top), None)
        if k_emit is None:
            return None, None
        for jump in [n for n in ast.walk(lp) if isinstance(n, (ast.Continue, ast.Break, ast.Return))]:
            holder = parent(jump)
            if isinstance(jump, ast.Continue) and isinstance(holder, ast.If) and parent(holder) is lp and not holder.orelse \
                    and len(holder.body) == 1 and any(x is holder for x in lp.body[:k_emit]):
                cs = _negated(holder.test)
                if cs is None:
                    return None, None
                conds.extend(rename(D.resolve(c, stop=(var,), within=lp), var) for c in cs)
            else:
                return None, None
        entry = rename(D.resolve(e, stop=(var,)), var)
        if how == "str":
            init = [v for v, s_ in D.defs.get(acc, []) if v is not None and _is_const(v, typ=str)]
            strip = [v for v, s_ in D.defs.get(acc, []) if isinstance(v, ast.BinOp) and isinstance(v.op, ast.Add) and isinstance(v.left, ast.Subscript)
                     and src(v.left.value) == acc and isinstance(v.left.slice, ast.Slice) and v.left.slice.lower is None
                     and _const_index(v.left.slice.upper) is not None and _is_const(v.right, typ=str) and _pos(s_) > _pos(lp)]
            if len(init) != 1 or src(ret) != acc:
                return None, None
            frame = (init[0].value, None, strip[0].right.value if len(strip) == 1 else None,
                     -_const_index(strip[0].left.slice.upper) if len(strip) == 1 else 0)
        else:
            if len(joins) != 1 or src(joins[0].args[0]) != acc:
                return None, None
            ch = _add_chain(ret)
            if len(ch) != 3 or ch[1] is not joins[0] or not _is_const(ch[0], typ=str) or not _is_const(ch[2], typ=str):
                return None, None
            frame = (ch[0].value, joins[0].func.value.value, ch[2].value, 0)
    elif len(joins) == 1 and isinstance(joins[0].args[0], (ast.GeneratorExp, ast.ListComp)) and len(joins[0].args[0].generators) == 1 \
            and isinstance(joins[0].args[0].generators[0].target, ast.Name):
        g = joins[0].args[0]
        var = g.generators[0].target.id
        source, filters = _attr_source(g.generators[0].iter, D)
        conds = [rename(c, v) for v, cs in filters for c in cs] + [rename(c, var) for t in g.generators[0].ifs for c in _conjuncts(t)]
        entry = rename(g.elt, var)
        ch = _add_chain(ret)
        if len(ch) != 3 or ch[1] is not joins[0] or not _is_const(ch[0], typ=str) or not _is_const(ch[2], typ=str):
            return None, None
        frame = (ch[0].value, joins[0].func.value.value, ch[2].value, 0)
    else:
        return None, None

    # ---- which attributes
    if source == "dict":
        # VIOLATED needs: the class does keep constants outside the instance dictionary (class-level values / settable properties:
        # `required`), which vars(self) does not list
        if not required:
            return None, None
        return None, ("only the instance dictionary is printed (vars(self) / self.__dict__): constants that live on the class and the "
                      "properties rMin, rMax, npts, splineDegrees are missing from the saved file, a restart reads the defaults for them")
    texts = [src(c) for c in conds]
    callable_ok = [t for t in texts if t in ("not callable(getattr(self, K))",)]
    public_ok = [t for t in texts if t in ("K[0] != '_'", "not K.startswith('_')", "K[:1] != '_'")]
    rest = [t for t in texts if t not in callable_ok and t not in public_ok]
    if rest:
        return None, None
    missing = None
    if isinstance(source, tuple) and source[0] == "table":
        # the names printed are the keys of a table: they must cover the public data attributes of the class
        keys = source[2] if len(source) > 2 else table_keys(source[1]) if table_keys is not None else None
        if keys is None or required is None:
            return None, None
        if (keys & set(methods) and not callable_ok) or (any(k.startswith("_") for k in keys) and not public_ok) or keys - set(required) - set(methods) - set(optional):
            return None, None            # a key that is a method / private / not an attribute of the class: cannot decide
        missing = sorted(set(required) - keys - extra_keys)
        if missing:
            return None, (f"the names printed are the keys of the table `{source[1]}` ({len(keys)} keys), which has no entry for the public "
                          f"data attribute(s) {missing} of the class: they are no longer written to the parameter file. get_constants "
                          "reads such a file with these attributes unset and recomputes / defaults them (a derived value is rebuilt "
                          "from the other constants), so an object in which " + " or ".join(f"`{m}`" for m in missing) + " was given "
                          "explicitly (parameter file, or other constants overridden after it was computed) does not read back equal: "
                          "the restarted run uses other constants than the original run")
    elif source != "dir":
        return None, None
    if missing is not None:
        pass
    elif not callable_ok:
        return None, ("methods are not filtered out: the text contains `<bound method ...>` values, which is not JSON; get_constants "
                      "cannot read the saved parameter file")
    elif not public_ok:
        return None, ("names starting with `_` are not filtered out: private storage and dunder attributes are printed, the text is not "
                      "a JSON object of the constants")
    # ---- shape of one entry and of the whole text
    head, sep, tail, cut = frame
    if entry != "json":
        t = _template(entry)
        if t is None:
            return None, None
        shape = [("lit", p[1]) if p[0] == "lit" else ("fld", p[1], p[2]) for p in t]
        if len(shape) >= 3 and shape[0][0] == "fld" and shape[0][1] == "K":
            return None, "the keys are printed without double quotes: the text is not JSON and get_constants (json.load) fails on it"
        if len(shape) >= 4 and shape[0] == ("lit", "'") and shape[1][:2] == ("fld", "K"):
            return None, "the keys are printed in single quotes: the text is not JSON and get_constants (json.load) fails on it"
        if table_value is not None and isinstance(source, tuple) and len(shape) in (4, 5) and shape[1] == ("fld", "K", "") \
                and shape[3] == ("fld", table_value, ""):
            return None, (f"the value printed for a key is `{table_value}`, the entry of the table `{source[1]}` itself, not the attribute "
                          "`getattr(self, <key>)` of the object: the saved parameter file holds the table's values instead of the "
                          "constants of the run")
        if not (len(shape) in (4, 5) and shape[0] == ("lit", '"') and shape[1] == ("fld", "K", "") and shape[2][0] == "lit"
                and shape[2][1].replace(" ", "") == '":' and shape[3] == ("fld", "getattr(self, K)", "")):
            return None, None
        trailing = shape[4][1] if len(shape) == 5 and shape[4][0] == "lit" else ""
        if len(shape) == 5 and shape[4][0] != "lit":
            return None, None
        if sep is None:
            # accumulated string: every entry carries its separator, the last one is cut off before the closing brace
            if "," not in trailing or trailing.strip() != "," or tail is None or cut != len(trailing):
                if tail is not None and cut != len(trailing) and trailing.strip() == ",":
                    return None, (f"{cut} character(s) are cut from the end before the closing brace but every entry ends with "
                                  f"{len(trailing)} separator character(s): the text is not JSON")
                return None, None
        elif trailing or sep.strip() != ",":
            return None, None
    if head.strip() != "{" or tail is None or tail.strip() != "}":
        return None, None
    return True, None


def _module_table_keys(chk, rel, name, depth=2):
    """keys of the module-level dictionary `name` of module `rel` (followed through one `from .x import name`): the string keys of
    its literal plus those of the statements `name[<str>] = ...`; None when the table is built in any other way"""
    try:
        tree = chk.mod(rel).tree
    except AnalysisError:
        return None
    body = tree.body
    if "." in name:                      # `self.X` / `Cls.X`: a table assigned in the body of a class of this module
        attr = name.rsplit(".", 1)[1]
        owner = name.rsplit(".", 1)[0]
        classes = [c for c in tree.body if isinstance(c, ast.ClassDef) and (owner in ("self", "type(self)", "self.__class__") or c.name == owner)
                   and any(isinstance(st, ast.Assign) and any(isinstance(t, ast.Name) and t.id == attr for t in st.targets) for st in c.body)]
        if len(classes) != 1:
            return None
        # assigned once in the class body and never stored to elsewhere in the module
        if sum(1 for n in ast.walk(tree) if isinstance(n, ast.Attribute) and n.attr == attr and isinstance(n.ctx, (ast.Store, ast.Del))) or any(
                isinstance(n, ast.Attribute) and n.attr == attr and isinstance(parent(n), ast.Attribute) and isinstance(parent(parent(n)), ast.Call)
                and parent(parent(n)).func is parent(n) for n in ast.walk(tree)):
            return None
        body, name = classes[0].body, attr
    keys, defined = set(), False
    for st in body:
        if isinstance(st, ast.ImportFrom) and any((al.asname or al.name) == name for al in st.names):
            al = next(al for al in st.names if (al.asname or al.name) == name)
            if depth <= 0 or st.level != 1 or not st.module or "." in st.module:
                return None
            target = rel.rsplit("/", 1)[0] + "/" + st.module + ".py"
            if not chk.repo.exists(target):
                return None
            return _module_table_keys(chk, target, al.name, depth - 1)
        mentions = [n for n in ast.walk(st) if isinstance(n, ast.Name) and n.id == name]
        if not mentions or isinstance(st, (ast.FunctionDef, ast.AsyncFunctionDef, ast.ClassDef)):
            continue
        if isinstance(st, ast.Assign) and len(st.targets) == 1:
            t, v = st.targets[0], st.value
            if isinstance(t, ast.Name) and t.id == name and _string_keys(v) is not None and not defined and len(mentions) == 1:
                keys |= _string_keys(v)
                defined = True
                continue
            if defined and isinstance(t, ast.Subscript) and isinstance(t.value, ast.Name) and t.value.id == name and _is_const(t.slice, typ=str) \
                    and all(isinstance(parent(m), ast.Subscript) and isinstance(m.ctx, ast.Load) for m in mentions):
                keys.add(t.slice.value)
                continue
        return None
    return keys if defined else None


def _literal_names(fn, D, roles, calls, other="?"):
    """canonical templates of the first argument of the calls selected by `calls(node)`"""
    out = []
    for n in _own_walk(fn):
        if isinstance(n, ast.Call) and calls(n) and n.args:
            t = _template(D.resolve(n.args[0], within=_enclosing_block(n)))
            out.append((_canon(t, roles, other=other) if t is not None else None, n))
    return out


def _pos(st):
    return (getattr(st, "lineno", 0), getattr(st, "col_offset", 0))


def constants_round_trip(chk):
    mod = chk.mod(U.CONSTANTS)
    cls = mod.cls("Constants")
    gc0 = chk.func(U.CONSTANTS, "get_constants")
    # write sets of the setters
    writes = {}
    for st in cls.body:
        if isinstance(st, ast.FunctionDef) and any(src(d).endswith(".setter") for d in st.decorator_list):
            ws = set()
            for n in ast.walk(st):
                if isinstance(n, ast.Attribute) and isinstance(n.value, ast.Name) and n.value.id == "self" and isinstance(n.ctx, ast.Store):
                    ws.add(n.attr)
                if isinstance(n, ast.Call) and _fname(n) == "setattr" and len(n.args) == 3 and src(n.args[0]) == "self" and _is_const(n.args[1], typ=str):
                    ws.add(n.args[1].value)
            writes[st.name] = ws
    plain = set()
    containers = set()          # class-level names bound to a literal collection of strings: tables of names, not constants
    for st in cls.body:
        if isinstance(st, ast.Assign):
            for t in st.targets:
                if isinstance(t, ast.Name) and not t.id.startswith("_"):
                    plain.add(t.id)
                    if _string_keys(st.value) is not None:
                        containers.add(t.id)
        elif isinstance(st, ast.AnnAssign) and isinstance(st.target, ast.Name) and not st.target.id.startswith("_") and st.value is not None:
            plain.add(st.target.id)
            if _string_keys(st.value) is not None:
                containers.add(st.target.id)
    keys = plain | set(writes)
    n = 0
    for k, ws in sorted(writes.items()):
        own = {"_" + k}
        foreign = {a for a in ws - own if a in keys}
        n += 1
        # VIOLATED needs: the write of the other key is unconditional with respect to that key - a write made only under a test
        # that reads the key itself (`if self.rp is None: self.rp = ...`: fill it while it is unset) keeps a value given
        # explicitly and commutes; such a setter is not decided by the write sets
        setter = next(st for st in cls.body if isinstance(st, ast.FunctionDef) and st.name == k and any(src(d).endswith(".setter") for d in st.decorator_list))
        filled_only = foreign and all(
            any(isinstance(x, ast.Attribute) and x.attr == a and src(x.value) == "self" for t_, p_, k_ in guards_of(n_, stop=setter) for x in ast.walk(t_))
            for a in foreign for n_ in ast.walk(setter)
            if isinstance(n_, ast.Attribute) and n_.attr == a and isinstance(n_.ctx, ast.Store) and src(n_.value) == "self") \
            and not any(isinstance(n_, ast.Call) and _fname(n_) == "setattr" for n_ in ast.walk(setter))
        if filled_only:
            chk.ob("G3-setters-commute", mod.func(f"Constants.{k}.setter"), f"Constants.{k}.setter writes {sorted(ws)}", None,
                   f"setting `{k}` writes {sorted(foreign)} only under a test on that attribute itself: whether an explicit value survives "
                   "in every key order is not decided by the write sets", file=U.CONSTANTS, func=f"Constants.{k}.setter")
            continue
        chk.ob("G3-setters-commute", mod.func(f"Constants.{k}.setter"), f"Constants.{k}.setter writes {sorted(ws)}", not foreign,
               f"setting `{k}` only writes its own storage: the result of reading a parameter file does not depend on key order"
               if not foreign else f"setting `{k}` also overwrites the independent key(s) {sorted(foreign)}: a file that gives `{sorted(foreign)[0]}` "
               f"explicitly reads back differently depending on whether `{k}` comes before or after it (get_constants pops keys in "
               "reverse order; setupCylindricalGrid re-sets every attribute in dir() order)", file=U.CONSTANTS, func=f"Constants.{k}.setter")
    if n < 2:
        raise AnalysisError(f"C18: only {n} property setters found in Constants (4 confirmed by reading)")

    # ---- printer: classified from its syntax tree
    st0 = chk.func(U.CONSTANTS, "Constants.__str__")
    st_ = _work(st0, chk, U.CONSTANTS)
    getters = {st.name for st in cls.body if isinstance(st, ast.FunctionDef) and any(src(d) == "property" for d in st.decorator_list)}
    methods = {st.name for st in cls.body if isinstance(st, ast.FunctionDef)} - getters
    # attributes that can be SET independently must be stored (class-level values, properties with a setter); a read-only
    # property is a function of the others and may be left out
    ok, bad = _printer(st_, _Defs(st_), required=(plain - containers) | (getters & set(writes)), methods=methods, optional=getters | containers,
                       table_keys=lambda name: _module_table_keys(chk, U.CONSTANTS, name))
    chk.pat("G3-printer", st0, "__str__: every public non-callable attribute", ok,
            "the text is `{` + one `\"key\":value` entry per name of dir(self) that is public and not callable, comma separated, + `}`: "
            "a JSON object of exactly the public data attributes (class-level values and properties included)", bad,
            file=U.CONSTANTS, func="Constants.__str__")

    # ---- parser: defaults are applied only after all keys of the file have been read
    gc = _work(gc0, chk, U.CONSTANTS)
    D = _Defs(gc)
    KG = dict(file=U.CONSTANTS, func="get_constants")
    cobj = None
    for nm, ds in D.defs.items():
        if any(isinstance(v, ast.Call) and _fname(v) == "Constants" for v, _ in ds if v is not None):
            cobj = nm
    loops = [n for n in _own_walk(gc) if isinstance(n, (ast.While, ast.For)) and not isinstance(parent(n), (ast.While, ast.For))
             and any(isinstance(c, ast.Call) and _fname(c) in ("setattr", "eval_expr") for c in ast.walk(n))]
    # the loop in which the file's expressions are evaluated (the SWEEP): the only loop, or - when values that need no evaluation
    # are stored by loops of their own first - the only loop that calls eval_expr, every other loop standing before it.  The
    # file has been read completely when the sweep has ended
    sweeps = [l_ for l_ in loops if any(isinstance(c, ast.Call) and _fname(c) == "eval_expr" for c in ast.walk(l_))]
    lp = None
    if len(loops) == 1:
        lp = loops[0]
    elif len(sweeps) == 1 and all(_pos(l_) < _pos(sweeps[0]) for l_ in loops if l_ is not sweeps[0]):
        lp = sweeps[0]
    ok = bad = None
    if cobj is not None and lp is not None:
        ctor = [v for v, _ in D.defs[cobj] if v is not None][0]
        a0 = _arg(ctor, 0, "setup")
        dcalls = [n for n in _own_walk(gc) if isinstance(n, ast.Call) and _fname(n) == "set_defaults" and isinstance(n.func, ast.Attribute)
                  and src(n.func.value) == cobj]
        inside = {id(x) for x in ast.walk(lp)}
        # a call counts as EARLY (VIOLATED) only when it certainly runs before the file has been read completely: before the
        # loop, or in the loop body, and under no condition at all (a call under a test - `if not pending:` - may be the loop's
        # own way of finishing: cannot decide)
        early_all = [c for c in dcalls if id(c) in inside or _pos(c) < _pos(lp)]
        early = [c for c in early_all if not [g_ for g_ in guards_of(c, stop=gc) if g_[2] in ("if", "ifexp")]
                 and not any(isinstance(p_, (ast.For, ast.While)) and p_ is not lp and id(p_) in inside for p_ in _ancestors(c))]
        # the meaning of the constructor's first argument is read off Constants.__init__: `if <first parameter>: ... set_defaults()`.
        # Without that the flag's meaning is unknown and nothing is said about it
        init = next((m_ for m_ in cls.body if isinstance(m_, ast.FunctionDef) and m_.name == "__init__"), None)
        uses_flag = init is not None and len(init.args.args) >= 2 and not (init.args.vararg or init.args.kwarg) and [
            n_ for n_ in init.body if isinstance(n_, ast.If) and same_expr(n_.test, init.args.args[1].arg) and any(
                isinstance(c_, ast.Call) and _fname(c_) == "set_defaults" for x_ in n_.body for c_ in ast.walk(x_))]
        if a0 is not None and (not uses_flag or (not ctor.args and [k_.arg for k_ in ctor.keywords] != [init.args.args[1].arg])):
            a0 = ast.Name(id="<unknown>", ctx=ast.Load())
        if a0 is None:
            # the constructor's own default decides (today `setup=True`: defaults installed)
            if uses_flag and init.args.defaults and len(init.args.defaults) == len(init.args.args) - 1 \
                    and not ctor.args and not ctor.keywords:
                a0 = init.args.defaults[0]
            if a0 is None:
                a0 = ast.Name(id="<unknown>", ctx=ast.Load())
        # ASSUMPTION of the `early` diagnosis: after set_defaults() no key is unset any more, and eval_expr defers an expression on
        # `operand is None` only.  Checked: nothing in get_constants stores None into / deletes an attribute of the object, and
        # eval_expr does compare with None
        unset_again = any(
            (isinstance(n_, ast.Call) and _fname(n_) in ("delattr", "__delattr__")) or isinstance(n_, ast.Delete)
            or (isinstance(n_, ast.Call) and _fname(n_) in ("setattr", "__setattr__") and n_.args and _is_const_none(n_.args[-1]))
            or (isinstance(n_, ast.Assign) and _is_const_none(n_.value) and any(isinstance(t_, ast.Attribute) for t_ in n_.targets))
            for n_ in _own_walk(gc))
        try:
            ee_ = chk.func(U.CONSTANTS, "eval_expr")
            defers_on_none = any(isinstance(n_, ast.Compare) and any(_is_const_none(c_) for c_ in n_.comparators) for n_ in ast.walk(ee_))
        except Exception:
            defers_on_none = False
        if _is_const(a0, True):
            bad = ("the constants object is created with its defaults installed: an expression in the file that refers to a key given "
                   "later in the file is evaluated with the default instead (result depends on key order)")
        elif early and (unset_again or (len(loops) > 1 and not defers_on_none)):
            # AUDIT: the early call is harmless when the keys whose value is still to be evaluated are put back to the unset state
            # afterwards, or (expressions swept in a loop of their own) when deferral does not rest on `operand is None` at all
            pass
        elif early and len(loops) > 1:
            bad = ("set_defaults() runs before the loop that evaluates the file's expressions: a key whose own value is an expression "
                   "not yet evaluated then holds its default instead of None, so eval_expr no longer defers an expression that refers "
                   "to it and evaluates it with the default (result depends on key order)")
        elif early:
            bad = ("defaults are installed before the file has been read completely: an expression that refers to a key given later in the "
                   "file is evaluated with the default instead of being deferred (result depends on key order)")
        elif _is_const(a0, False) and dcalls and not early_all and all(not guards_of(c) for c in dcalls):
            ok = True
    chk.pat("G3-defaults-after-file", gc0, "set_defaults() after the parse loop", ok,
            "expressions in the file are evaluated against values given in the file (a key that is not yet read defers the "
            "expression); defaults only fill what the file leaves unset", bad, **KG)

    # ---- what runs after the file has been read only completes the object: it must not replace a value the file gave
    ok = bad = None
    if cobj is not None and lp is not None:
        # "after the file has been read" starts where the first value of the file is stored: after the first of the loops,
        # outside every one of them
        ok, bad = _completions_fill_only_unset(gc, min(loops, key=_pos), cobj, cls, keys, skip=loops)
    chk.pat("G3-defaults-after-file", gc0, "after the parse loop: attributes are written only where they are still None", ok,
            "every attribute written after the file has been read (defaults, derived constants) is written under the test that it is "
            "still unset, in the method or at its call: a value given in the file survives", bad, **KG)

    # ---- deferral of expressions with unset operands
    ok = bad = None
    evs = [n for n in _own_walk(gc) if isinstance(n, ast.Assign) and isinstance(n.value, ast.Call) and _fname(n.value) == "eval_expr"
           and isinstance(n.targets[0], ast.Name)]
    if len(evs) == 1 and lp is not None:
        loops = [lp]
        res = evs[0].targets[0].id
        tests = [n for n in ast.walk(loops[0]) if isinstance(n, ast.If) and (same_expr(n.test, f"{res} is None") or same_expr(n.test, f"{res} is not None"))]
        if not tests:
            # VIOLATED needs: every read of the result in the whole function is the value stored by setattr(obj, key, <result>) (or
            # the right-hand side of an attribute / item store): it is then provably never examined.  A result compared into a
            # flag, passed to a helper, filtered in a comprehension ... is an examination this rule cannot follow
            reads = [x for x in ast.walk(gc) if isinstance(x, ast.Name) and x.id == res and isinstance(x.ctx, ast.Load)]

            def only_stored(x):
                p_ = parent(x)
                if isinstance(p_, ast.Call) and _fname(p_) == "setattr" and len(p_.args) == 3 and p_.args[2] is x:
                    return True
                return isinstance(p_, ast.Assign) and p_.value is x and all(isinstance(t_, (ast.Attribute, ast.Subscript)) for t_ in p_.targets)
            if reads and all(only_stored(x) for x in reads) and not any(isinstance(n, (ast.If, ast.IfExp, ast.While, ast.Assert)) and any(
                    isinstance(x, ast.Name) and x.id == res for x in ast.walk(n.test)) for n in ast.walk(loops[0])):
                bad = ("the result of eval_expr is never tested: an expression whose operands are not yet known is stored as None "
                       "instead of being retried")
        elif len(tests) == 1:
            t = tests[0]
            arm = t.body if same_expr(t.test, f"{res} is None") else t.orelse
            other = t.orelse if arm is t.body else t.body
            # the None arm puts the entry into a container (pend[key] = text / pend.append(entry) / pend.add ...)
            deferred, pends = [], []
            for s_ in arm:
                for a in ast.walk(s_):
                    if isinstance(a, ast.Assign) and isinstance(a.targets[0], ast.Subscript) and isinstance(a.targets[0].value, ast.Name):
                        deferred.append(a)
                        pends.append(a.targets[0].value.id)
                    elif isinstance(a, ast.Expr) and isinstance(a.value, ast.Call) and isinstance(a.value.func, ast.Attribute) \
                            and a.value.func.attr in ("append", "add", "insert", "appendleft", "setdefault", "update", "extend") \
                            and isinstance(a.value.func.value, ast.Name) and a.value.args:
                        deferred.append(a)
                        pends.append(a.value.func.value.id)
            # the attribute is set only when the expression could be evaluated: in the other arm, or after the test when the
            # None arm leaves the iteration
            sets = [c for s_ in other for c in ast.walk(s_) if isinstance(c, ast.Call) and _fname(c) == "setattr"]
            if not sets and arm is t.body and arm and isinstance(arm[-1], ast.Continue):
                # statements that follow the test inside the same iteration (in its block and in the enclosing blocks up to the loop)
                node = t
                while node is not None and not isinstance(node, (ast.For, ast.While)):
                    up = parent(node)
                    for f_ in ("body", "orelse", "finalbody"):
                        b_ = getattr(up, f_, None)
                        if isinstance(b_, list) and any(x is node for x in b_):
                            k_t = next(k for k, x in enumerate(b_) if x is node)
                            sets += [c for s_ in b_[k_t + 1:] for c in ast.walk(s_) if isinstance(c, ast.Call) and _fname(c) == "setattr"]
                    node = up
            if len(deferred) == 1 and sets:
                pend = pends[0]
                outer = loops[0]
                # the work-list: what the outer loop tests, what inner loops iterate over, what entries are popped from
                work = {x.id for x in ast.walk(outer.test) if isinstance(x, ast.Name)} if isinstance(outer, ast.While) else set()
                for n_ in ast.walk(outer):
                    if isinstance(n_, ast.For):
                        work |= {x.id for x in ast.walk(n_.iter) if isinstance(x, ast.Name)}
                    elif isinstance(n_, ast.While) and n_ is not outer:
                        work |= {x.id for x in ast.walk(n_.test) if isinstance(x, ast.Name)}
                    elif isinstance(n_, ast.Call) and isinstance(n_.func, ast.Attribute) and n_.func.attr in ("pop", "popitem", "popleft") \
                            and isinstance(n_.func.value, ast.Name):
                        work.add(n_.func.value.id)
                work = {w_ for w_ in work if w_ in D.defs and w_ != pend}
                mentions = lambda e_: e_ is not None and any(isinstance(x, ast.Name) and x.id == pend and isinstance(x.ctx, ast.Load)
                                                             for x in ast.walk(e_))
                retried = []
                in_outer = {id(x) for x in ast.walk(outer)}
                for w_ in work:             # bindings inside the loop (tuple assignments are taken apart by _Defs)
                    retried += [st_ for v_, st_ in D.defs.get(w_, []) if id(st_) in in_outer and mentions(v_) and st_ is not deferred[0]]
                retried += [n_ for n_ in ast.walk(outer) if isinstance(n_, ast.Call) and isinstance(n_.func, ast.Attribute)
                            and n_.func.attr in ("update", "extend", "extendleft") and isinstance(n_.func.value, ast.Name)
                            and n_.func.value.id in work and any(mentions(a_) for a_ in n_.args)]
                progress = [a for a in ast.walk(outer) if isinstance(a, ast.Assert) and isinstance(a.test, ast.Compare)
                            and isinstance(a.test.ops[0], (ast.Lt, ast.Gt)) and "len(" in src(a.test)]
                uses = [x for st_ in ast.walk(outer) if isinstance(st_, ast.stmt) and not isinstance(st_, (ast.Assert, ast.While, ast.For, ast.If))
                        and st_ is not deferred[0] for x in ast.walk(st_) if isinstance(x, ast.Name) and x.id == pend]
                # VIOLATED ("never taken up again") needs the whole life of the container to be visible: apart from its creation it
                # is mentioned nowhere in the function outside this loop (a second loop, a helper, a return value would take the
                # entries up there), and no code of a refactoring is called that could
                in_outer_ids = {id(x) for x in ast.walk(outer)}
                outside = [x for x in ast.walk(gc) if isinstance(x, ast.Name) and x.id == pend and id(x) not in in_outer_ids
                           and not (isinstance(x.ctx, ast.Store) and isinstance(parent(x), ast.Assign) and isinstance(parent(x).value, (
                               ast.Dict, ast.List, ast.Call, ast.Set)) and not any(isinstance(y, ast.Name) for y in ast.walk(parent(x).value)
                                                                                   if y is not getattr(parent(x).value, "func", None)))]
                closed = not outside and not _calls_new_code(chk, gc, U.CONSTANTS)
                if not retried and not uses and closed:
                    bad = (f"deferred expressions are collected in `{pend}` but never taken up again: a key that refers to a later key "
                           "is lost")
                elif not retried and not uses:
                    pass
                elif not retried and not closed and all(isinstance(parent(x), ast.Call) and _fname(parent(x)) == "len" for x in uses):
                    pass
                elif not retried and all(isinstance(parent(x), ast.Call) and _fname(parent(x)) == "len" for x in uses):
                    bad = (f"deferred expressions are collected in `{pend}`, but only its length is read afterwards: the entries never "
                           f"return to the work-list ({', '.join(sorted(work)) or 'none found'}), so a key that refers to a later key "
                           "of the file is lost")
                elif isinstance(outer, ast.While) and progress:
                    ok = True
    chk.pat("G3-dependency-order", gc0, "unresolved expressions are retried until all keys are read", ok,
            "an expression whose operands are not yet known is deferred and retried, with a progress assertion", bad, **KG)

    ee0 = chk.func(U.CONSTANTS, "eval_expr")
    ee = _work(ee0, chk, U.CONSTANTS)
    pe = _params(ee)
    ok = bad = None
    gets = [n for n in _own_walk(ee) if isinstance(n, ast.Assign) and isinstance(n.value, ast.Call) and _fname(n.value) == "getattr"
            and isinstance(n.targets[0], ast.Name) and len(pe) > 1 and n.value.args and src(n.value.args[0]) == pe[1]]
    if len(gets) == 1:
        val = gets[0].targets[0].id
        blk = _enclosing_block(gets[0]) or []
        stores = [n for n in ast.walk(ee) if isinstance(n, ast.Name) and n.id == val and isinstance(n.ctx, ast.Store)]
        is_none_ret = lambda n: isinstance(n, ast.Return) and (n.value is None or _is_const_none(n.value))
        rets = [n for s_ in blk for n in ast.walk(s_) if is_none_ret(n)]
        any_none_ret = any(is_none_ret(n) for n in _own_walk(ee))
        tested = [n for n in _own_walk(ee) if isinstance(n, (ast.If, ast.IfExp, ast.While, ast.Assert))
                  and any(isinstance(x, ast.Name) and x.id == val for x in ast.walk(n.test))]

        def none_arm(i):
            """statements of an `if` executed when the operand is None (and whether that arm is the body)"""
            if same_expr(i.test, f"{val} is None") or same_expr(i.test, f"{val} == None") or same_expr(i.test, f"not {val}"):
                return i.body, True
            if same_expr(i.test, f"{val} is not None") or same_expr(i.test, f"{val} != None"):
                return i.orelse, False
            return None, None
        if len(stores) > 1:
            other = [parent(n) for n in stores if parent(n) is not gets[0]][0]
            gs = [(t, pol) for t, pol, k in guards_of(other, stop=parent(gets[0])) if k == "if"]
            # VIOLATED needs: the replacement is a value that does not come from the file - a literal, or something read from the table
            # of defaults (the module-level name imported from default_constants, also through a call on it) - and the arm that
            # replaces it does nothing else (no return / raise / jump: it does not defer by another route).  A fall-back to another
            # storage of the constants object is not such a replacement: cannot decide
            holder = parent(other)
            arm_ = (holder.body if any(x is other for x in holder.body) else holder.orelse) if isinstance(holder, ast.If) else []
            plain_arm = arm_ and not any(isinstance(x, (ast.Return, ast.Raise, ast.Continue, ast.Break)) for s_ in arm_ for x in ast.walk(s_))
            rv = other.value if isinstance(other, ast.Assign) else None
            table_names = _default_table_names(chk)
            from_defaults = rv is not None and ((isinstance(rv, ast.Constant) and rv.value is not None) or any(
                isinstance(x, ast.Name) and x.id in table_names for x in ast.walk(rv)))
            if gs and plain_arm and from_defaults and (
                    (same_expr(gs[0][0], f"{val} is None") and gs[0][1]) or (same_expr(gs[0][0], f"{val} is not None") and not gs[0][1])
                    or (same_expr(gs[0][0], f"not {val}") and gs[0][1])):
                bad = (f"an operand that is still unset is replaced (`{src(other)[:70]}`) instead of deferring the expression: it is "
                       "evaluated with a value the file may override later (result depends on key order)")
        elif not tested and not any_none_ret:
            # VIOLATED needs: the fetched operand is only ever turned into text (every read of it is an argument of str / format /
            # an f-string or a store), nothing raises, and no helper a refactoring introduced is called with it
            val_reads = [x for x in _own_walk(ee) if isinstance(x, ast.Name) and x.id == val and isinstance(x.ctx, ast.Load)]
            textual = all(isinstance(parent(x), (ast.FormattedValue, ast.Assign)) or (isinstance(parent(x), ast.Call) and _fname(parent(x)) in (
                "str", "repr", "format")) for x in val_reads)
            in_try = any(isinstance(p_, ast.Try) for x in val_reads for p_ in _ancestors(x))
            if textual and not in_try and not any(isinstance(n, ast.Raise) for s_ in blk for n in ast.walk(s_)) \
                    and not _calls_new_code(chk, ee, U.CONSTANTS):
                bad = ("eval_expr never tests the operand it fetched and never returns None: an operand that is still unset enters the "
                       "expression as the text `None` instead of deferring the expression to a later sweep")
        else:
            for i in [n for n in tested if isinstance(n, ast.If)]:
                arm, is_body = none_arm(i)
                if arm is None:
                    continue
                if any(is_none_ret(n) for s_ in arm for n in ast.walk(s_)):
                    ok = True
                    continue
                # a flag set in the None arm and turned into `return None` later in the function
                flags = {t_.id for s_ in arm if isinstance(s_, ast.Assign) and isinstance(s_.value, ast.Constant) and s_.value.value is True
                         for t_ in s_.targets if isinstance(t_, ast.Name)}
                for fl in flags:
                    others = [d for d in _Defs(ee).defs.get(fl, []) if not any(d[1] is s_ for s_ in arm)]
                    cleared = others and all(isinstance(d[0], ast.Constant) and d[0].value in (False, None) and _pos(d[1]) < _pos(i) for d in others)
                    turned = [j for j in _own_walk(ee) if isinstance(j, ast.If) and _pos(j) > _pos(i) and (same_expr(j.test, fl) or same_expr(
                        j.test, f"{fl} is True") or same_expr(j.test, f"{fl} == True")) and any(is_none_ret(n) for s_ in j.body for n in ast.walk(s_))
                        and not guards_of(j)]
                    leaves = arm and isinstance(arm[-1], (ast.Break, ast.Continue)) or not is_body or not [
                        s_ for s_ in (_enclosing_block(i) or []) if _pos(s_) > _pos(i)]
                    if cleared and turned and leaves:
                        ok = True
                # the unset state handed on in another local: `x = None` in the None arm, a value that cannot be None otherwise,
                # and `if x is None: return None` afterwards
                carriers = {t_.id for s_ in arm if isinstance(s_, ast.Assign) and _is_const_none(s_.value) for t_ in s_.targets if isinstance(t_, ast.Name)}
                for cv in carriers:
                    others = [d for d in _Defs(ee).defs.get(cv, []) if not any(d[1] is s_ for s_ in arm)]
                    never_none = others and all(isinstance(d[0], ast.Call) and _fname(d[0]) in ("str", "repr", "format", "float", "int") for d in others)
                    turned = [j for j in _own_walk(ee) if isinstance(j, ast.If) and _pos(j) >= _pos(i) and j is not i and (same_expr(j.test, f"{cv} is None") or same_expr(
                        j.test, f"{cv} == None")) and any(is_none_ret(n) for s_ in j.body for n in ast.walk(s_))
                        and [(src(t_), p_) for t_, p_, k_ in guards_of(j)] == [(src(t_), p_) for t_, p_, k_ in guards_of(i)]]
                    if never_none and turned:
                        ok = True
                if ok is None and not arm and not any_none_ret:
                    bad = (f"nothing is done when the operand is unset (`{src(i.test)}` has no other arm) and eval_expr never returns None: "
                           "the expression cannot be deferred, the unset name stays in the text that is evaluated")
    chk.pat("G3-dependency-order", ee0, "eval_expr: unknown operand -> None (defer)", ok,
            "a symbolic operand that is still unset makes the expression deferred, never silently replaced", bad,
            file=U.CONSTANTS, func="eval_expr")

    # ---- the parameter file: written by setupSave, read by the restart, looked for by the driver
    ss0 = chk.func(U.SAVING, "setupSave")
    ss = _work(ss0, chk, U.SAVING)
    Dss = _Defs(ss)
    pss = _params(ss)
    wrote = None
    if len(pss) > 1:
        opens = _literal_names(ss, Dss, {pss[1]: "F"}, lambda n: isinstance(n.func, ast.Name) and n.func.id == "open" and len(n.args) > 1
                               and _is_const(n.args[1], typ=str) and "w" in n.args[1].value)
        def text_of_constants(e_):
            """the expression is the text of the constants object: the object itself (print / format apply str), str(obj),
            obj.__str__(), a format / f-string / concatenation with a newline around one of these"""
            e_ = Dss.resolve(e_)
            if isinstance(e_, ast.BinOp) and isinstance(e_.op, ast.Add):
                sides = [x for x in (e_.left, e_.right) if not (_is_const(x, typ=str) and x.value.strip() == "")]
                return len(sides) == 1 and text_of_constants(sides[0])
            if isinstance(e_, ast.Call) and _fname(e_) in ("str", "__str__", "format", "repr") and src(e_) in (
                    f"str({pss[0]})", f"{pss[0]}.__str__()", f"format({pss[0]})"):
                return True
            t_ = _template(e_)
            return t_ is not None and [p_ for p_ in t_ if p_[0] == "fld"] == [("fld", pss[0], "")] and all(
                p_[0] == "fld" or p_[1].strip() == "" for p_ in t_)
        # the statement that sends the text of the constants to a file handle: print(obj, file=H) / H.write(text) / H.writelines([text])
        prints = []
        for n in _own_walk(ss):
            if not isinstance(n, ast.Call):
                continue
            if isinstance(n.func, ast.Name) and n.func.id == "print" and len(n.args) == 1 and text_of_constants(n.args[0]):
                h_ = next((k.value for k in n.keywords if k.arg == "file"), None)
                if h_ is not None:
                    prints.append((n, h_))
            elif isinstance(n.func, ast.Attribute) and n.func.attr == "write" and len(n.args) == 1 and text_of_constants(n.args[0]):
                prints.append((n, n.func.value))
        if len(opens) == 1 and len(prints) == 1:
            f = prints[0][1]
            prints = [prints[0][0]]
            if f is not None and Dss.resolve(f, within=_enclosing_block(prints[0])) is not None and \
                    src(Dss.resolve(f, within=_enclosing_block(prints[0]))) == src(Dss.resolve(opens[0][1], within=_enclosing_block(opens[0][1]))):
                wrote = opens[0][0]
    sf = _work(chk.func(U.SETUPS, "setupFromFile"), chk, U.SETUPS, "h5")
    Dsf = _Defs(sf)
    psf = _params(sf)
    read = None
    gcalls = [n for n in _own_walk(sf) if isinstance(n, ast.Call) and _fname(n) == "get_constants" and len(n.args) == 1]
    if len(gcalls) == 1 and isinstance(gcalls[0].args[0], ast.Name) and len(psf) > 1 and gcalls[0].args[0].id == psf[1]:
        # the parameter, replaced under `if constantFile is None`
        ds = [(v, st) for v, st in Dsf.defs.get(psf[1], []) if v is not None]
        if len(ds) == 1 and any(same_expr(t, f"{psf[1]} is None") and pol for t, pol, k in guards_of(ds[0][1])):
            t = _template(Dsf.resolve(ds[0][0]))
            read = _canon(t, {psf[0]: "F"}, other="?") if t is not None else None
    ok = bad = None
    if wrote and read and "{?" not in wrote + read:
        ok = wrote == read
        if not ok:
            bad = f"setupSave writes the parameters to `{wrote}` but the restart reads `{read}`: a saved run cannot be restarted"
    chk.pat("W2-file-name-family", ss0, "initParams.json written by setupSave, read by setupFromFile", ok,
            "the root process prints the constants into the file whose name the restart passes to get_constants", bad,
            file=U.SAVING, func="setupSave")
    # the driver restarts only when it finds that file
    mn = _work(chk.func(U.DRIVER, "main"), chk, U.DRIVER)
    Dm = _Defs(mn)
    # the existence test that DECIDES the restart: the one read by the condition of the `if` one of whose arms calls the restart
    # set-up (found by that role; other existence tests of the driver - creating the folder, diagnostics - say nothing here)
    deciding = set()
    for n in _own_walk(mn):
        if isinstance(n, ast.If) and any(isinstance(c, ast.Call) and _fname(c) == "setupFromFile" for arm in (n.body, n.orelse) for st in arm for c in ast.walk(st)):
            tests_ = [Dm.resolve(n.test, within=_enclosing_block(n))]
            # a flag (`loadable`) set to True under the conditions that decide: those conditions are read instead
            for x in [x for x in ast.walk(tests_[0]) if isinstance(x, ast.Name)]:
                for v_, st_ in Dm.defs.get(x.id, []):
                    if _is_const(v_, True) and isinstance(v_.value, bool):
                        tests_ += [Dm.resolve(g_[0], within=_enclosing_block(st_)) for g_ in guards_of(st_, stop=mn) if g_[2] == "if" and g_[1]]
            for t_ in tests_:
                deciding |= {src(c.args[0]) for c in ast.walk(t_) if isinstance(c, ast.Call) and _fname(c) in ("exists", "isfile", "lexists") and c.args}
                deciding |= {src(c.func.value) for c in ast.walk(t_) if isinstance(c, ast.Call) and _fname(c) in ("exists", "is_file") and not c.args
                             and isinstance(c.func, ast.Attribute)}
    looked = []
    for text in sorted(deciding):
        e_ = ast.parse(text, mode="eval").body
        if isinstance(e_, ast.Call) and _fname(e_) in ("Path", "PurePath") and len(e_.args) >= 1:
            e_ = ast.Call(func=ast.Attribute(value=ast.Attribute(value=ast.Name(id="os", ctx=ast.Load()), attr="path", ctx=ast.Load()), attr="join",
                                             ctx=ast.Load()), args=list(e_.args), keywords=[]) if len(e_.args) > 1 else e_.args[0]
        t_ = _template(Dm.resolve(e_))
        c_ = _canon(t_, {}, other="F") if t_ is not None else None
        if c_ is not None and c_.count("{F}") == 1:
            looked.append(c_)
    ok = bad = None
    if wrote and looked and "{?" not in wrote:
        ok = wrote in looked
        if not ok:
            bad = (f"the driver decides to restart when `{looked[0]}` exists, but setupSave writes `{wrote}`: a run is never continued, it "
                   "starts again from the initial condition")
    chk.pat("W2-file-name-family", mn, "driver: restart when <folder>/initParams.json exists", ok,
            "the driver looks for the parameter file under the name setupSave writes", bad, file=U.DRIVER, func="main")


def _is_const_none(e):
    return isinstance(e, ast.Constant) and e.value is None


def _default_table_names(chk):
    """the module-level names of constants.py that stand for the table of default values: names imported from the module of the
    defaults (default_constants), and names assigned from such a name at module level"""
    try:
        tree = chk.repo.mod(U.CONSTANTS).tree
    except AnalysisError:
        return set()
    out = set()
    for st in tree.body:
        if isinstance(st, ast.ImportFrom) and st.module and st.module.split(".")[-1] == U.DEFAULTS.rsplit("/", 1)[1][:-3]:
            out |= {al.asname or al.name for al in st.names}
        elif isinstance(st, ast.Assign) and isinstance(st.value, (ast.Name, ast.Call, ast.Attribute)) and any(
                isinstance(x, ast.Name) and x.id in out for x in ast.walk(st.value)):
            out |= {t.id for t in st.targets if isinstance(t, ast.Name)}
    return out


def _unset_test(t, pol):
    """the test (taken with polarity `pol`) says that an attribute is still unset -> source of what is tested
    (`self.X` / `getattr(self, K)` / ...), else None"""
    while isinstance(t, ast.UnaryOp) and isinstance(t.op, ast.Not):
        t, pol = t.operand, not pol
    if isinstance(t, ast.Compare) and len(t.ops) == 1 and _is_const_none(t.comparators[0]):
        if isinstance(t.ops[0], (ast.Is, ast.Eq)) and pol:
            return t.left
        if isinstance(t.ops[0], (ast.IsNot, ast.NotEq)) and not pol:
            return t.left
    return None


def _attr_key(e, obj):
    """`obj.X` -> 'X';  getattr(obj, 'X'[, None]) -> 'X';  getattr(obj, K[, None]) -> ('var', 'K');  else None"""
    if isinstance(e, ast.Attribute) and src(e.value) == obj:
        return e.attr
    if isinstance(e, ast.Call) and _fname(e) == "getattr" and isinstance(e.func, ast.Name) and len(e.args) in (2, 3) and src(e.args[0]) == obj \
            and (len(e.args) == 2 or _is_const_none(e.args[2])):
        if _is_const(e.args[1], typ=str):
            return e.args[1].value
        if isinstance(e.args[1], ast.Name):
            return ("var", e.args[1].id)
    return None


def _writes_with_guards(fn, obj, stop=None):
    """attribute writes on `obj` inside `fn` -> [(key, statement, guarded?, mentioned?)]: key as in _attr_key; guarded = under a test
    that the same attribute is still None (an enclosing `if`, or an earlier `if <set>: continue` of the same loop body);
    mentioned = some test around the write reads the attribute at all (an unrecognised guard)"""
    out = []
    for n in ast.walk(fn):
        key = st = None
        if isinstance(n, ast.Attribute) and isinstance(n.ctx, ast.Store) and src(n.value) == obj:
            key = n.attr
        elif isinstance(n, ast.Call) and _fname(n) == "setattr" and isinstance(n.func, ast.Name) and len(n.args) == 3 and src(n.args[0]) == obj:
            key = n.args[1].value if _is_const(n.args[1], typ=str) else ("var", n.args[1].id) if isinstance(n.args[1], ast.Name) else ("var", "?")
        if key is None:
            continue
        st = n
        while not isinstance(st, ast.stmt):
            st = parent(st)
        tests = [(t, pol) for t, pol, k in guards_of(n, stop=stop) if k in ("if", "ifexp", "while")]
        # early `continue` / `return` of the enclosing block(s): `if <test>: continue` before the statement guards it with `not test`
        ch, p_ = st, parent(st)
        while p_ is not None and p_ is not stop:
            for f in ("body", "orelse"):
                b = getattr(p_, f, None)
                if isinstance(b, list) and any(x is ch for x in b):
                    for prev in b[:next(i for i, x in enumerate(b) if x is ch)]:
                        if isinstance(prev, ast.If) and not prev.orelse and prev.body and isinstance(prev.body[-1], (ast.Continue, ast.Return, ast.Raise)):
                            tests.append((prev.test, False))
            if isinstance(p_, (ast.FunctionDef, ast.AsyncFunctionDef)):
                break
            ch, p_ = p_, parent(p_)
        guarded = any(_unset_test(t, pol) is not None and _attr_key(_unset_test(t, pol), obj) == key for t, pol in tests)
        name = key if isinstance(key, str) else key[1]
        # the value written may itself keep the old value (`self.x = self.x if self.x is not None else d`, `self.x = self.x or d`,
        # setattr(self, k, getattr(self, k) ...)): a write whose value reads the attribute is an unrecognised guard, too
        value = st.value if isinstance(st, (ast.Assign, ast.AugAssign, ast.AnnAssign)) else n.args[2] if isinstance(n, ast.Call) else None
        reads_self = value is not None and any(
            (isinstance(x, ast.Attribute) and x.attr == name and src(x.value) == obj) or (isinstance(x, ast.Call) and _fname(x) == "getattr"
                                                                                           and x.args and src(x.args[0]) == obj)
            for x in ast.walk(value))
        mentioned = reads_self or isinstance(st, ast.AugAssign) or any(
            (isinstance(x, ast.Attribute) and x.attr == name and src(x.value) == obj) or (isinstance(x, ast.Name) and x.id == name
                                                                                         and not isinstance(key, str))
            or (isinstance(x, ast.Constant) and x.value == name) for t, pol in tests for x in ast.walk(t))
        out.append((key, st, guarded, mentioned))
    return out


def _completions_fill_only_unset(gc, lp, cobj, cls, keys, skip=()):
    """the statements of get_constants after the parse loop that write attributes of the constants object (directly, or through
    a method of the class) -> (ok, bad)"""
    inside = {id(x) for l_ in (lp, *skip) for x in ast.walk(l_)}
    after = [n for n in _own_walk(gc) if isinstance(n, ast.stmt) and _pos(n) > _pos(lp) and id(n) not in inside]
    methods = {m.name: m for m in cls.body if isinstance(m, ast.FunctionDef) and not m.decorator_list}
    found, unknown, wrong = 0, [], []
    seen = set()
    for st in after:
        if isinstance(st, (ast.If, ast.For, ast.While, ast.With, ast.Try)):
            continue                    # their parts are visited on their own
        for n in ast.walk(st):
            if not (isinstance(n, ast.Call) and isinstance(n.func, ast.Attribute) and src(n.func.value) == cobj and id(n) not in seen):
                continue
            seen.add(id(n))
            m = methods.get(n.func.attr)
            if m is None or not m.args.args:
                unknown.append(src(n)[:50])
                continue
            slf = m.args.args[0].arg
            ws = _writes_with_guards(m, slf, stop=m)
            if any(isinstance(c, ast.Call) and isinstance(c.func, ast.Attribute) and src(c.func.value) == slf and c.func.attr in methods
                   for c in ast.walk(m)):
                unknown.append(f"{m.name} calls other methods")
            site = [(t, pol) for t, pol, k in guards_of(n, stop=gc) if k in ("if", "ifexp")]
            for key, wst, guarded, mentioned in ws:
                found += 1
                at_site = any(_unset_test(t, pol) is not None and _attr_key(_unset_test(t, pol), cobj) == key for t, pol in site)
                site_mentions = isinstance(key, str) and any(isinstance(x, ast.Attribute) and x.attr == key and src(x.value) == cobj
                                                             for t, pol in site for x in ast.walk(t))
                if guarded or at_site:
                    continue
                if isinstance(key, str) and (key.startswith("_") and key[1:] not in keys or (not key.startswith("_") and key not in keys)):
                    continue            # not a key of the parameter file
                if mentioned or site_mentions:
                    unknown.append(f"{m.name}: `{src(wst)[:50]}`")
                else:
                    what = f"`{key}`" if isinstance(key, str) else f"every key `{key[1]}` of its loop"
                    wrong.append(f"`{src(n)[:40]}` runs after the file has been read and `{m.name}` writes {what} (`{src(wst)[:60]}`) "
                                 f"without testing that it is still unset, neither in the method nor at the call: a value given in the "
                                 "parameter file is replaced, the constants read back are not the ones that were saved")
        for key, wst, guarded, mentioned in _writes_with_guards(st, cobj, stop=gc) if not isinstance(st, (ast.FunctionDef, ast.ClassDef)) else []:
            if wst is not st:
                continue
            found += 1
            if guarded:
                continue
            if mentioned or not isinstance(key, str):
                unknown.append(f"`{src(wst)[:50]}`")
            elif key in keys:
                wrong.append(f"`{src(wst)[:60]}` after the parse loop overwrites `{key}` without testing that it is still unset: a value "
                             "given in the parameter file is replaced")
    if wrong:
        return None, wrong[0]
    if unknown or not found:
        return None, None
    return True, None


# =========================================================================================================
# the driver: zero divisors, restart book-keeping, save steps
# =========================================================================================================
def zero_divisors(chk, fn):
    """G-zero: no division whose divisor can still hold the literal 0 it was initialised with"""
    # candidate counters: names initialised with literal 0 at function level and incremented somewhere
    zeros = {}
    for st in fn.body:
        if isinstance(st, ast.Assign) and isinstance(st.targets[0], ast.Name) and isinstance(st.value, ast.Constant) and st.value.value == 0:
            zeros[st.targets[0].id] = st
    # difference counters: `S = X` once at function level, X a name the function increments: `X - S` counts the increments of X
    # since that statement (0 right after it, positive after an increment of X by a positive literal, unknown after anything else)
    all_stores = {}
    for n_ in _own_walk(fn):
        if isinstance(n_, ast.Name) and isinstance(n_.ctx, ast.Store):
            all_stores[n_.id] = all_stores.get(n_.id, 0) + 1
    incremented = {increment_of(x)[0] for x in ast.walk(fn) if isinstance(x, (ast.Assign, ast.AugAssign)) and increment_of(x)}
    diffs = {}                  # key "X - S" -> (X, S)
    for st in fn.body:
        if isinstance(st, ast.Assign) and len(st.targets) == 1 and isinstance(st.targets[0], ast.Name) and isinstance(st.value, ast.Name) \
                and all_stores.get(st.targets[0].id) == 1 and st.value.id in incremented and st.targets[0].id not in _params(fn):
            diffs[f"{st.value.id} - {st.targets[0].id}"] = (st.value.id, st.targets[0].id)
    found = 0

    def track_diffs(st, state):
        """effect of a simple statement on the difference counters"""
        if not diffs:
            return
        stored = {x.id for x in ast.walk(st) if isinstance(x, ast.Name) and isinstance(x.ctx, (ast.Store, ast.Del))}
        inc = increment_of(st) if isinstance(st, (ast.Assign, ast.AugAssign)) else None
        for key, (X, S) in diffs.items():
            if isinstance(st, ast.Assign) and len(st.targets) == 1 and isinstance(st.targets[0], ast.Name) and st.targets[0].id == S \
                    and isinstance(st.value, ast.Name) and st.value.id == X:
                state[key] = {"zero"}
            elif S in stored:
                state[key] = {"unknown"}
            elif X in stored:
                if inc and inc[0] == X and isinstance(inc[1], ast.Constant) and isinstance(inc[1].value, int) and not isinstance(inc[1].value, bool) \
                        and inc[1].value > 0 and len(stored) == 1:
                    state[key] = {"pos"} if state[key] <= {"zero", "pos"} else {"unknown"}
                else:
                    state[key] = {"unknown"}

    def divisor(e, state):
        """the divisor as a tracked counter plus a non-negative literal -> (key, offset) | None"""
        off = 0
        while isinstance(e, ast.BinOp) and isinstance(e.op, ast.Add):
            if _is_const(e.right, typ=int) and not isinstance(e.right.value, bool) and e.right.value >= 0:
                off, e = off + e.right.value, e.left
            elif _is_const(e.left, typ=int) and not isinstance(e.left.value, bool) and e.left.value >= 0:
                off, e = off + e.left.value, e.right
            else:
                return None
        if isinstance(e, ast.Name) and e.id in state:
            return e.id, off
        if isinstance(e, ast.BinOp) and isinstance(e.op, ast.Sub) and isinstance(e.left, ast.Name) and isinstance(e.right, ast.Name) \
                and f"{e.left.id} - {e.right.id}" in state:
            return f"{e.left.id} - {e.right.id}", off
        return None

    def nonzero_when(test):
        """names known to be non-zero when `test` is true / when it is false -> (set, set)"""
        if isinstance(test, ast.Name):
            return {test.id}, set()
        if isinstance(test, ast.UnaryOp) and isinstance(test.op, ast.Not):
            a, b = nonzero_when(test.operand)
            return b, a
        if isinstance(test, ast.BoolOp):
            parts = [nonzero_when(v) for v in test.values]
            if isinstance(test.op, ast.And):
                return set().union(*[p_[0] for p_ in parts]), set()
            return set(), set().union(*[p_[1] for p_ in parts])
        if isinstance(test, ast.Compare) and len(test.ops) == 1:
            a, b, op = test.left, test.comparators[0], test.ops[0]
            flipped = {ast.Lt: ast.Gt, ast.Gt: ast.Lt, ast.LtE: ast.GtE, ast.GtE: ast.LtE}
            if isinstance(b, ast.Name) and not isinstance(a, ast.Name):
                a, b, op = b, a, flipped.get(type(op), type(op))()
            if isinstance(a, ast.Name) and isinstance(b, ast.Constant) and isinstance(b.value, (int, float)) and not isinstance(b.value, bool):
                c = b.value
                if (isinstance(op, ast.Gt) and c >= 0) or (isinstance(op, ast.GtE) and c > 0) or (isinstance(op, ast.NotEq) and c == 0) \
                        or (isinstance(op, ast.Eq) and c != 0):
                    return {a.id}, set()
                # counters of this rule start at the literal 0 and only grow (anything else makes them `unknown`): `n < c` with
                # c <= 1 and `n <= c` with c <= 0 can only hold for n == 0 ... what matters: when they are FALSE, n is not 0
                if (isinstance(op, ast.Eq) and c == 0) or (isinstance(op, ast.Lt) and 0 < c <= 1) or (isinstance(op, ast.LtE) and 0 <= c < 1):
                    return set(), {a.id}
        return set(), set()

    def refined(state, names):
        out = {k: set(v) for k, v in state.items()}
        for nm in names:
            if nm in out:
                out[nm] = (out[nm] - {"zero"}) or {"pos"}
        return out

    def scan(stmts, state):
        """state: name -> set of abstract values {'zero','pos','unknown'}"""
        nonlocal found
        for st in stmts:
            if isinstance(st, ast.If):
                check_exprs(st.test, state)
                nz_t, nz_f = nonzero_when(st.test)
                a, b = refined(state, nz_t), refined(state, nz_f)
                scan(st.body, a)
                scan(st.orelse, b)
                # an arm that always leaves (return / raise / continue / break) does not reach what follows the `if`
                ea, eb = _always_leaves(st.body), _always_leaves(st.orelse)
                for k in state:
                    state[k] = (set() if ea else a[k]) | (set() if eb else b[k]) or {"unknown"}
            elif isinstance(st, (ast.While, ast.For)):
                if isinstance(st, ast.For):
                    check_exprs(st.iter, state)
                    for x in ast.walk(st.target):
                        if isinstance(x, ast.Name) and x.id in state:
                            state[x.id] = {"unknown"}
                        if isinstance(x, ast.Name):
                            for key, (X_, S_) in diffs.items():
                                if x.id in (X_, S_):
                                    state[key] = {"unknown"}
                for _ in range(3):
                    inner = {k: set(v) for k, v in state.items()}
                    if isinstance(st, ast.While):
                        check_exprs(st.test, inner, report=False)
                    scan_quiet(st.body, inner)
                    for k in state:
                        state[k] |= inner[k]
                entry = {k: set(v) for k, v in state.items()}
                if isinstance(st, ast.While):
                    check_exprs(st.test, entry)
                scan(st.body, entry)
                for k in state:
                    state[k] |= entry[k]
            elif isinstance(st, (ast.FunctionDef, ast.ClassDef)):
                continue
            elif isinstance(st, (ast.With, ast.AsyncWith)):
                for it in st.items:
                    check_exprs(it.context_expr, state)
                scan(st.body, state)
            elif isinstance(st, ast.Try):
                # the body may stop anywhere: what follows sees the state before it, after it, or after a handler
                before = {k: set(v) for k, v in state.items()}
                scan(st.body, state)
                for k in state:
                    state[k] |= before[k]
                outs = []
                for h_ in st.handlers:
                    hs = {k: set(v) for k, v in state.items()}
                    scan(h_.body, hs)
                    outs.append(hs)
                scan(st.orelse, state)
                for hs in outs:
                    for k in state:
                        state[k] |= hs[k]
                scan(st.finalbody, state)
            else:
                if isinstance(st, ast.Assign):
                    check_exprs(st.value, state)
                    track_diffs(st, state)
                    for t in st.targets:
                        if isinstance(t, ast.Name) and t.id in state:
                            v = st.value
                            inc = increment_of(st)
                            if inc and inc[0] == t.id and isinstance(inc[1], ast.Constant) and isinstance(inc[1].value, (int, float)) and inc[1].value > 0:
                                state[t.id] = {"pos"} if state[t.id] <= {"zero", "pos"} else {"unknown"}
                            else:
                                state[t.id] = {"zero"} if isinstance(v, ast.Constant) and v.value == 0 else {"unknown"}
                        elif not isinstance(t, ast.Name):
                            # a tracked name assigned inside a tuple / starred target: its new value is not followed
                            for x in ast.walk(t):
                                if isinstance(x, ast.Name) and x.id in state:
                                    state[x.id] = {"unknown"}
                    for x in ast.walk(st.value):            # assigned by a walrus inside the value
                        if isinstance(x, ast.NamedExpr) and isinstance(x.target, ast.Name) and x.target.id in state:
                            state[x.target.id] = {"unknown"}
                elif isinstance(st, ast.AugAssign):
                    check_exprs(st.value, state)
                    track_diffs(st, state)
                    if isinstance(st.target, ast.Name) and st.target.id in state:
                        v = st.value
                        if isinstance(st.op, ast.Add) and isinstance(v, ast.Constant) and isinstance(v.value, (int, float)) and v.value > 0:
                            state[st.target.id] = {"pos"} if state[st.target.id] <= {"zero", "pos"} else {"unknown"}
                        else:
                            state[st.target.id] = {"unknown"}
                else:
                    for ch in ast.iter_child_nodes(st):
                        if isinstance(ch, ast.expr):
                            check_exprs(ch, state)
                    track_diffs(st, state)
                    for x in ast.walk(st):                  # any other way of binding a tracked name (annotated assignment, walrus,
                        if isinstance(x, ast.Name) and isinstance(x.ctx, (ast.Store, ast.Del)) and x.id in state:   # del, global ...)
                            state[x.id] = {"unknown"}

    quiet = [False]

    def scan_quiet(stmts, state):
        quiet[0] = True
        try:
            scan(stmts, state)
        finally:
            quiet[0] = False

    def check_exprs(e, state, report=True):
        nonlocal found
        if isinstance(e, ast.IfExp):
            check_exprs(e.test, state, report)
            nz_t, nz_f = nonzero_when(e.test)
            check_exprs(e.body, refined(state, nz_t), report)
            check_exprs(e.orelse, refined(state, nz_f), report)
            return
        if isinstance(e, ast.BoolOp) and isinstance(e.op, ast.And):
            st_ = state
            for v in e.values:              # `n and x / n`: the right operand is evaluated only when the left one is true
                check_exprs(v, st_, report)
                st_ = refined(st_, nonzero_when(v)[0])
            return
        dv = divisor(e.right, state) if isinstance(e, ast.BinOp) and isinstance(e.op, (ast.Div, ast.FloorDiv, ast.Mod)) else None
        if dv is not None and not isinstance(e.right, ast.Name) and not (quiet[0] or not report):
            # a counter plus a literal / a difference counter: same verdicts, the divisor quoted as written
            found += 1
            key, off = dv
            bad = "zero" in state[key] and off == 0
            chk.ob("G4-zero-divisor", e, src(e)[:80], not bad,
                   f"`{src(e.right)}` is non-zero on every path reaching this division (a count that is at least "
                   f"{off if off else 1} here: incremented, offset by a positive literal, or excluded by a test)" if not bad else
                   f"`{src(e.right)}` is 0 right after `{diffs[key][1]} = {diffs[key][0]}` and stays 0 until `{diffs[key][0]}` is incremented: "
                   "no increment and no test excludes that on a path to this division: ZeroDivisionError aborts the run"
                   if key in diffs else f"`{src(e.right)}` can still be 0 here", file=U.DRIVER, func="main")
            for ch in ast.iter_child_nodes(e):
                if isinstance(ch, ast.expr):
                    check_exprs(ch, state, report)
            return
        if isinstance(e, ast.BinOp) and isinstance(e.op, (ast.Div, ast.FloorDiv, ast.Mod)) and isinstance(e.right, ast.Name) \
                and e.right.id in state and not (quiet[0] or not report):
            found += 1
            bad = "zero" in state[e.right.id]
            # VIOLATED assumes the ZeroDivisionError is not caught: a division inside a `try` that handles it (or handles
            # everything) does not abort the run - what the handler then does is not followed: undecided
            caught = any(isinstance(p_, ast.Try) and any(any(x is e for x in ast.walk(b_)) for b_ in p_.body) and any(
                h_.type is None or any(isinstance(x, ast.Name) and x.id in ("ZeroDivisionError", "ArithmeticError", "Exception", "BaseException")
                                       for x in ast.walk(h_.type)) for h_ in p_.handlers) for p_ in _ancestors(e))
            if bad and caught:
                chk.ob("G4-zero-divisor", e, src(e)[:80], None, f"`{e.right.id}` can be 0 here, but the division is inside a `try` that handles the "
                       "error: what happens then is not followed", file=U.DRIVER, func="main")
                for ch in ast.iter_child_nodes(e):
                    if isinstance(ch, ast.expr):
                        check_exprs(ch, state, report)
                return
            chk.ob("G4-zero-divisor", e, src(e)[:80], not bad,
                   f"`{e.right.id}` is non-zero on every path reaching this division (incremented, or excluded by a test)" if not bad else
                   f"`{e.right.id}` can still hold its initial 0 here: no increment and no test excludes it on a path from its "
                   "initialisation (the first iteration of a (re)started run" + (" that is a save step, e.g. save interval 1" if any(
                       isinstance(x, ast.Mod) for t_, _p, k_ in guards_of(e) if k_ == "if" for x in ast.walk(t_)) else "") +
                   "): ZeroDivisionError aborts the run", file=U.DRIVER, func="main")
        for ch in ast.iter_child_nodes(e):
            if isinstance(ch, ast.expr):
                check_exprs(ch, state, report)
    state = {k: {"unknown"} for k in zeros}
    state.update({k: {"unknown"} for k in diffs})
    scan(fn.body, state)
    if found < 1:
        raise AnalysisError("C18: no division by a zero-initialised counter found in the driver (rule would be vacuous)")


def _ancestors(n):
    out = []
    p = parent(n)
    while p is not None:
        out.append(p)
        p = parent(p)
    return out


def _is_write(c):
    return isinstance(c, ast.Call) and isinstance(c.func, ast.Attribute) and c.func.attr == "writeH5Dataset"


def _arith(v):
    return all(isinstance(n, (ast.Name, ast.Constant, ast.BinOp, ast.UnaryOp, ast.Compare, ast.BoolOp, ast.operator, ast.unaryop, ast.cmpop,
                              ast.boolop, ast.expr_context)) for n in ast.walk(v))


def _end_index(D, TN, strict):
    """the exclusive end N of the step index -> (N, exact): `ti < N` gives (N resolved, True); `ti <= L` gives (N, True) when L is
    written as N - 1, and (L resolved, False) otherwise (the loop then runs up to and including L)"""
    def unwrap(e):
        while isinstance(e, ast.Call) and _fname(e) in ("int", "round") and len(e.args) == 1:
            e = e.args[0]
        return e
    tn = unwrap(D.resolve(TN))
    if strict:
        return tn, True
    if isinstance(tn, ast.BinOp) and isinstance(tn.op, ast.Sub) and _is_const(tn.right, 1):
        return unwrap(tn.left), True
    return tn, False


def restart_bookkeeping(chk, fn):
    KD = dict(file=U.DRIVER, func="main")
    D = _Defs(fn)
    used = {n.id for n in _own_walk(fn) if isinstance(n, ast.Name) and isinstance(n.ctx, ast.Load)}
    hidden = [h for h in ast.walk(fn) if isinstance(h, ast.FunctionDef) and h is not fn and any(_is_write(c) for c in ast.walk(h))
              and h.name in used]          # a local function that writes checkpoints and could not be written back at its calls
    writes = [c for c in _own_walk(fn) if _is_write(c)]
    loops = [n for n in _own_walk(fn) if isinstance(n, ast.While) and any(_is_write(c) for c in ast.walk(n))]
    # ---- roles: G, T = grid and time returned by the set-up; loop; TI = step index
    setups = [n for n in _own_walk(fn) if isinstance(n, ast.Assign) and isinstance(n.value, ast.Call) and _fname(n.value) in
              ("setupFromFile", "setupCylindricalGrid") and isinstance(n.targets[0], ast.Tuple) and len(n.targets[0].elts) == 3]
    T = G = None
    if setups and len({src(n.targets[0]) for n in setups}) == 1 and any(_fname(n.value) == "setupFromFile" for n in setups):
        G, T = src(setups[0].targets[0].elts[0]), src(setups[0].targets[0].elts[2])
    lp = loops[0] if len(loops) == 1 else None
    TI = TN = None
    incs = {}
    if lp is not None:
        for k, st in enumerate(lp.body):
            inc = increment_of(st)
            if inc:
                incs.setdefault(inc[0], []).append((k, inc[1]))
        conj = lp.test.values if isinstance(lp.test, ast.BoolOp) and isinstance(lp.test.op, ast.And) else [lp.test]
        for c in conj:
            if isinstance(c, ast.Compare) and len(c.ops) == 1 and isinstance(c.ops[0], (ast.Lt, ast.LtE, ast.Gt, ast.GtE)):
                a, b = c.left, c.comparators[0]
                if isinstance(c.ops[0], (ast.Gt, ast.GtE)):
                    a, b = b, a
                deep = {(increment_of(x) or (None,))[0] for x in ast.walk(lp) if isinstance(x, ast.stmt)}
                if isinstance(a, ast.Name) and (a.id in incs or a.id in deep):
                    TI, TN, strict = a.id, b, isinstance(c.ops[0], (ast.Lt, ast.Gt))

    # ---- the index resumes from the loaded time
    ok = bad = None
    if T is not None and TI is not None and T in incs:
        step = D.resolve(incs[T][0][1])
        init = [d for d in D.defs.get(TI, []) if d[0] is not None and _pos(d[1]) < _pos(lp)]
        tre = [d for d in D.defs.get(T, []) if d[1] not in setups and _pos(d[1]) < _pos(lp)]
        # VIOLATED (time overwritten) needs: a literal assigned to the time unconditionally, at the top level of the function, after
        # every set-up call - it then replaces the returned time on every path.  A literal assigned in one arm (a set-up that
        # returns no time and `t = 0` beside it) is that arm's own initial time
        certain = [d for d in tre if isinstance(d[0], ast.Constant) and any(d[1] is x for x in fn.body) and all(_pos(d[1]) > _pos(n_) for n_ in setups)]
        if tre and not certain:
            pass                    # recomputed from something, or assigned on some paths only: cannot decide
        elif tre:
            tre = certain
            bad = (f"the time returned by the set-up is overwritten before the loop (`{src(tre[0][1])[:60]}`): a restarted run does not "
                   "resume at the checkpoint's time")
        elif len(init) == 1:
            v = init[0][0]
            while isinstance(v, ast.Call) and _fname(v) in ("int", "round") and len(v.args) == 1:
                v = v.args[0]
            if isinstance(v, ast.Constant):
                # VIOLATED needs: the end of the loop is an absolute index (end time // step, not reading the loaded time): an index
                # that restarts at a literal is then compared with a bound counted from time 0.  A bound computed from the loaded
                # time (steps still to do) with a run-local index is another, consistent convention: cannot decide
                tn_, _ex = _end_index(D, TN, strict)
                absolute = isinstance(tn_, ast.BinOp) and isinstance(tn_.op, (ast.FloorDiv, ast.Div)) and src(D.resolve(tn_.right)) == src(step) \
                    and not any(isinstance(x, ast.Name) and x.id == T for x in ast.walk(tn_))
                if absolute:
                    bad = (f"the step index starts at the constant {v.value!r} instead of being derived from the loaded time: after a restart "
                           "the save steps and the end of the run are counted from 0 again")
            elif isinstance(v, ast.BinOp) and isinstance(v.op, (ast.FloorDiv, ast.Div)) and src(v.left) == T:
                div = D.resolve(v.right)
                if src(div) == src(step):
                    tn, _exact = _end_index(D, TN, strict)
                    if isinstance(tn, ast.BinOp) and isinstance(tn.op, (ast.FloorDiv, ast.Div)) and src(D.resolve(tn.right)) == src(step):
                        ok = True
                elif all(isinstance(x, (ast.Name, ast.Attribute, ast.Constant, ast.expr_context)) for e_ in (div, step) for x in ast.walk(e_)):
                    bad = (f"the step index is `{src(init[0][1])[:60]}` but the time advances by `{src(step)}` per step: index and time "
                           "disagree after a restart")
    label_is_time = ok is True          # the driver treats the value parsed from the checkpoint's name as the time (index = it // step)
    chk.pat("W3-restart-index", fn, "ti = t // dt from the loaded time", ok, "the time index resumes from the time returned by the set-up "
            "(0 for a new run, the checkpoint's time for a restart), in units of the step by which the time advances", bad, **KD)

    # ---- one step: time and index advance together, once, unconditionally
    ok = bad = None
    if lp is not None and T is not None and TI is not None:
        def stores(nm):
            return [n for n in ast.walk(lp) if isinstance(n, ast.Name) and n.id == nm and isinstance(n.ctx, ast.Store)]
        unclear = False

        def guard_sig(nm):
            """conditions under which the single increment of `nm` runs inside the loop body"""
            xs = [parent(x) for x in stores(nm) if isinstance(parent(x), ast.stmt) and (increment_of(parent(x)) or (None,))[0] == nm]
            return tuple((src(t_), p_) for t_, p_, k_ in guards_of(xs[0], stop=lp)) if len(xs) == 1 else None
        # how often the time and the index advance on each path through one iteration (early `continue`s and if-arms followed;
        # paths that leave the loop are not iterations of interest)
        def advance(st):
            inc = increment_of(st) if isinstance(st, (ast.Assign, ast.AugAssign)) else None
            return inc[0] if inc and inc[0] in (T, TI) else None

        def touches(node):
            return any(isinstance(x, ast.Name) and x.id in (T, TI) and isinstance(x.ctx, ast.Store) for x in ast.walk(node))

        def paths(stmts, states):
            """states: set of (advances of T, advances of TI) reaching the block -> (states falling through, states ending the
            iteration early); None when something cannot be followed"""
            done = set()
            for st in stmts:
                if not states:
                    break
                if isinstance(st, ast.Continue):
                    done |= states
                    states = set()
                elif isinstance(st, (ast.Break, ast.Return, ast.Raise)):
                    states = set()
                elif isinstance(st, ast.If):
                    a, b = paths(st.body, set(states)), paths(st.orelse, set(states))
                    if a is None or b is None:
                        return None
                    states = a[0] | b[0]
                    done |= a[1] | b[1]
                elif advance(st) is not None:
                    states = {(c1 + (advance(st) == T), c2 + (advance(st) == TI)) for c1, c2 in states}
                elif touches(st) or (isinstance(st, (ast.For, ast.While, ast.Try, ast.With)) and any(
                        isinstance(x, (ast.Continue, ast.Break, ast.Return)) for x in ast.walk(st)) and isinstance(st, (ast.Try, ast.With))):
                    return None         # assigned in another way, or a jump out of a block this rule does not follow
            return states, done
        got = paths(lp.body, {(0, 0)})
        if got is None or T == TI:
            unclear = True
        else:
            ends = got[0] | got[1]
            apart = sorted(e for e in ends if e[0] != e[1])
            if apart:
                bad = (f"on some path through one iteration the time `{T}` advances {apart[0][0]} time(s) and the step index `{TI}` "
                       f"{apart[0][1]} time(s): time and index no longer advance together once per step")
            elif ends != {(1, 1)}:
                unclear = True          # iterations without a step, or with several: consistent, but not the form this rule decides
        if not bad and not unclear:
            all_steps = [increment_of(x)[1] for x in ast.walk(lp) if isinstance(x, (ast.Assign, ast.AugAssign)) and increment_of(x)
                         and increment_of(x)[0] == TI]
            one = all_steps[0] if all_steps and all(src(x) == src(all_steps[0]) for x in all_steps) else ast.Name(id="<several>", ctx=ast.Load())
            tn, exact = _end_index(D, TN, strict)
            if not _is_const(one, 1):
                # relational: the index counts steps of the size the time advances by (`ti = t // step`, decided above) - then one
                # step must add 1.  Without that relation another unit of the index is a convention of its own: cannot decide
                if label_is_time:
                    bad = f"the step index advances by `{src(one)}` per step, not by 1, while it is `{T} // step` and `{T}` advances by one step"
            elif exact:
                ok = True               # `ti < N`, or `ti <= last` with last = N - 1: the same iterations
            elif isinstance(tn, ast.BinOp) and isinstance(tn.op, (ast.FloorDiv, ast.Div)):
                bad = (f"the loop runs while `{TI} <= {src(TN)}` with `{src(TN)}` = `{src(D.resolve(TN, depth=1))}`, the number of steps up to the end time: one "
                       "step more than the end time asks for, so N+M split steps differ from an unsplit run")
    chk.pat("W3-restart-index", lp if lp is not None else fn, "one step: t += dt, ti += 1", ok,
            "time and time index advance together, once per iteration, top-level in the loop body", bad, **KD)

    # ---- save steps: decided by evaluating the conditions for all small (interval, restart step, number of steps)
    ok = bad = None
    if lp is not None and TI is not None and TI in incs and not hidden:
        ok, bad = _save_steps(fn, D, lp, TI, incs, writes)
    chk.pat("W3-save-steps", fn, "save when ti % saveStep == saveStep-1; final save when ti % saveStep != 0", ok,
            "as congruences on the global step index: the regular save fires when the index of the completed step is a multiple of the "
            "interval, the final flush when the index reached is not (same index, same modulus): the last state is always on disk",
            bad, **KD)

    # ---- both grids are written with the same time at every save site
    ok = bad = None
    if G is not None and T is not None and not hidden and len(writes) >= 2:
        # a save site = the writes that happen under the same conditions at the same place of the run (inside the time loop /
        # outside it): two `if` statements with the same test form one site, provided nothing the test or the label depends
        # on is assigned between them
        sites = {}
        for c in writes:
            st = c
            while not isinstance(st, ast.stmt):
                st = parent(st)
            where = "loop" if lp is not None and any(x is c for x in ast.walk(lp)) else "before" if lp is not None and _pos(c) < _pos(lp) else "after"
            def cond_key(t_, p_):
                """a condition on the step index in a form that does not depend on how the residue is written:
                `ti % M == M - 1` and `(ti + 1) % M == 0` are the same condition"""
                r_ = D.resolve(t_, only=_arith)
                mc = _mod_condition(r_ if p_ else ast.UnaryOp(op=ast.Not(), operand=r_))
                if mc is not None and mc[3][1] is None:
                    return (f"{mc[0]} ≡ {mc[3][0] - mc[1]} (mod {mc[2]}) [{mc[4]}]", True)
                return (src(r_), p_)
            conds = tuple(cond_key(t_, p_) for t_, p_, k_ in guards_of(st) if k_ in ("if", "ifexp"))
            sites.setdefault((where, conds), []).append(c)
        good = 0
        unknown_label = False
        for (where, conds), blk in sites.items():
            holders = {id(parent(next(x for x in [c] + _ancestors(c) if isinstance(x, ast.stmt)))) for c in blk}
            if len(holders) > 1:
                lo, hi = min(_pos(c) for c in blk), max(_pos(c) for c in blk)
                between = {n.id for n in _own_walk(fn) if isinstance(n, ast.Name) and isinstance(n.ctx, ast.Store) and lo < _pos(n) < hi}
                watched = {T} | {x for t_ in conds for x in re.findall(r"[A-Za-z_][A-Za-z_0-9]*", t_[0])}
                if between & watched:
                    continue            # the state changes between the pieces of this site: cannot decide
            rows = []
            for c in blk:
                conv = _arg(c, 2, "nameConvention")
                if any(isinstance(a_, ast.Starred) for a_ in c.args) or any(k_.arg is None for k_ in c.keywords) \
                        or _arg(c, 0, "foldername") is None or _arg(c, 1, "time") is None:
                    rows.append((None, None, None, None))          # * / ** arguments: the roles of the arguments are not known
                    continue
                # receiver and label with aliases written out (`f = distribFunc`; `now = t`; int(t) / float(t) are the same label)
                recv = src(D.resolve(c.func.value, within=_enclosing_block(c)))
                label = _unwrap_num(src(D.resolve(_arg(c, 1, "time"), within=_enclosing_block(c), only=_arith)))
                rows.append((recv, src(_arg(c, 0, "foldername")), label,
                             "grid" if conv is None else conv.value if _is_const(conv, typ=str) else None))
            line = getattr(blk[0], "lineno", "?")
            names = [r_[3] for r_ in rows]
            if None in names:
                continue
            if sorted(names) == ["grid"] or sorted(names) == ["phi"]:
                other_ = "phi" if names[0] == "grid" else "grid"
                elsewhere = any(w2 == where and k2 != (where, conds) and any(
                    (lambda cv: (cv is None and other_ == "grid") or (cv is not None and _is_const(cv, other_)))(_arg(c2, 2, "nameConvention")) for c2 in b2)
                    for k2, b2 in sites.items() for w2 in [k2[0]])
                if elsewhere:
                    unknown_label = True            # the other grid is written at the same place of the run under a condition this
                    continue                        # rule cannot show to be the same one: cannot decide
                # VIOLATED ("writes only one") needs every way of writing the other grid at this site to be visible: no other call
                # in the statements of this site receives the same time label or folder (a helper that saves the other grid), and
                # no code introduced by a refactoring is called in the driver that the composition could not write back
                holder_blk = _enclosing_block(blk[0]) or []
                label_, folder_ = rows[0][2], rows[0][1]
                helper = any(isinstance(x, ast.Call) and not _is_write(x) and _fname(x) not in ("my_print", "print", "format", "str", "int", "float") and any(
                    src(a_) in (label_, folder_) for a_ in list(x.args) + [k_.value for k_ in x.keywords]) for st_ in holder_blk for x in ast.walk(st_))
                if helper or _calls_new_code(chk, fn, U.DRIVER):
                    unknown_label = True
                    continue
                bad = bad or (f"the save site at line {line} writes only '{names[0]}': distribution function and potential are no longer "
                              "checkpointed together")
            elif len(set(names)) < len(names):
                bad = bad or (f"the save site at line {line} writes two grids under the name '{names[0]}': the second overwrites the first")
            elif sorted(names) == ["grid", "phi"]:
                g = [r_ for r_ in rows if r_[3] == "grid"][0]
                p = [r_ for r_ in rows if r_[3] == "phi"][0]
                if g[0] != G:
                    # VIOLATED needs to know what the other object is: it is the one written as 'phi' (the two are swapped / the
                    # potential is written twice).  Some other object (a copy, a view in another layout) is not followed
                    if g[0] == p[0] or p[0] == G:
                        bad = bad or f"the file 'grid' at line {line} is written from `{g[0]}`, not from the distribution function `{G}`"
                    else:
                        unknown_label = True
                elif g[2] != p[2] or g[1] != p[1]:
                    bad = bad or f"the two grids at line {line} are written with different folder/time (`{g[1]}, {g[2]}` / `{p[1]}, {p[2]}`)"
                elif g[2] != T:
                    # VIOLATED (label) needs: the label is an expression that does not read the time at all (the step index, a
                    # counter) while the restart takes the label for the time.  An expression of the time itself (rounded,
                    # rescaled) is not compared here
                    reads_time = re.search(r"\b" + re.escape(T) + r"\b", g[2]) is not None
                    if label_is_time and not reads_time:
                        bad = bad or (f"the checkpoints at line {line} are labelled with `{g[2]}`, not with the current time `{T}`: the restart "
                                      f"parses the label and the driver resumes with it as the time (`{TI}` = `{T}` // step)")
                    else:
                        unknown_label = True
                else:
                    good += 1
        in_loop = any(any(x is c for x in ast.walk(lp)) for c in writes) if lp is not None else False
        after = any(_pos(c) > _pos(lp) and not any(x is c for x in ast.walk(lp)) for c in writes) if lp is not None else False
        if not bad and good == len(sites) and in_loop and after:
            ok = True
    chk.pat("W3-save-steps", fn, "every save writes grid_<t> and phi_<t> with the same t", ok,
            "the distribution function and the potential are checkpointed together with the current time", bad, **KD)


def _linear(e):
    """v | v + c | c + v | v - c  -> (v, c)"""
    if isinstance(e, ast.Name):
        return e.id, 0
    if isinstance(e, ast.BinOp) and isinstance(e.op, (ast.Add, ast.Sub)):
        if isinstance(e.left, ast.Name) and _is_const(e.right, typ=int):
            return e.left.id, e.right.value if isinstance(e.op, ast.Add) else -e.right.value
        if isinstance(e.op, ast.Add) and isinstance(e.right, ast.Name) and _is_const(e.left, typ=int):
            return e.right.id, e.left.value
    return None


def _mod_condition(test):
    """`(v + off) % M == R` / `!= R` / `> 0` / truth value, R = c or M - c
    -> (v, off, M, a, sense): the test is true  iff  v + off  ≡ a  (mod M)  [sense 'eq'] or not so [sense 'ne'];
    `a` is (c, in_range) where in_range tells for which M the written residue can occur at all (None = every M >= 1, else text)"""
    sense = "eq"
    while isinstance(test, ast.UnaryOp) and isinstance(test.op, ast.Not):
        test, sense = test.operand, ("ne" if sense == "eq" else "eq")
    lhs = rhs = None
    if isinstance(test, ast.BinOp) and isinstance(test.op, ast.Mod):
        lhs, rhs, sense = test, ast.Constant(value=0), ("ne" if sense == "eq" else "eq")
    elif isinstance(test, ast.Compare) and len(test.ops) == 1:
        a, b, op = test.left, test.comparators[0], test.ops[0]
        if not (isinstance(a, ast.BinOp) and isinstance(a.op, ast.Mod)) and isinstance(b, ast.BinOp) and isinstance(b.op, ast.Mod) \
                and isinstance(op, (ast.Eq, ast.NotEq)):
            a, b = b, a
        if isinstance(a, ast.BinOp) and isinstance(a.op, ast.Mod):
            if isinstance(op, ast.Eq):
                lhs, rhs = a, b
            elif isinstance(op, ast.NotEq) or (isinstance(op, ast.Gt) and _is_const(b, 0)):
                lhs, rhs, sense = a, (b if isinstance(op, ast.NotEq) else ast.Constant(value=0)), ("ne" if sense == "eq" else "eq")
    if lhs is None or not isinstance(lhs.right, ast.Name):
        return None
    lin = _linear(lhs.left)
    if lin is None:
        return None
    M = lhs.right.id
    if _is_const(rhs, typ=int) and not isinstance(rhs.value, bool):
        c = rhs.value
        rng = None if c == 0 else f"{M} > {c}" if c > 0 else "no value"
        return lin[0], lin[1], M, (c, rng), sense
    if isinstance(rhs, ast.Name) and rhs.id == M:
        return lin[0], lin[1], M, (0, "no value"), sense           # x % M == M never holds
    if isinstance(rhs, ast.BinOp) and isinstance(rhs.op, ast.Sub) and isinstance(rhs.left, ast.Name) and rhs.left.id == M \
            and _is_const(rhs.right, typ=int):
        c = rhs.right.value
        rng = None if c == 1 else (f"{M} >= {c}" if c > 1 else "no value")
        return lin[0], lin[1], M, (-c, rng), sense
    return None


def _residue_counters(fn, D, lp, TI, incs):
    """locals that carry the residue of the step index by a loop invariant instead of recomputing `TI % M`:
         c = TI % M  (once, before the loop);  c += 1 (once per iteration, top level);  if c == M: ...; c = 0  (top level, later)
    -> {c: (M, k_inc, k_reset, k_index_inc)} (top-level positions in the loop body).  Invariant (M >= 1, as `TI % M` itself needs):
    at the loop head, after the reset and after the loop  c == (TI [+1 / -1 when only one of the two was incremented yet]) % M;
    between its increment and its reset  1 <= c <= M and  c == M  iff  that residue is 0.
    # ASSUMPTION (checked below): every store of c, TI and M in the function is one of the statements named above; both
    # increments add the literal 1 unconditionally; nothing leaves the iteration between the first of these statements and the
    # last (break / continue / return), so the two counters advance together and the reset is never skipped."""
    out = {}
    if TI not in incs or len(incs[TI]) != 1 or not _is_const(incs[TI][0][1], 1):
        return out
    stores = {}
    for n in ast.walk(fn):
        if isinstance(n, ast.Name) and isinstance(n.ctx, (ast.Store, ast.Del)):
            stores.setdefault(n.id, []).append(n)
        elif isinstance(n, (ast.Global, ast.Nonlocal)):
            for nm in n.names:
                stores.setdefault(nm, []).append(n)
    in_lp = {id(x) for x in ast.walk(lp)}
    if sum(1 for n in stores.get(TI, []) if id(n) in in_lp) != 1:
        return out
    k_ti = incs[TI][0][0]
    jumps = (ast.Break, ast.Continue, ast.Return)
    for nm, lst in incs.items():
        if nm == TI or len(lst) != 1 or not _is_const(lst[0][1], 1):
            continue
        ds = D.defs.get(nm, [])
        if len(ds) != 3 or len(stores.get(nm, [])) != 3 or nm in D.params:
            continue
        init = [d for d in ds if _pos(d[1]) < _pos(lp) and any(d[1] is x for x in fn.body)]
        if len(init) != 1:
            continue
        v = init[0][0]
        if not (isinstance(v, ast.BinOp) and isinstance(v.op, ast.Mod) and isinstance(v.left, ast.Name) and v.left.id == TI
                and isinstance(v.right, ast.Name)):
            continue
        M = v.right.id
        if M in (nm, TI) or M in D.params or any(_pos(n) > _pos(init[0][1]) for n in stores.get(M, [])):
            continue                # the modulus may change after the counter was started
        if any(_pos(init[0][1]) < _pos(n) < _pos(lp) for n in stores.get(TI, [])):
            continue                # the index is assigned between the start of the counter and the loop
        k_c = lst[0][0]
        reset = None
        for k, st in enumerate(lp.body):
            if k > k_c and isinstance(st, ast.If):
                zs = [x for x in st.body if isinstance(x, ast.Assign) and len(x.targets) == 1 and isinstance(x.targets[0], ast.Name)
                      and x.targets[0].id == nm and _is_const(x.value, 0) and not isinstance(x.value.value, bool)]
                if len(zs) == 1:
                    reset = (k, st)
        if reset is None or not any(reset[1] is x for x in lp.body):
            continue
        k_r, rif = reset
        t = rif.test
        full = isinstance(t, ast.Compare) and len(t.ops) == 1 and (
            (isinstance(t.ops[0], (ast.Eq, ast.GtE)) and src(t.left) == nm and src(t.comparators[0]) == M)
            or (isinstance(t.ops[0], (ast.Eq, ast.LtE)) and src(t.left) == M and src(t.comparators[0]) == nm))
        if not full:
            continue
        lo, hi = min(k_c, k_ti), max(k_c, k_ti, k_r)
        if any(isinstance(x, jumps) for st in lp.body[lo:hi + 1] for x in ast.walk(st)):
            continue
        out[nm] = (M, k_c, k_r, k_ti)
    return out


class _ResidueCounter(ast.NodeTransformer):
    """a test that reads a residue counter (see _residue_counters), rewritten on the step index; `at` = top-level position in the
    loop body of the statement that evaluates the test (None: after the loop)"""
    def __init__(self, residues, TI, at):
        self.res, self.TI, self.at = residues, TI, at

    def _residue(self, nm, like):
        M, k_c, k_r, k_ti = self.res[nm]
        d = 0
        if self.at is not None:
            d = int(k_c < self.at) - int(k_ti < self.at)
        left = ast.Name(id=self.TI, ctx=ast.Load())
        if d:
            left = ast.BinOp(left=left, op=ast.Add() if d > 0 else ast.Sub(), right=ast.Constant(value=1))
        new = ast.BinOp(left=left, op=ast.Mod(), right=ast.Name(id=M, ctx=ast.Load()))
        for x in ast.walk(new):
            ast.copy_location(x, like)
        return new

    def _exact(self, nm):
        M, k_c, k_r, k_ti = self.res[nm]
        return self.at is None or self.at <= k_c or self.at > k_r

    def visit_Compare(self, node):
        if len(node.ops) == 1:
            a, b, op = node.left, node.comparators[0], node.ops[0]
            for x, y, ops in ((a, b, (ast.Eq, ast.GtE)), (b, a, (ast.Eq, ast.LtE))):
                if isinstance(x, ast.Name) and x.id in self.res and not self._exact(x.id) and isinstance(op, ops) \
                        and isinstance(y, ast.Name) and y.id == self.res[x.id][0]:
                    # between increment and reset: the counter is full exactly when the residue is 0
                    return ast.copy_location(ast.Compare(left=self._residue(x.id, node), ops=[ast.Eq()],
                                                         comparators=[ast.copy_location(ast.Constant(value=0), node)]), node)
        return self.generic_visit(node)

    def visit_Name(self, node):
        if isinstance(node.ctx, ast.Load) and node.id in self.res and self._exact(node.id):
            return self._residue(node.id, node)
        return node


def _save_steps(fn, D, lp, TI, incs, writes):
    """the two save conditions as congruences on the global step index -> (ok, bad)"""
    # a local is written out only when its value is still the same where the test is evaluated: not when it mentions something
    # the loop assigns (e.g. `k0 = ti` before the loop is a snapshot of the index, not the index)
    loop_stored = {n.id for n in ast.walk(lp) if isinstance(n, ast.Name) and isinstance(n.ctx, ast.Store)}
    all_stores = [(n.id, _pos(n)) for n in _own_walk(fn) if isinstance(n, ast.Name) and isinstance(n.ctx, ast.Store)]

    def stable_at(use):
        def stable(v):
            if not _arith(v):
                return False
            names = {x.id for x in ast.walk(v) if isinstance(x, ast.Name)}
            d, u = _pos(v), _pos(use)
            if any(nm in names and d < p_ < u for nm, p_ in all_stores):
                return False            # assigned between the definition and the test
            if d < _pos(lp) < u and names & loop_stored:
                return False            # defined before the loop from something the loop changes
            return True
        return stable
    snapshots = {}          # local -> TI, for `local = TI` assigned once, before the loop
    for nm, ds in D.defs.items():
        if len(ds) == 1 and isinstance(ds[0][0], ast.Name) and ds[0][0].id == TI and _pos(ds[0][1]) < _pos(lp) and nm not in loop_stored \
                and not any(ds[0][1] is x for x in ast.walk(lp)):
            snapshots[nm] = TI
    run_local = {}          # synthetic name -> text, for `TI - snapshot`

    class Since(ast.NodeTransformer):
        def visit_BinOp(self, node):
            self.generic_visit(node)
            if isinstance(node.op, ast.Sub) and isinstance(node.left, ast.Name) and node.left.id == TI and isinstance(node.right, ast.Name) \
                    and node.right.id in snapshots:
                nm = f"steps_since_{node.right.id}"
                run_local[nm] = src(node)
                return ast.copy_location(ast.Name(id=nm, ctx=ast.Load()), node)
            return node

    residues = _residue_counters(fn, D, lp, TI, incs)

    def top_index(c):
        st = c
        while parent(st) is not lp:
            st = parent(st)
        return lp.body.index(st)

    def site_test(c, stop):
        gs = guards_of(c, stop=stop)
        if len(gs) != 1 or gs[0][2] != "if":
            return None
        t = Since().visit(D.resolve(gs[0][0], only=stable_at(gs[0][0])))
        if residues:
            t = _ResidueCounter(residues, TI, top_index(c) if stop is lp else None).visit(t)
        if not gs[0][1]:
            t = ast.UnaryOp(op=ast.Not(), operand=t)
        return t
    in_loop = [c for c in writes if any(x is c for x in ast.walk(lp))]
    after = [c for c in writes if _pos(c) > _pos(lp) and not any(c is x for x in in_loop)]
    if not in_loop or not after:
        return None, None
    # every in-loop write must be on the same side of the index increment (and of nothing else that the test reads)
    sides = {incs[TI][0][0] > top_index(c) for c in in_loop} if TI in incs else set()
    if len(sides) != 1:
        return None, None
    k_save = min(top_index(c) for c in in_loop)
    lt, ft = site_test(in_loop[0], lp), site_test(after[0], fn)
    def same_test(t1, t2):
        """the same condition, also when the residue is written differently (`ti % M == M - 1` / `(ti + 1) % M == 0`)"""
        if t1 is None or t2 is None:
            return False
        if src(t1) == src(t2):
            return True
        m1, m2 = _mod_condition(t1), _mod_condition(t2)
        return m1 is not None and m2 is not None and m1[3][1] is None and m2[3][1] is None \
            and (m1[0], m1[2], m1[3][0] - m1[1], m1[4]) == (m2[0], m2[2], m2[3][0] - m2[1], m2[4])
    if lt is None or ft is None or any(not same_test(site_test(c, lp), lt) for c in in_loop) \
            or any(not same_test(site_test(c, fn), ft) for c in after):
        return None, None
    lc, fc = _mod_condition(lt), _mod_condition(ft)
    if lc is None or fc is None:
        return None, None
    # run-local counters: 0 before the loop, +1 per iteration
    local = set()
    for nm, lst in incs.items():
        init = [d for d in D.defs.get(nm, []) if _pos(d[1]) < _pos(lp)]
        if nm != TI and len(lst) == 1 and _is_const(lst[0][1], 1) and len(init) == 1 and _is_const(init[0][0], 0):
            local.add(nm)
    if lc[0] == fc[0] and lc[0] != TI:
        return None, None            # both sites count in the same other variable: another convention, not compared here
    for (v, off, M, (a, rng), sense), where, text in ((lc, "regular (in-loop) save", src(lt)), (fc, "final flush after the loop", src(ft))):
        if v in run_local:
            return None, (f"the {where} is decided by `{text}` with {v} = `{run_local[v]}`, the index counted from the step at which THIS "
                          f"invocation started (`{run_local[v].split(' - ')[-1]}` is `{TI}` before the loop), while the other checkpoints are "
                          f"aligned on the global step index `{TI}`. In a restarted run the two differ by the step of the restart k0: whenever "
                          f"k0 is not a multiple of {M} they disagree, e.g. restart at step 1 with {M} = 2 and 2 more steps: the run stops at "
                          f"step 3 with {v} % {M} == 0, and the checkpoints on disk are not those of an unsplit run of 3 steps")
        if v in local:
            return None, (f"the {where} is decided by `{text}`, i.e. by `{v}`, the number of steps of THIS invocation, while the checkpoints "
                          f"are aligned on the global step index `{TI}`. In a restarted run {v} = {TI} - k0 (k0 = step of the restart): "
                          f"whenever k0 is not a multiple of {M} the two disagree, e.g. restart at step 1 with {M} = 2 and 2 more steps: the "
                          f"run stops at step 3, {v} % {M} == 0 so nothing is flushed, and the newest checkpoint on disk is that of step 2 "
                          "(an unsplit run of 3 steps ends with a checkpoint of step 3)")
        if v != TI:
            return None, None
    if lc[2] != fc[2]:
        return None, None
    M = lc[2]
    # in-loop: index after the step w = TI + shift; the test says TI + off ≡ a, i.e. w ≡ a - off + shift
    shift = 1 if incs[TI][0][0] > k_save else 0
    v, off, _, (a, rng), sense = lc
    t = a - off + shift
    if sense != "eq":
        return None, (f"the regular save is skipped exactly on the steps selected by `{src(lt)}`")
    if rng is not None:
        return None, (f"the regular save condition `{src(lt)}` " + ("can never hold (a remainder is smaller than the modulus):" if rng == "no value"
                      else f"can only hold for {rng}: for the other save intervals (e.g. {M} = 1)") + " no regular checkpoint is ever written")
    if t != 0:
        fa, foff, fsense = fc[3][0], fc[1], fc[4]
        if fsense == "ne" and fc[3][1] is None and fa - foff == t:
            return None, None        # regular save and final flush agree on another residue: a consistent other convention
        return None, (f"the regular save `{src(lt)}` fires when the index of the completed step is ≡ {t} (mod {M}), not at the multiples "
                      f"of {M}, while the final flush is decided by `{src(ft)}`: e.g. with {M} = {abs(t) + 1} the checkpoints are not those "
                      "of an unsplit run and do not match the final-flush test")
    v, off, _, (a, rng), sense = fc
    t = a - off
    if t == 0 and rng is None and sense == "ne":
        return True, None
    if t == 0 and rng is None and sense == "eq":
        return None, (f"the final flush `{src(ft)}` writes exactly when the last step was a save step and skips it otherwise: the state of "
                      "the last steps is lost")
    return None, (f"the final flush `{src(ft)}` is not `{TI} % {M} != 0`: it tests the residue {t} (mod {M}), so a run that stops between "
                  "two regular saves may not write its final state (or writes it twice)")


def run(chk):
    chk.explanation = (
        "All rules are decided from the syntax tree; nothing of the repository is run. Writer/reader agreement of the checkpoint "
        "format on expressions with local definitions written out (dataset path, Layout attribute compared between writer and loader, "
        "hyperslab by the layout's starts/ends on write and on both read paths, layout guard, stored-layout look-up, setLayout to the "
        "requested layout; accessor methods such as getAllData() are written back to the attribute they return); the file-name "
        "protocol on templates of the name expressions (same family for writer, loader and restart, zero padding, glob pattern, "
        "selection of the largest name, requested time honoured including 0) and the time parsed back from the chosen name, decided "
        "by applying the split / partition / basename / splitext operations to an abstract string <folder>/<name>_<digits><suffix>; "
        "the constants round trip (setters' write sets commute; the printer's attribute source - dir(self) with its filters, also as "
        "early `continue`s, or the keys of a module- or class-level table, which must cover every settable public attribute; JSON "
        "shape of an entry and of the frame; defaults after the file; deferral of unset operands and the return of the deferred "
        "entries to the work-list); the driver's zero divisors (flow analysis refined by tests), restart index, loop bound, and the "
        "save conditions as congruences on the global step index (run-local counters and `ti - <index at start>` are recognised as "
        "counts of this invocation). Writer and loader are found by role (the method an instance of Grid has under that name, in "
        "the class or in a base / mixin of the repository); lazily cached properties whose inputs are written only by __init__ "
        "are read as the expression they cache. Divisors of the driver may be a counter, a counter plus a literal, or the "
        "difference to a snapshot of an incremented index. Bit-exact HDF5 round trip and equality of split and unsplit runs are history-level/numerical "
        "and are not decided. Collective matching of the parallel-HDF5 calls and setupSave is decided by C06.")
    chk.in_file(U.GRID)
    props = {m.name for m in chk.mod(U.LAYOUT).cls("Layout").body if isinstance(m, ast.FunctionDef)
             and any(src(d) == "property" for d in m.decorator_list)}
    if not {"starts", "ends", "fullShape", "dims_order", "shape"} <= props:
        raise AnalysisError("C18: Layout no longer has the properties starts/ends/fullShape/dims_order/shape the W1 rules are written against")
    LAYOUT_PROPS.clear()
    LAYOUT_PROPS.update(props)
    hdf5_agreement(chk)
    file_names(chk)
    constants_round_trip(chk)
    main = _work(chk.func(U.DRIVER, "main"), chk, U.DRIVER)
    zero_divisors(chk, main)
    restart_bookkeeping(chk, main)
    chk.floor("W1-", 5)
    chk.floor("W2-", 5)
    chk.floor("G3-", 6)
    chk.floor("G4-zero-divisor", 1)
    chk.floor("W3-", 3)
