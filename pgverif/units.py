"""The units every run parses (DESIGN 2.1)."""

LAYOUT = "pygyro/model/layout.py"
GRID = "pygyro/model/grid.py"
PROCGRID = "pygyro/model/process_grid.py"
ADV = "pygyro/advection/advection.py"
ADVK = "pygyro/advection/accelerated_advection_steps.py"
POISSON = "pygyro/poisson/poisson_solver.py"
PTOOLS = "pygyro/poisson/poisson_tools.py"
NORMS = "pygyro/diagnostics/norms.py"
ENERGY = "pygyro/diagnostics/energy.py"
DIAG = "pygyro/diagnostics/diagnostic_collector.py"
SETUPS = "pygyro/initialisation/setups.py"
INITIALISER = "pygyro/initialisation/initialiser.py"
CONSTANTS = "pygyro/initialisation/constants.py"
DEFAULTS = "pygyro/initialisation/default_constants.py"
INITF = "pygyro/initialisation/initialiser_funcs.py"
SAVING = "pygyro/utilities/savingTools.py"
DRIVER = "fullSimulation.py"
SPLINES = "pygyro/splines/splines.py"
INTERP = "pygyro/splines/spline_interpolators.py"
NU = "pygyro/splines/spline_eval_funcs.py"
CU = "pygyro/splines/cubic_uniform_spline_eval_funcs.py"

KERNELS = [NU, CU, INITF, ADVK, PTOOLS]

VARIANTS = {
    NU: ["pygyro/splines/numba_spline_eval_funcs.py", "pygyro/splines/pythran_spline_eval_funcs.py",
         "pygyro/advection/pythran_deps/pythran_spline_eval_funcs.py"],
    CU: ["pygyro/splines/numba_cubic_uniform_spline_eval_funcs.py",
         "pygyro/splines/pythran_cubic_uniform_spline_eval_funcs.py",
         "pygyro/advection/pythran_deps/pythran_cubic_uniform_spline_eval_funcs.py"],
    INITF: ["pygyro/initialisation/numba_initialiser_funcs.py", "pygyro/initialisation/pythran_initialiser_funcs.py",
            "pygyro/advection/pythran_deps/pythran_initialiser_funcs.py"],
    ADVK: ["pygyro/advection/numba_accelerated_advection_steps.py",
           "pygyro/advection/pythran_deps/pythran_accelerated_advection_steps.py"],
    PTOOLS: ["pygyro/poisson/numba_poisson_tools.py", "pygyro/poisson/pythran_poisson_tools.py"],
}

ALL_UNITS = [LAYOUT, GRID, PROCGRID, ADV, ADVK, POISSON, PTOOLS, NORMS, ENERGY, DIAG, SETUPS, INITIALISER,
             CONSTANTS, DEFAULTS, INITF, SAVING, DRIVER, SPLINES, INTERP, NU, CU] + \
    [v for vs in VARIANTS.values() for v in vs]
