"""C18 - checkpoints round-trip and a restarted run continues the original one."""
from __future__ import annotations

import ast
import re

from ..core import src, AnalysisError, parent, guards_of, same_expr, contains
from .. import units as U


def hdf5_agreement(chk):
    w = chk.func(U.GRID, "Grid.writeH5Dataset")
    r = chk.func(U.GRID, "Grid.loadFromFile")
    s = chk.func(U.SETUPS, "setupFromFile")
    tw, tr, ts = (src(f).replace(" ", "").replace("\n", ";") for f in (w, r, s))
    # dataset name, layout attribute
    okd = 'file.create_dataset("dset"' in tw.replace("'", '"') and "file['/dset']" in tr and "file['/dset']" in ts
    chk.ob("W1-dataset-name", w, "dataset 'dset'", okd, "writer and both readers use the same dataset path" if okd else
           "dataset name differs between writer and readers", file=U.GRID, func="Grid.writeH5Dataset")
    oka = 'dset.attrs.create("Layout",attr_data' in tw.replace("'", '"') and "attr_data=np.array(self._layout.dims_order)" in tw and \
        "dataset.attrs['Layout']" in tr and "dataset.attrs['Layout']" in ts
    chk.ob("W1-layout-attribute", w, "attribute 'Layout' = dims_order", oka, "the recorded layout is the current dims_order and both "
           "readers read the same attribute" if oka else "layout attribute differs between writer and readers", file=U.GRID,
           func="Grid.writeH5Dataset")
    # hyperslab = zip(starts, ends) of the layout the data is in
    hs = "slices=tuple([slice(s,e)fors,einzip(self._layout.starts,self._layout.ends)])"
    okh = hs in tw and hs in tr and "dset[slices]=self._f[:]" in tw and "self._f[:]=dataset[slices]" in tr and \
        "file.create_dataset(\"dset\",self._layout.fullShape,dtype=self._f.dtype)" in tw.replace("'", '"')
    chk.ob("W1-hyperslab", w, "dset[starts:ends] <-> _f", okh,
           "the file holds the global array in the recorded layout's order; each process writes/reads exactly its [start,end) block"
           if okh else "hyperslab selection differs between writing and loading", file=U.GRID, func="Grid.writeH5Dataset")
    hs2 = "slices=tuple([slice(s,e)fors,einzip(layout.starts,layout.ends)])"
    okh2 = hs2 in ts and "layout=grid.getLayout(my_layout)" in ts and "grid._f[:]=dataset[slices]" in ts and \
        "grid=Grid(eta_grids,bsplines,remapper,my_layout,comm,dtype=dtype,allocateSaveMemory=allocateSaveMemory)" in ts
    chk.ob("W1-hyperslab", s, "setupFromFile: grid built in the stored layout, block read by that layout's starts/ends", okh2,
           "the restart grid is created in the layout found in the file and filled with this process's block of it (any process count)"
           if okh2 else "restart read no longer uses the stored layout's block", file=U.SETUPS, func="setupFromFile")
    # layout guard
    okg = "assert(order==self._layout.dims_order).all()" in tr
    chk.ob("W1-layout-guard", r, "assert (order == self._layout.dims_order).all()", okg,
           "loading into a grid whose layout differs from the stored one is refused" if okg else "loadFromFile no longer checks the stored layout",
           file=U.GRID, func="Grid.loadFromFile")
    okl = contains(s, """
for name, dims_order in layouts.items():
    if (dims_order == order).all():
        my_layout = name
""") and any(isinstance(n, ast.If) and contains(n.test, "my_layout is None") and any(isinstance(x, ast.Raise) for x in n.body)
             for n in ast.walk(s))
    chk.ob("W1-layout-guard", s, "setupFromFile: stored order -> standard layout name, else refuse", okl,
           "the stored ordering selects the standard layout of that ordering; an unknown ordering is refused" if okl else
           "stored-layout lookup changed", file=U.SETUPS, func="setupFromFile")
    # requested layout is reached by a layout change of the loaded grid
    okq = contains(s, """
desired_layout = kwargs.pop('layout')
if desired_layout != my_layout:
    grid.setLayout(desired_layout)
""")
    chk.ob("W1-layout-guard", s, "setupFromFile: change to the requested layout after loading", okq,
           "the grid is brought to the requested start layout by setLayout, never by reinterpreting the data" if okq else
           "requested layout is not reached by setLayout", file=U.SETUPS, func="setupFromFile")


def file_names(chk):
    w = chk.func(U.GRID, "Grid.writeH5Dataset")
    r = chk.func(U.GRID, "Grid.loadFromFile")
    s = chk.func(U.SETUPS, "setupFromFile")
    fmt = [n.value for n in ast.walk(w) if isinstance(n, ast.Constant) and isinstance(n.value, str) and ".h5" in n.value]
    okw = fmt == ["{0}/{1}_{2:06}.h5"]
    rf = [n.value for n in ast.walk(r) if isinstance(n, ast.Constant) and isinstance(n.value, str) and ("_*" in n.value or ".h5" in n.value)]
    okr = sorted(rf) == sorted(["{0}/{1}_*", "{0}/{1}_{2:06}.h5"])
    sf = [n.value for n in ast.walk(s) if isinstance(n, ast.Constant) and isinstance(n.value, str) and ("grid_" in n.value)]
    oks = sorted(sf) == sorted(["grid_{:06}.h5", "{0}/grid_*"])
    chk.ob("W2-file-name-family", w, "<folder>/<name>_<t:06>.h5 / glob <name>_* / grid_<t:06>.h5", okw and okr and oks,
           "writer format, explicit-time reader format and glob pattern describe one family with a fixed-width (6) time field, and the "
           "restart uses the default name convention 'grid'" if okw and okr and oks else f"formats: write={fmt} load={rf} restart={sf}",
           file=U.GRID, func="Grid.writeH5Dataset")
    # default name convention
    d1 = {a.arg: src(d) for a, d in zip(w.args.args[-len(w.args.defaults):], w.args.defaults)}
    d2 = {a.arg: src(d) for a, d in zip(r.args.args[-len(r.args.defaults):], r.args.defaults)}
    okn = d1.get("nameConvention") == d2.get("nameConvention") == "'grid'"
    chk.ob("W2-file-name-family", r, "nameConvention default", okn, "writer and loader share the default prefix 'grid' that the restart globs for"
           if okn else f"defaults differ: {d1} / {d2}", file=U.GRID, func="Grid.loadFromFile")
    # latest file = max over names: order-isomorphic to numeric order because the width is fixed
    tr, ts = (src(f).replace(" ", "").replace("\n", ";") for f in (r, s))
    okm = "filename=max(list_of_files)" in tr and "filename=max(list_of_files)" in ts
    okp = "t=int(filename.split('_')[-1].split('.')[0])" in ts
    chk.ob("W2-latest-selection", s, "max(list_of_files); t = int(name after last '_' before '.')", okm and okp,
           "lexicographic maximum of fixed-width names is the numerically latest checkpoint; the time is parsed from the same field "
           "the writer formats" if okm and okp else f"latest selection ok={okm}, time parser ok={okp}", file=U.SETUPS, func="setupFromFile")
    # 'latest' is chosen only when no time was requested: a noneness test, not truthiness (time 0 is a valid checkpoint)
    ifs = [n for n in r.body if isinstance(n, ast.If)]
    okt = False
    detail = "no branch on the requested time"
    for n in ifs:
        if "glob" in src(n):
            t = n.test
            okt = isinstance(t, ast.Compare) and len(t.ops) == 1 and isinstance(t.ops[0], ast.Is) and src(t.left) == "time" and \
                isinstance(t.comparators[0], ast.Constant) and t.comparators[0].value is None and "glob" in "".join(src(x) for x in n.body)
            detail = f"the latest-file branch is selected by `{src(t)}`"
    chk.ob("W2-explicit-time", ifs[0] if ifs else r, "if time is None: latest else: requested", okt,
           "the latest checkpoint is used exactly when no time is given; any given time, including 0, selects that checkpoint" if okt else
           detail + ": an explicit time 0 would silently load the latest checkpoint", file=U.GRID, func="Grid.loadFromFile")
    oke = contains(s, """
if 'timepoint' in kwargs:
    t = kwargs.pop('timepoint')
    filename = os.path.join(foldername, 'grid_{:06}.h5'.format(t))
""")
    chk.ob("W2-explicit-time", s, "setupFromFile: timepoint given -> that file", oke, "a requested restart time selects exactly that file "
           "(membership test, so time 0 works)" if oke else "requested-time branch of the restart changed", file=U.SETUPS, func="setupFromFile")


def constants_round_trip(chk):
    mod = chk.mod(U.CONSTANTS)
    cls = mod.cls("Constants")
    gc = chk.func(U.CONSTANTS, "get_constants")
    # write sets of the setters
    writes = {}
    for st in cls.body:
        if isinstance(st, ast.FunctionDef) and any(src(d).endswith(".setter") for d in st.decorator_list):
            ws = set()
            for n in ast.walk(st):
                if isinstance(n, ast.Attribute) and isinstance(n.value, ast.Name) and n.value.id == "self" and isinstance(n.ctx, ast.Store):
                    ws.add(n.attr)
            writes[st.name] = ws
    plain = set()
    for st in cls.body:
        if isinstance(st, ast.Assign):
            for t in st.targets:
                if isinstance(t, ast.Name) and not t.id.startswith("_"):
                    plain.add(t.id)
    keys = plain | set(writes)
    n = 0
    for k, ws in sorted(writes.items()):
        own = {"_" + k}
        foreign = {a for a in ws - own if a in keys}
        n += 1
        chk.ob("G3-setters-commute", mod.func(f"Constants.{k}.setter"), f"Constants.{k}.setter writes {sorted(ws)}", not foreign,
               f"setting `{k}` only writes its own storage: the result of reading a parameter file does not depend on key order"
               if not foreign else f"setting `{k}` also overwrites the independent key(s) {sorted(foreign)}: a file that gives `{sorted(foreign)[0]}` "
               f"explicitly reads back differently depending on whether `{k}` comes before or after it (get_constants pops keys in "
               "reverse order; setupCylindricalGrid re-sets every attribute in dir() order)", file=U.CONSTANTS, func=f"Constants.{k}.setter")
    if n < 4:
        raise AnalysisError(f"C18: only {n} property setters found in Constants (4 confirmed by reading)")
    # printer prints every public non-callable attribute as "key":value
    st_ = chk.func(U.CONSTANTS, "Constants.__str__")
    t = src(st_).replace(" ", "").replace("\n", ";")
    okp = "forobjindir(self):" in t and "ifnotcallable(val)andobj[0]!='_':" in t and "s+='\"'+obj+'\":'+'{}'.format(val)+',\\n'" in t
    chk.ob("G3-printer", st_, "__str__: every public non-callable attribute", okp,
           "the saved parameter file lists every public data attribute (properties included) as \"key\":value" if okp else
           "the parameter printer changed", file=U.CONSTANTS, func="Constants.__str__")
    # parser: defaults are applied only after all keys of the file have been read (dependency order = file values first)
    body = gc.body
    idx_loop = [k for k, s_ in enumerate(body) if isinstance(s_, ast.While)]
    idx_def = [k for k, s_ in enumerate(body) if "set_defaults" in src(s_)]
    ctor = [s_ for s_ in body if isinstance(s_, ast.Assign) and src(s_.targets[0]) == "constants"]
    okc = bool(ctor) and src(ctor[0].value).replace(" ", "") in ("Constants(False)", "Constants(setup=False)")
    oko = len(idx_loop) == 1 and len(idx_def) == 1 and idx_def[0] > idx_loop[0] and okc
    chk.ob("G3-defaults-after-file", gc, "set_defaults() after the parse loop", oko,
           "expressions in the file are evaluated against values given in the file (a key that is not yet read defers the "
           "expression); defaults only fill what the file leaves unset" if oko else
           "defaults are installed before the file is read: an expression that refers to a key given later in the file is evaluated "
           "with the default instead (result depends on key order)", file=U.CONSTANTS, func="get_constants")
    tg = src(gc).replace(" ", "").replace("\n", ";")
    okl = contains(gc, "res = eval_expr(item[1], constants)\nif res is None:\n    pass".replace("\n    pass", "")) if False else (
        contains(gc, "res = eval_expr(item[1], constants)") and contains(gc, "unmatched[item[0]] = item[1]") and
        contains(gc, "data, unmatched = unmatched, data") and contains(gc, "assert len(data) < n") and
        any(isinstance(n, ast.If) and contains(n.test, "res is None") for n in ast.walk(gc)))
    chk.ob("G3-dependency-order", gc, "unresolved expressions are retried until all keys are read", okl,
           "an expression whose operands are not yet known is deferred and retried, with a progress assertion" if okl else
           "dependency-ordered parsing changed", file=U.CONSTANTS, func="get_constants")
    ee = chk.func(U.CONSTANTS, "eval_expr")
    te = src(ee).replace(" ", "").replace("\n", ";")
    oke = contains(ee, """
if hasattr(constants, el):
    val = getattr(constants, el)
    if val is not None:
        f[i] = str(val)
    else:
        return None
""")
    chk.ob("G3-dependency-order", ee, "eval_expr: unknown operand -> None (defer)", oke,
           "a symbolic operand that is still unset makes the expression deferred, never silently replaced" if oke else
           "eval_expr no longer defers expressions with unset operands", file=U.CONSTANTS, func="eval_expr")
    # setupSave writes the file on the root only, into the broadcast folder
    ss = chk.func(U.SAVING, "setupSave")
    tsv = src(ss).replace(" ", "").replace("\n", ";")
    oks = "filename='{0}/initParams.json'.format(foldername);print(constants,file=open(filename,\"w\"))" in tsv.replace("'w'", '"w"')
    sff = chk.func(U.SETUPS, "setupFromFile")
    okr = 'constantFile="{0}/initParams.json".format(foldername)' in src(sff).replace(" ", "").replace("'", '"')
    chk.ob("W2-file-name-family", ss, "initParams.json written by setupSave, read by setupFromFile", oks and okr,
           "the parameter file name agrees between writer and restart" if oks and okr else "parameter file name differs", file=U.SAVING,
           func="setupSave")


def zero_divisors(chk):
    """G-zero: no division whose divisor can still hold the literal 0 it was initialised with"""
    fn = chk.func(U.DRIVER, "main")
    # candidate counters: names initialised with literal 0 at function level and incremented somewhere
    zeros = {}
    for st in fn.body:
        if isinstance(st, ast.Assign) and isinstance(st.targets[0], ast.Name) and isinstance(st.value, ast.Constant) and st.value.value == 0:
            zeros[st.targets[0].id] = st
    found = 0

    def scan(stmts, state):
        """state: name -> set of abstract values {'zero','pos','unknown'}"""
        nonlocal found
        for st in stmts:
            if isinstance(st, ast.If):
                check_exprs(st.test, state)
                a, b = {k: set(v) for k, v in state.items()}, {k: set(v) for k, v in state.items()}
                scan(st.body, a)
                scan(st.orelse, b)
                for k in state:
                    state[k] = a[k] | b[k]
            elif isinstance(st, (ast.While, ast.For)):
                for _ in range(3):
                    inner = {k: set(v) for k, v in state.items()}
                    if isinstance(st, ast.While):
                        check_exprs(st.test, inner, report=False)
                    scan_quiet(st.body, inner)
                    for k in state:
                        state[k] |= inner[k]
                entry = {k: set(v) for k, v in state.items()}
                if isinstance(st, ast.While):
                    check_exprs(st.test, entry)
                scan(st.body, entry)
                for k in state:
                    state[k] |= entry[k]
            elif isinstance(st, (ast.FunctionDef, ast.ClassDef)):
                continue
            else:
                if isinstance(st, ast.Assign):
                    check_exprs(st.value, state)
                    for t in st.targets:
                        if isinstance(t, ast.Name) and t.id in state:
                            v = st.value
                            state[t.id] = {"zero"} if isinstance(v, ast.Constant) and v.value == 0 else {"unknown"}
                elif isinstance(st, ast.AugAssign):
                    check_exprs(st.value, state)
                    if isinstance(st.target, ast.Name) and st.target.id in state:
                        v = st.value
                        if isinstance(st.op, ast.Add) and isinstance(v, ast.Constant) and isinstance(v.value, (int, float)) and v.value > 0:
                            state[st.target.id] = {"pos"} if state[st.target.id] <= {"zero", "pos"} else {"unknown"}
                        else:
                            state[st.target.id] = {"unknown"}
                else:
                    for ch in ast.iter_child_nodes(st):
                        if isinstance(ch, ast.expr):
                            check_exprs(ch, state)

    quiet = [False]

    def scan_quiet(stmts, state):
        quiet[0] = True
        try:
            scan(stmts, state)
        finally:
            quiet[0] = False

    def check_exprs(e, state, report=True):
        nonlocal found
        for n in ast.walk(e):
            if isinstance(n, ast.BinOp) and isinstance(n.op, (ast.Div, ast.FloorDiv, ast.Mod)) and isinstance(n.right, ast.Name) \
                    and n.right.id in state:
                if quiet[0] or not report:
                    continue
                found += 1
                bad = "zero" in state[n.right.id]
                chk.ob("G4-zero-divisor", n, src(n)[:80], not bad,
                       f"`{n.right.id}` has been incremented on every path reaching this division" if not bad else
                       f"`{n.right.id}` can still hold its initial 0 here (first iteration of a (re)started run that is a save step, e.g. "
                       "save interval 1): ZeroDivisionError aborts the run", file=U.DRIVER, func="main")
    state = {k: {"unknown"} for k in zeros}
    scan(fn.body, state)
    if found < 1:
        raise AnalysisError("C18: no division by a zero-initialised counter found in the driver (rule would be vacuous)")


def restart_bookkeeping(chk):
    fn = chk.func(U.DRIVER, "main")
    t = src(fn).replace(" ", "").replace("\n", ";")
    ok1 = "ti=t//constants.dt" in t and "tN=int(tEnd//constants.dt)" in t
    chk.ob("W3-restart-index", fn, "ti = t // dt from the loaded time", ok1, "the time index resumes from the time returned by the set-up "
           "(0 for a new run, the checkpoint's time for a restart)" if ok1 else "time index is no longer derived from the loaded time",
           file=U.DRIVER, func="main")
    loops = [n for n in fn.body if isinstance(n, ast.While)]
    ok2 = False
    if len(loops) == 1:
        lp = loops[0]
        from ..core import increment_of
        names = {increment_of(n)[0]: src(increment_of(n)[1]) for n in lp.body if increment_of(n)}
        ok2 = names.get("t") == "fullStep" and names.get("ti") == "1" and names.get("nLoops") == "1" and \
            src(lp.test).replace(" ", "").replace("(", "").replace(")", "") == "ti<tNandtimeForLoop" and "fullStep=constants.dt" in t
    chk.ob("W3-restart-index", loops[0] if loops else fn, "one step: t += dt, ti += 1", ok2,
           "time and time index advance together, once per iteration, top-level in the loop body" if ok2 else
           "time/time-index advancement changed", file=U.DRIVER, func="main")
    # save step condition and final save
    ok3 = contains(fn, "saveStepCut = saveStep - 1") and any(isinstance(n, ast.If) and contains(n.test, "ti % saveStep == saveStepCut") for n in ast.walk(fn)) \
        and any(isinstance(n, ast.If) and contains(n.test, "ti % saveStep != 0") for n in ast.walk(fn))
    chk.ob("W3-save-steps", fn, "save when ti % saveStep == saveStep-1; final save when ti % saveStep != 0", ok3,
           "a checkpoint is written after every saveStep-th step and at the end of the run if the last step was not a save step"
           if ok3 else "save-step conditions changed", file=U.DRIVER, func="main")
    # both grid and phi are written with the same time at every save site
    writes = [c for c in ast.walk(fn) if isinstance(c, ast.Call) and isinstance(c.func, ast.Attribute) and c.func.attr == "writeH5Dataset"]
    by_stmt_block = {}
    for c in writes:
        st = c
        while not isinstance(st, ast.stmt):
            st = parent(st)
        by_stmt_block.setdefault(id(parent(st)), []).append(c)
    ok4 = len(writes) == 6
    for blk in by_stmt_block.values():
        sigs = sorted((src(c.func.value), [src(a) for a in c.args]) for c in blk)
        if sigs != [("distribFunc", ["foldername", "t"]), ("phi", ["foldername", "t", "'phi'"])]:
            ok4 = False
    chk.ob("W3-save-steps", fn, "every save writes grid_<t> and phi_<t> with the same t", ok4,
           "the distribution function and the potential are checkpointed together with the current time" if ok4 else
           "a save site does not write both grids with the current time", file=U.DRIVER, func="main")


def run(chk):
    chk.explanation = (
        "Writer/reader agreement of the checkpoint format (dataset path, Layout attribute, hyperslab by the layout's starts/ends on "
        "write and on both read paths, layout guard), the file-name family (fixed-width time field: format, glob, parser, "
        "lexicographic max = latest; 'latest' only when no time is requested), the constants round trip (property setters commute, "
        "defaults applied after the file, dependency-ordered deferral), the driver's zero-divisor and restart book-keeping "
        "(ti = t//dt, t and ti advance together, save-step conditions, both grids written with the same t). Bit-exact HDF5 round "
        "trip and equality of split and unsplit runs are history-level/numerical and are not decided. Collective matching of "
        "the parallel-HDF5 calls and setupSave is decided by C06.")
    chk.in_file(U.GRID)
    hdf5_agreement(chk)
    file_names(chk)
    constants_round_trip(chk)
    zero_divisors(chk)
    restart_bookkeeping(chk)
    chk.floor("W1-", 7)
    chk.floor("W2-", 6)
    chk.floor("G3-", 8)
    chk.floor("G4-zero-divisor", 1)
