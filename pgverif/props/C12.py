"""C12 - poloidal advection traces 2nd-order ExB characteristics and interpolates at the foot.

Engine F: the predictor, corrector, boundary fill and (implicit scheme) fixed-point map and
convergence measure are extracted from the kernels as formulas and compared with the
specification written from the property statement.  Plus dispatch / argument-role agreement.

Verdicts: a formula comparison is decisive (HOLDS / VIOLATED, the latter with the name of the wrong variant the
code equals when it is one of the known ones); whatever prevents extraction or comparison is UNDECIDED.  The rules
on the Python call site (argument roles, point order, work-array storage, interpolation before evaluation, loop
test) are three-valued: VIOLATED only for a recognised wrong form.
"""
from __future__ import annotations

import ast
import itertools
import re

import sympy as sp
from sympy import Symbol, Rational, Integer
from sympy.core.function import AppliedUndef

from ..core import src, guards_of
from .. import units as U
from ..symx import (SymExec, Arr, ITE, Wrap, PI, make_args, Undecided, canon_rel, consistent, collect_ites,
                    alg_equal)
from ..kernels import SPLINE_HANDLERS, S2, FEQ, h_cross, h_scalar2
from .. import agree

WORK = ("drPhi_0", "dthetaPhi_0", "drPhi_k", "dthetaPhi_k", "endPts_k1_q", "endPts_k1_r", "endPts_k2_q", "endPts_k2_r")
EXPL = "general_poloidal_advection_step_expl"
IMPL = "general_poloidal_advection_step_impl"


def _h_max(ex, call):
    if len(call.args) != 2 or call.keywords:
        raise Undecided(f"call `{src(call)[:60]}`")
    a, b = ex.ev(call.args[0]), ex.ev(call.args[1])
    return ITE(sp.Gt(b, a), b, a)


def _h_min(ex, call):
    if len(call.args) != 2 or call.keywords:
        raise Undecided(f"call `{src(call)[:60]}`")
    a, b = ex.ev(call.args[0]), ex.ev(call.args[1])
    return ITE(sp.Lt(b, a), b, a)


def setup(fn):
    args = make_args(fn, funcs={"eval_spline_2d_cross": h_cross, "eval_spline_2d_scalar": h_scalar2})
    calls = dict(SPLINE_HANDLERS)
    calls.update({"max": _h_max, "min": _h_min})
    ex = SymExec(fn, args, calls=calls)
    return ex, args


def _grid_order_ok(val):
    """the radial grid is increasing: r_0 < r_max.  A truth assignment that contradicts it is not a case."""
    r0 = sp.Function("rPts")(Integer(0))
    rmax = sp.Function("rPts")(Symbol("n0_rPts", integer=True, positive=True) - 1)
    d = rmax - r0
    for (k, e), v in val.items():
        if k in ("lt", "le"):
            if sp.expand(e - d) == 0 and v:          # r_max - r_0 < 0 (<= 0)
                return False
            if sp.expand(e + d) == 0 and not v:      # r_0 - r_max < 0 (<= 0)
                return False
    return True


def spec_symbols(args):
    i, j = Symbol("i", integer=True), Symbol("j", integer=True)
    q = args["qPts"].fn(i)
    r = args["rPts"].fn(j)
    dt, B0, v = args["dt"], args["B0"], args["v"]
    phi = tuple(Symbol("arr_" + n) if n.startswith(("kts", "coeffs")) else args[n]
                for n in ("kts1Phi", "deg1Phi", "kts2Phi", "deg2Phi", "coeffsPhi"))
    pol = tuple(Symbol("arr_" + n) if n.startswith(("kts", "coeffs")) else args[n]
                for n in ("kts1Pol", "deg1Pol", "kts2Pol", "deg2Pol", "coeffsPol"))
    consts = [args[n] for n in ("CN0", "kN0", "deltaRN0", "rp", "CTi", "kTi", "deltaRTi")]
    r0 = args["rPts"].fn(Integer(0))
    nr = Symbol("n0_rPts", integer=True, positive=True)
    rmax = args["rPts"].fn(nr - 1)

    def dr_phi(th, rr):
        return S2(th, rr, 0, 1, *phi)

    def dth_phi(th, rr):
        return S2(th, rr, 1, 0, *phi)
    return dict(i=i, j=j, q=q, r=r, dt=dt, B0=B0, v=v, phi=phi, pol=pol, consts=consts, r0=r0, rmax=rmax,
                dr_phi=dr_phi, dth_phi=dth_phi)


def fill_spec(S, th_foot, r_foot, nul):
    inside = S2(Wrap(th_foot), r_foot, 0, 0, *S["pol"])
    null_fill = ITE(sp.Lt(r_foot, S["r0"]), Integer(0), ITE(sp.Gt(r_foot, S["rmax"]), Integer(0), inside))
    feq_fill = ITE(sp.Lt(r_foot, S["r0"]), FEQ(S["r0"], S["v"], *S["consts"]),
                   ITE(sp.Gt(r_foot, S["rmax"]), FEQ(r_foot, S["v"], *S["consts"]), inside))
    return ITE(nul, null_fill, feq_fill)


# ---------------------------------------------------------------------------------------------------------
# comparison of conditionals level by level
#
# `symx.sym_equal` builds one truth table over the atomic comparisons of all conditionals as they are written.  An
# atom whose operands themselves contain a conditional (the corrected foot is compared with the radial bounds, and
# the corrector contains the in/out-of-domain conditional of the predictor point) is then only recognised as the
# same atom when the inner conditional is written the same way (`ITE(not c, a, b)` vs `ITE(c, b, a)` are two
# different texts).  Here the conditionals are resolved from the inside out: first the conditions that contain no
# conditional are given truth values, the conditionals they decide are replaced by the chosen arm, which makes the
# next layer of conditions conditional-free, and so on.  Atoms are identified up to polynomial identity.
# ---------------------------------------------------------------------------------------------------------

class _Atoms:
    """truth assignment over canonical atoms `(kind, expr)`; atoms whose expressions are identical as rational
    functions are one atom"""

    def __init__(self):
        self.rep = {}            # syntactic key -> representative key

    def key(self, k, e):
        if (k, e) in self.rep:
            return self.rep[(k, e)]
        r = (k, e)
        if k != "atom":
            for (k2, e2) in set(self.rep.values()):
                if k2 == k and e2 is not e and _same_rational(e, e2):
                    r = (k2, e2)
                    break
        self.rep[(k, e)] = r
        return r


def _same_rational(a, b):
    if a == b:
        return True
    if a.free_symbols != b.free_symbols:
        return False
    try:
        n, _ = sp.fraction(sp.together(a - b))
        return sp.expand(n) == 0
    except Exception:
        return False


def _cond_atoms(c, A, acc):
    if isinstance(c, (sp.And, sp.Or)) or (isinstance(c, sp.Not) and isinstance(c.args[0], (sp.And, sp.Or))):
        for a in (c.args if not isinstance(c, sp.Not) else c.args[0].args):
            _cond_atoms(a, A, acc)
    elif c in (sp.true, sp.false):
        return
    else:
        k, e, _n = canon_rel(c)
        acc.add(A.key(k, e))


def _cond_eval(c, A, val):
    """truth value of an ITE-free condition under `val`, None when one of its atoms has no value yet"""
    if c is sp.true:
        return True
    if c is sp.false:
        return False
    if isinstance(c, (sp.And, sp.Or)):
        vs = [_cond_eval(a, A, val) for a in c.args]
        if isinstance(c, sp.And):
            return False if any(v is False for v in vs) else None if any(v is None for v in vs) else True
        return True if any(v is True for v in vs) else None if any(v is None for v in vs) else False
    if isinstance(c, sp.Not) and isinstance(c.args[0], (sp.And, sp.Or)):
        v = _cond_eval(c.args[0], A, val)
        return None if v is None else not v
    k, e, n = canon_rel(c)
    key = A.key(k, e)
    if key not in val:
        return None
    return (not val[key]) if n else val[key]


def _resolve(e, A, val):
    """replace, bottom-up, every conditional whose condition is decided by `val` by the chosen arm"""
    if not getattr(e, "args", None) or not e.has(ITE):
        return e
    if isinstance(e, ITE):
        c = _resolve(e.args[0], A, val)
        if not c.has(ITE):
            v = _cond_eval(c, A, val)
            if v is not None:
                return _resolve(e.args[1] if v else e.args[2], A, val)
        return ITE(c, _resolve(e.args[1], A, val), _resolve(e.args[2], A, val))
    return e.func(*[_resolve(a, A, val) for a in e.args])


def layered_equal(a, b, max_atoms=14):
    """equality of two extracted expressions with nested conditionals -> (bool, witness)"""
    A = _Atoms()

    def rec(a, b, val):
        ites = []
        collect_ites(a, ites)
        collect_ites(b, ites)
        if not ites:
            if alg_equal(a, b):
                return True, None
            return False, {"case": {f"{k}:{e}": v for (k, e), v in val.items()}, "code": str(a)[:300], "spec": str(b)[:300]}
        ready = [t for t in ites if not t.args[0].has(ITE)]
        if not ready:
            raise Undecided("conditional whose condition cannot be freed of conditionals")
        atoms = set()
        for t in ready:
            _cond_atoms(t.args[0], A, atoms)
        new = sorted(atoms - set(val), key=str)
        if not new:
            raise Undecided("conditional not resolved by its own atoms")
        if len(val) + len(new) > max_atoms:
            raise Undecided(f"{len(val) + len(new)} atomic conditions")
        for bits in itertools.product([False, True], repeat=len(new)):
            v2 = dict(val)
            v2.update(zip(new, bits))
            if not consistent(v2) or not _grid_order_ok(v2):
                continue
            ok, wit = rec(_resolve(a, A, v2), _resolve(b, A, v2), v2)
            if not ok:
                return ok, wit
        return True, None
    return rec(a, b, {})


def unify_shapes(e, args):
    """every two-dimensional argument of the kernels lives on the (theta, r) grid: `X.shape[0]` is the number of
    theta points and `X.shape[1]` the number of r points whatever array X it is read from (the kernels' precondition,
    asserted by PoloidalAdvection.step for f and true by construction for the work arrays)"""
    if not isinstance(e, sp.Basic):
        return e
    sub = {}
    for s_ in e.free_symbols:
        m = _SHAPE_SYM.match(s_.name)
        if m and m.group(2) in args and isinstance(args[m.group(2)], Arr) and m.group(2) not in ("qPts", "rPts") \
                and not m.group(2).startswith(("kts", "coeffs")):
            sub[s_] = Symbol("n0_qPts" if m.group(1) == "0" else "n0_rPts", integer=True, positive=True)
    # a negative constant index counts from the end
    for a_ in e.atoms(AppliedUndef):
        nm = str(a_.func)
        if nm in ("qPts", "rPts") and len(a_.args) == 1 and a_.args[0].is_Integer and a_.args[0] < 0:
            sub[a_] = a_.func(Symbol("n0_" + nm, integer=True, positive=True) + a_.args[0])
    return e.xreplace(sub) if sub else e


_SHAPE_SYM = re.compile(r"^n([01])_(\w+)$")


def compare(chk, rule, node, what, code, spec, func, args=None, wrong=(), stale=()):
    """decisive verdict of the formula engine; anything that prevents the comparison is UNDECIDED.
    `wrong`: (diagnosis, formula) pairs of known wrong variants of the specification: when the code differs from the
    specification and equals one of them the diagnosis names the defect"""
    try:
        if args is not None:
            code = unify_shapes(code, args)
        ok, wit = layered_equal(code, spec)
    except Undecided as e:
        chk.ob(rule, node, what, None, f"comparison not decidable: {e}", file=U.ADVK, func=func)
        return None
    why = "extracted formula equals the specification"
    if not ok:
        why = f"extracted formula differs from the specification: {wit}"
        left_over = sorted({str(a_.func) for a_ in code.atoms(AppliedUndef) if str(a_.func) in stale}) \
            if isinstance(code, sp.Basic) else []
        if left_over:
            why = (f"the formula reads cells of the work array(s) {left_over} that this call has not written on every path: "
                   "the arrays persist between calls, so values left over from the previous step enter the result - " + why)
            wrong = ()
        for label, variant in wrong:
            try:
                same, _w = layered_equal(code, variant)
            except Exception:
                continue
            if same:
                why = label + " - " + why
                break
    chk.ob(rule, node, what, ok, why, file=U.ADVK, func=func,
           facts={"code": str(code)[:400], "spec": str(spec)[:400]})
    return ok


def cell(ex, name, idx):
    """content of one array cell after symbolic execution; Undecided when the array is gone or the cell may alias"""
    a = ex.env.get(name)
    if not isinstance(a, Arr):
        raise Undecided(f"array `{name}` is not bound after the symbolic execution")
    return a.read(list(idx))


def trace_spec(S, x_k=None, clip=False, radius2="foot", half=Rational(1, 2), swap=False, sign=1, mf=None, div0=True):
    """the characteristic traced back from node (theta_i, r_j) with the drift (-d_r phi, d_theta phi)/(r B0):
    predictor x* = x - F(x) dt/B0 and trapezoidal foot x - 1/2 (F(x) + F(x_k)) dt/B0, where x_k is the predictor
    (explicit Heun) or the current iterate (implicit scheme; the new radius is then clipped to the domain).
    The keyword options build the WRONG variants used to name a defect (radius of the second-stage drift, step
    fraction, exchanged derivatives, sign, step factor, missing 1/r of the first stage)."""
    mf = S["dt"] / S["B0"] if mf is None else mf
    d_r, d_th = (S["dth_phi"], S["dr_phi"]) if swap else (S["dr_phi"], S["dth_phi"])
    den0 = S["r"] if div0 else Integer(1)
    F0_th = d_r(S["q"], S["r"]) / den0
    F0_r = d_th(S["q"], S["r"]) / den0
    th1 = Wrap(S["q"] - sign * F0_th * mf)
    r1 = S["r"] + sign * F0_r * mf
    th_k, r_k = (th1, r1) if x_k is None else x_k
    inside = sp.Not(sp.Or(sp.Lt(r_k, S["r0"]), sp.Gt(r_k, S["rmax"])))
    den = r_k if radius2 == "foot" else S["r"]
    Fk_th = ITE(inside, d_r(th_k, r_k) / den, Integer(0))
    Fk_r = ITE(inside, d_th(th_k, r_k) / den, Integer(0))
    th2 = Wrap(S["q"] - sign * half * (F0_th + Fk_th) * mf)
    r2 = S["r"] + sign * half * (F0_r + Fk_r) * mf
    if clip:
        r2 = ITE(sp.Lt(r2, S["r0"]), S["r0"], ITE(sp.Gt(r2, S["rmax"]), S["rmax"], r2))
    return {"th1": th1, "r1": r1, "th2": th2, "r2": r2}


STALE_IT = ("drPhi_0", "dthetaPhi_0", "drPhi_k", "dthetaPhi_k", "endPts_k2_q", "endPts_k2_r")

WRONG_TRACES = (
    ("the drift at the second point (predictor / current iterate) is divided by the node radius r_j instead of the "
     "radius of that point: the corrector does not use the drift (-d_r phi, d_theta phi)/(r B0) there, the foot is not "
     "the trapezoidal-rule foot (first order only when the drift has a radial component)", dict(radius2="node")),
    ("the trapezoidal average lacks its factor 1/2: the foot is displaced by the sum of the two drifts, twice too far",
     dict(half=Integer(1))),
    ("the derivatives d_r phi and d_theta phi are exchanged: the drift is not (-d_r phi, d_theta phi)/(r B0)", dict(swap=True)),
    ("the characteristic is traced in the wrong time direction (sign of the displacement reversed)", dict(sign=-1)),
    ("the first-stage drift lacks its factor 1/r", dict(div0=False)),
)


def wrong_traces(S, key, x_k=None, clip=False):
    out = []
    for label, kw in WRONG_TRACES:
        out.append((label, trace_spec(S, x_k=x_k, clip=clip, **kw)[key]))
    out.append(("the step factor is dt*B0 (or dt/2*B0) instead of dt/B0 (dt/(2 B0)): wrong for every B0 != 1",
                trace_spec(S, x_k=x_k, clip=clip, mf=S["dt"] * S["B0"])[key]))
    return out


def wrong_fills(S, th_foot, r_foot, nul):
    inside = S2(Wrap(th_foot), r_foot, 0, 0, *S["pol"])
    lo, hi = sp.Lt(r_foot, S["r0"]), sp.Gt(r_foot, S["rmax"])
    feq = lambda rr: FEQ(rr, S["v"], *S["consts"])      # noqa: E731
    nulf = ITE(lo, Integer(0), ITE(hi, Integer(0), inside))
    return (
        ("feet inside the inner radius take the equilibrium at the foot instead of the equilibrium at the inner radius",
         ITE(nul, nulf, ITE(lo, feq(r_foot), ITE(hi, feq(r_foot), inside)))),
        ("feet outside the outer radius take the equilibrium at the outer radius instead of the equilibrium at the foot",
         ITE(nul, nulf, ITE(lo, feq(S["r0"]), ITE(hi, feq(S["rmax"]), inside)))),
        ("the two boundary modes are exchanged: the null-boundary mode fills with the equilibrium and vice versa",
         ITE(nul, ITE(lo, feq(S["r0"]), ITE(hi, feq(r_foot), inside)), nulf)),
        ("the angle of the foot is not taken modulo 2 pi before the spline is evaluated",
         fill_spec(S, th_foot, r_foot, nul).xreplace({Wrap(th_foot): th_foot}) if not isinstance(th_foot, Wrap) else None),
    )


def check_explicit(chk, mod, modname=U.ADVK, qname=EXPL):
    fn = mod.func(qname)
    chk.functions.add(f"{modname}:{qname}")
    ex, args = setup(fn)
    try:
        ex.run()
        S = spec_symbols(args)
        i, j = S["i"], S["j"]
        got = {n: cell(ex, n, [i, j]) for n in ("endPts_k1_q", "endPts_k1_r", "endPts_k2_q", "endPts_k2_r", "f")}
    except Undecided as e:
        chk.ob("F1-extraction", fn, qname, None, f"kernel outside the extractable fragment: {e}", file=modname, func=qname)
        return
    sweep_ranges(chk, fn, [(fn.body, ex.env)], args, modname, qname)
    T = trace_spec(S)
    compare(chk, "F1-predictor", fn, "theta* = W(theta_i - (d_r phi/r_j) dt/B0)", got["endPts_k1_q"], T["th1"], qname,
            args, wrong_traces(S, "th1"))
    compare(chk, "F1-predictor", fn, "r* = r_j + (d_theta phi/r_j) dt/B0", got["endPts_k1_r"], T["r1"], qname,
            args, wrong_traces(S, "r1"))
    # endPts_k2_q may have been wrapped once more inside the fill branch: idempotent
    compare(chk, "F1-corrector", fn, "theta_foot = W(theta_i - 1/2 (F_th(x) + F_th(x*)) dt/B0)", Wrap(got["endPts_k2_q"]),
            T["th2"], qname, args, wrong_traces(S, "th2"), WORK)
    compare(chk, "F1-corrector", fn, "r_foot = r_j + 1/2 (F_r(x) + F_r(x*)) dt/B0", got["endPts_k2_r"], T["r2"], qname,
            args, wrong_traces(S, "r2"), WORK)
    nul = args["nulBound"]
    # the fill is a function of the foot: compared on the foot the kernel computed (its correctness is the rule above),
    # so that a wrong foot is reported once, by the rule that owns it
    th_f, r_f = unify_shapes(got["endPts_k2_q"], args), unify_shapes(got["endPts_k2_r"], args)
    compare(chk, "F1-boundary-fill", fn, "f[i,j] = fill(theta_foot, r_foot)", got["f"], fill_spec(S, th_f, r_f, nul), qname,
            args, [w_ for w_ in wrong_fills(S, th_f, r_f, nul) if w_[1] is not None])


def _top_assign_names(stmts):
    out = []
    for st in stmts:
        if isinstance(st, ast.Assign):
            out += [t.id for t in st.targets if isinstance(t, ast.Name)]
        elif isinstance(st, ast.AugAssign) and isinstance(st.target, ast.Name):
            out.append(st.target.id)
    return out


def node_sweeps(loops, body):
    """the sweeps over the nodes that make up one pass of the iteration: [(outer loop, statements of the outer body
    before the inner loop, inner loop)].  Several sweeps are treated as one when every array they write is accessed at
    the node of the sweep only and no scalar is carried from one sweep to the next (then their order per node is the
    order of the statements, as in one fused sweep)."""
    if not loops:
        raise Undecided("the iteration body contains no loop over the nodes")
    k0, k1 = body.index(loops[0]), body.index(loops[-1])
    if any(not isinstance(st, ast.For) for st in body[k0:k1 + 1]):
        raise Undecided("statements between the sweeps of one pass")
    out = []
    for outer in loops:
        inner = outer.body[-1] if outer.body else None
        if not (isinstance(outer.target, ast.Name) and isinstance(inner, ast.For) and isinstance(inner.target, ast.Name)):
            raise Undecided("the iteration body is not a double loop over the nodes")
        pre = outer.body[:-1]
        if any(isinstance(n, (ast.For, ast.While)) for st in pre + inner.body for n in ast.walk(st)):
            raise Undecided("nested loops inside a sweep over the nodes")
        out.append((outer, pre, inner))
    if len(out) > 1:
        written = {n.value.id for o, _p, _i in out for n in ast.walk(o)
                   if isinstance(n, ast.Subscript) and isinstance(n.ctx, ast.Store) and isinstance(n.value, ast.Name)}
        stored = []
        for o, p, inn in out:
            for n in ast.walk(o):
                if isinstance(n, ast.Subscript) and isinstance(n.value, ast.Name) and n.value.id in written:
                    ix = n.slice.elts if isinstance(n.slice, ast.Tuple) else [n.slice]
                    if [src(x) for x in ix] != [o.target.id, inn.target.id]:
                        raise Undecided(f"`{src(n)}` is not an access at the node of its sweep: the sweeps cannot be fused")
            stored.append({n.id for n in ast.walk(o) if isinstance(n, ast.Name) and isinstance(n.ctx, ast.Store)} -
                          {o.target.id, inn.target.id, "norm"})
        for a_, (o, p, inn) in enumerate(out):
            loaded = {n.id for n in ast.walk(o) if isinstance(n, ast.Name) and isinstance(n.ctx, ast.Load)}
            first_store = {}
            for n in ast.walk(o):
                if isinstance(n, ast.Name) and isinstance(n.ctx, ast.Store):
                    first_store.setdefault(n.id, n.lineno)
            for b_, names in enumerate(stored):
                if b_ != a_ and (names & loaded) - set(first_store):
                    raise Undecided(f"scalar(s) {sorted((names & loaded) - set(first_store))} carried from one sweep to another")
    return out


def sweep_ranges(chk, fn, regions, args, modname, qname):
    """every loop over the nodes visits all of them: range(number of theta points) / range(number of r points)"""
    nq = Symbol("n0_qPts", integer=True, positive=True)
    nr = Symbol("n0_rPts", integer=True, positive=True)
    for top in fn.body:
        env = None
        for stmts, e_ in regions:
            if any(top is x for x in stmts):
                env = e_
        if env is None:
            continue
        for lp in [n for n in ast.walk(top) if isinstance(n, ast.For)]:
            if not (isinstance(lp.iter, ast.Call) and isinstance(lp.iter.func, ast.Name) and lp.iter.func.id == "range"
                    and isinstance(lp.target, ast.Name)):
                continue
            v = lp.target.id
            roles = set()
            for n in ast.walk(lp):
                if isinstance(n, ast.Subscript) and isinstance(n.value, ast.Name):
                    ix = n.slice.elts if isinstance(n.slice, ast.Tuple) else [n.slice]
                    for pos, x in enumerate(ix):
                        if isinstance(x, ast.Name) and x.id == v:
                            if len(ix) == 2:
                                roles.add("q" if pos == 0 else "r")
                            elif n.value.id in ("qPts", "rPts"):
                                roles.add("q" if n.value.id == "qPts" else "r")
            what = f"for {v} in {src(lp.iter)}"
            if len(roles) != 1:
                continue
            role = roles.pop()
            want, other = (nq, nr) if role == "q" else (nr, nq)
            axis = "theta" if role == "q" else "r"
            tex = SymExec(fn, dict(env))
            try:
                ra = [unify_shapes(tex.ev(a_), args) for a_ in lp.iter.args]
            except Undecided as e:
                chk.ob("F1-sweep-range", lp, what, None, f"loop bounds outside the fragment: {e}", file=modname, func=qname)
                continue
            if len(ra) == 3 or not ra or lp.iter.keywords or not all(isinstance(x, sp.Basic) for x in ra):
                chk.ob("F1-sweep-range", lp, what, None, "strided or unusual range: not decided", file=modname, func=qname)
                continue
            lo, hi = (Integer(0), ra[0]) if len(ra) == 1 else (ra[0], ra[1])
            dlo, dhi = sp.simplify(lo), sp.simplify(hi - want)
            if dlo == 0 and dhi == 0:
                chk.ob("F1-sweep-range", lp, what, True, f"the sweep visits every {axis} node", file=modname, func=qname)
            elif (dlo.is_number and dlo != 0) or (dhi.is_number and dhi != 0):
                chk.ob("F1-sweep-range", lp, what, False,
                       f"the sweep over {axis} runs from {lo} to {hi} instead of over all {want} nodes: the nodes left out keep "
                       "stale values (of f, or of the work arrays of the previous call)", file=modname, func=qname)
            elif sp.simplify(hi - other) == 0:
                chk.ob("F1-sweep-range", lp, what, False,
                       f"the sweep over {axis} uses the number of nodes of the other axis ({hi}): nodes are left out or the "
                       "index runs past the array whenever the two differ", file=modname, func=qname)
            else:
                chk.ob("F1-sweep-range", lp, what, None, f"bounds ({lo}, {hi}) not comparable with {want}: not decided",
                       file=modname, func=qname)


def convergence_test(chk, w, ex, args, modname, qname):
    """the while loop runs exactly while the measure exceeds the tolerance and is entered"""
    nrm, tol = Symbol("norm", real=True), Symbol("tol", positive=True)
    tex = SymExec(ast.FunctionDef(name="_t", args=ast.arguments(posonlyargs=[], args=[], kwonlyargs=[], kw_defaults=[],
                                                                   defaults=[]), body=[], decorator_list=[], lineno=w.lineno),
                  {"norm": nrm, "tol": tol})
    want = canon_rel(sp.Gt(nrm, tol))
    verdict, why = None, None
    try:
        c = tex.ev(w.test)
    except Undecided as e:
        c = None
        why = f"loop test outside the fragment: {e}"
    if c is not None:
        if isinstance(c, (sp.And, sp.Or)) or c in (sp.true, sp.false):
            if c is sp.true:
                verdict, why = False, "the loop test is constant true: the iteration does not stop at convergence"
            elif c is sp.false:
                verdict, why = False, "the loop test is constant false: the fixed-point iteration is never executed"
            else:
                why = "compound loop test: whether the loop runs until the measure is below tol is not decided"
        else:
            got = canon_rel(c)
            if got == want:
                verdict = True
            elif canon_rel(sp.Not(c)) in (want, canon_rel(sp.Ge(nrm, tol))):
                verdict, why = False, ("the loop test is inverted: it continues while the measure is BELOW the tolerance, so "
                                       "the iteration stops (or never starts) while the iterates still move: the foot is "
                                       "not the converged solution of the implicit trapezoidal rule")
            else:
                why = f"loop test `{src(w.test)}` is not the comparison of the measure with the tolerance"
    # initial measure
    norm0 = ex.env.get("norm")
    entered = None
    if isinstance(norm0, sp.Basic):
        d = sp.simplify(norm0.xreplace({args["tol"]: tol}) - tol)
        if d.is_positive:
            entered = True
        elif d.is_positive is False or d == 0:
            entered = False
    if verdict is True and entered is True:
        chk.ob("F1-convergence-test", w, src(w.test), True,
               "iteration continues exactly while the measure exceeds tol and is entered at least once", file=modname, func=qname)
    elif verdict is False:
        chk.ob("F1-convergence-test", w, src(w.test), False, why, file=modname, func=qname)
    elif verdict is True and entered is False:
        chk.ob("F1-convergence-test", w, src(w.test), False,
               f"the measure is initialised to {norm0}, not above tol: the loop is never entered and the foot stays the "
               "explicit Euler predictor", file=modname, func=qname)
    else:
        chk.ob("F1-convergence-test", w, src(w.test), None,
               why or f"the initial measure `{norm0}` is not provably above tol", file=modname, func=qname)


def check_implicit(chk, mod, modname=U.ADVK, qname=IMPL):
    fn = mod.func(qname)
    chk.functions.add(f"{modname}:{qname}")
    whiles = [n for n in fn.body if isinstance(n, ast.While)]
    if len(whiles) != 1:
        nested = [n for n in ast.walk(fn) if isinstance(n, ast.While)]
        if not nested:
            chk.ob("F1-fixed-point-map", fn, qname, False,
                   "the implicit kernel contains no iteration at all: the foot is not the converged solution of the "
                   "implicit trapezoidal rule", file=modname, func=qname)
            return
        chk.ob("F1-extraction", fn, qname, None, "expected one top-level while loop (the fixed-point iteration)",
               file=modname, func=qname)
        return
    w = whiles[0]
    k = fn.body.index(w)
    # ---- phase 1: predictor (statements before the while)
    pre = ast.FunctionDef(name="_pre", args=fn.args, body=fn.body[:k], decorator_list=[], lineno=fn.lineno)
    ex, args = setup(pre)
    try:
        ex.run()
        S = spec_symbols(args)
        i, j = S["i"], S["j"]
        got1 = {n: cell(ex, n, [i, j]) for n in ("endPts_k1_q", "endPts_k1_r")}
    except Undecided as e:
        chk.ob("F1-extraction", fn, qname + " (predictor)", None, f"outside the extractable fragment: {e}", file=modname, func=qname)
        return
    sweep_ranges(chk, fn, [(fn.body[:k + 1], ex.env)], args, modname, qname)
    T0 = trace_spec(S)
    compare(chk, "F1-predictor", fn, "theta* = theta_i - (d_r phi/r_j) dt/B0 (initial iterate)",
            Wrap(got1["endPts_k1_q"]), T0["th1"], qname, args, wrong_traces(S, "th1"))
    compare(chk, "F1-predictor", fn, "r* = r_j + (d_theta phi/r_j) dt/B0 (initial iterate)",
            got1["endPts_k1_r"], T0["r1"], qname, args, wrong_traces(S, "r1"))
    convergence_test(chk, w, ex, args, modname, qname)
    # ---- phase 2: one iteration of the map, from a generic iterate (Q, R)
    body = w.body
    loops = [n for n in body if isinstance(n, ast.For)]
    try:
        passes = node_sweeps(loops, body)
    except Undecided as e:
        chk.ob("F1-extraction", w, qname + " (iteration)", None, f"{e}: not extracted", file=modname, func=qname)
        return
    before = body[:body.index(loops[0])]
    after = body[body.index(loops[-1]) + 1:]
    ex2, args2 = setup(ast.FunctionDef(name="_it", args=fn.args, body=[], decorator_list=[], lineno=fn.lineno))
    # state at loop entry: every local as after the predictor phase; the current iterate is generic
    for nm, val in ex.env.items():
        if nm not in ("endPts_k1_q", "endPts_k1_r"):
            ex2.env[nm] = val
    Q, R = Arr("endPts_k1_q"), Arr("endPts_k1_r")
    ex2.env["endPts_k1_q"], ex2.env["endPts_k1_r"] = Q, R
    carried = Symbol("norm_carried", real=True)
    ex2.env["norm"] = carried
    # the measure restarts from zero in every pass (it is a maximum: without the reset it could never decrease)
    try:
        ex2.block(before)
    except Undecided as e:
        chk.ob("F1-extraction", w, qname + " (iteration prologue)", None, f"outside the extractable fragment: {e}",
               file=modname, func=qname)
        return
    reset = ex2.env.get("norm")
    if "norm" in _top_assign_names(after):
        chk.ob("F1-convergence-reset", w, "norm = 0 at the start of each pass", None,
               "the measure is assigned after the sweep over the nodes: not decided", file=modname, func=qname)
    elif reset is carried:
        anywhere = any(isinstance(n, ast.Name) and n.id == "norm" and isinstance(n.ctx, ast.Store)
                       for st in before + after for n in ast.walk(st))
        chk.ob("F1-convergence-reset", w, "norm = 0 at the start of each pass", None if anywhere else False,
               "the measure is assigned conditionally: not decided" if anywhere else
               "the measure (a running maximum) is not reset at the start of a pass: it can never fall below its "
               "initial value above tol, so the iteration cannot terminate", file=modname, func=qname)
    elif isinstance(reset, sp.Basic) and reset == 0:
        chk.ob("F1-convergence-reset", w, "norm = 0 at the start of each pass", True,
               "the maximum over the nodes restarts from zero in every pass", file=modname, func=qname)
    elif isinstance(reset, sp.Basic) and reset.is_number and reset.is_positive:
        chk.ob("F1-convergence-reset", w, "norm = 0 at the start of each pass", False,
               f"the measure restarts from {reset} > 0: it never falls below that value whatever the iterates do",
               file=modname, func=qname)
    else:
        chk.ob("F1-convergence-reset", w, "norm = 0 at the start of each pass", None,
               f"the measure restarts from `{reset}`: not decided", file=modname, func=qname)
    n_in = Symbol("norm_in", real=True)
    ex2.env["norm"] = n_in
    ex2.env["i"], ex2.env["j"] = i, j
    try:
        for outer, pre_, inner in passes:
            ex2.env[outer.target.id] = i
            for st in pre_:
                ex2.stmt(st)
            ex2.env[inner.target.id] = j
            ex2.block(inner.body)
        got2 = {n: cell(ex2, n, [i, j]) for n in ("endPts_k1_q", "endPts_k1_r", "endPts_k2_q", "endPts_k2_r")}
        got_norm = ex2.env.get("norm")
        if not isinstance(got_norm, sp.Basic):
            raise Undecided("the measure is not a scalar after the iteration body")
    except Undecided as e:
        chk.ob("F1-extraction", w, qname + " (iteration)", None, f"outside the extractable fragment: {e}", file=modname, func=qname)
        return
    th_k = Wrap(Q.fn(i, j))
    r_k = R.fn(i, j)
    T = trace_spec(S, x_k=(th_k, r_k), clip=True)
    th_n, r_n = T["th2"], T["r2"]
    wr_th = wrong_traces(S, "th2", x_k=(th_k, r_k), clip=True)
    wr_r = wrong_traces(S, "r2", x_k=(th_k, r_k), clip=True) + [
        ("the new radius is not clipped to the radial domain [r_0, r_max]", trace_spec(S, x_k=(th_k, r_k), clip=False)["r2"])]
    compare(chk, "F1-fixed-point-map", w, "theta_{k+1} = W(theta_i - 1/2 (F_th(x_0) + F_th(x_k)) dt/B0)",
            got2["endPts_k1_q"], th_n, qname, args, wr_th, STALE_IT)
    compare(chk, "F1-fixed-point-map", w, "r_{k+1} = clip(r_j + 1/2 (F_r(x_0) + F_r(x_k)) dt/B0)",
            got2["endPts_k1_r"], r_n, qname, args, wr_r, STALE_IT)
    compare(chk, "F1-fixed-point-map", w, "endPts_k2 holds the new iterate (used by the fill)",
            got2["endPts_k2_r"], r_n, qname, args, wr_r, STALE_IT)
    compare(chk, "F1-fixed-point-map", w, "endPts_k2_q holds the new angle (used by the fill)",
            got2["endPts_k2_q"], th_n, qname, args, wr_th, STALE_IT)
    # convergence measure: max over both coordinates, periodic distance in theta, of (new iterate - old iterate); written
    # on the new iterate the kernel computed (its correctness is the rule above: a wrong map is reported once)
    th_n, r_n = unify_shapes(got2["endPts_k1_q"], args), unify_shapes(got2["endPts_k1_r"], args)
    d0 = sp.Abs(th_n - th_k)
    dth = ITE(sp.Gt(d0, PI), 2 * PI - d0, d0)
    m1 = ITE(sp.Gt(dth, n_in), dth, n_in)
    dr = sp.Abs(r_n - r_k)
    m2 = ITE(sp.Gt(dr, m1), dr, m1)
    m_noper = ITE(sp.Gt(dr, ITE(sp.Gt(d0, n_in), d0, n_in)), dr, ITE(sp.Gt(d0, n_in), d0, n_in))
    compare(chk, "F1-convergence-measure", w, "norm = max(norm, periodic |dtheta|, |dr|)", got_norm, m2, qname, args, [
        ("the measure is identically its incoming value: the change of the iterate does not enter it (are the new and "
         "the old iterate the same cells?), so the loop stops after its first pass", n_in),
        ("the angular change is not measured as a periodic distance: an iterate that crosses theta = 0 looks 2 pi away "
         "and the loop cannot terminate there", m_noper),
        ("the radial change does not enter the measure: the iteration stops while the radius still moves", m1),
        ("the angular change does not enter the measure: the iteration stops while the angle still moves",
         ITE(sp.Gt(dr, n_in), dr, n_in))])
    # ---- phase 3: fill after convergence (statements after the while), from generic converged foot
    post = ast.FunctionDef(name="_post", args=fn.args, body=fn.body[k + 1:], decorator_list=[], lineno=fn.lineno)
    ex3, args3 = setup(post)
    for nm, val in ex.env.items():
        if nm not in args3 and isinstance(val, sp.Basic):
            ex3.env[nm] = val           # scalar locals of the prologue (rMax, nPts_r, multFactor, ...)
    ex3.env.setdefault("pi", PI)
    try:
        ex3.run()
        got_f = cell(ex3, "f", [i, j])
        thf = ex3.env["endPts_k2_q"].fn(i, j)
        rf = ex3.env["endPts_k2_r"].fn(i, j)
    except (Undecided, KeyError, AttributeError) as e:
        chk.ob("F1-extraction", fn, qname + " (fill)", None, f"outside the extractable fragment: {e}", file=modname, func=qname)
        return
    sweep_ranges(chk, fn, [(fn.body[k + 1:], ex3.env)], args3, modname, qname)
    S3 = spec_symbols(args3)
    compare(chk, "F1-boundary-fill", fn, "f[i,j] = fill(theta_foot, r_foot)", got_f,
            fill_spec(S3, thf, rf, args3["nulBound"]), qname, args3, wrong_fills(S3, thf, rf, args3["nulBound"]))


# ---------------------------------------------------------------------------------------------------------
# call sites of the kernels in PoloidalAdvection.step
# ---------------------------------------------------------------------------------------------------------

WORK_ROLES = {"self._drPhi_0": "drPhi_0", "self._dqPhi_0": "dthetaPhi_0", "self._drPhi_k": "drPhi_k",
              "self._dqPhi_k": "dthetaPhi_k", "self._endPts_k1_q": "endPts_k1_q", "self._endPts_k1_r": "endPts_k1_r",
              "self._endPts_k2_q": "endPts_k2_q", "self._endPts_k2_r": "endPts_k2_r"}

# roles of the actuals, written with the local aliases of step() resolved to what they denote
ROLES = dict(WORK_ROLES)
ROLES.update({
    "self._points[1]": "rPts", "self._points[0]": "qPts",
    "phi.basis[0].knots": "kts1Phi", "phi.basis[1].knots": "kts2Phi", "phi.coeffs": "coeffsPhi",
    "phi.basis[0].degree": "deg1Phi", "phi.basis[1].degree": "deg2Phi",
    "self._spline.basis[0].knots": "kts1Pol", "self._spline.basis[1].knots": "kts2Pol", "self._spline.coeffs": "coeffsPol",
    "self._spline.basis[0].degree": "deg1Pol", "self._spline.basis[1].degree": "deg2Pol",
    "phi.basis[0].cubic_uniform": "cubic_uniform_splines", "self._nulEdge": "nulBound", "self._TOL": "tol",
    "f": "f", "float(dt)": "dt", "dt": "dt", "v": "v",
})


def _pure_path(n):
    """an expression that denotes the same object wherever it is written in the function (no call, no arithmetic)"""
    if isinstance(n, (ast.Name, ast.Constant)):
        return True
    if isinstance(n, ast.Attribute):
        return _pure_path(n.value)
    if isinstance(n, ast.Subscript):
        return _pure_path(n.value) and _pure_path(n.slice)
    if isinstance(n, (ast.Tuple, ast.List)):
        return all(_pure_path(x) or (isinstance(x, ast.Call) and src(x.func) == "float" and len(x.args) == 1 and
                                     _pure_path(x.args[0])) for x in n.elts)
    return False


def local_aliases(fn):
    """locals of `fn` bound exactly once, unconditionally at the top level of the function, to a pure path (or a tuple
    of pure paths) whose root names are not rebound: name -> value node"""
    params = {a.arg for a in fn.args.args}
    stores = {}
    for n in ast.walk(fn):
        if isinstance(n, ast.Name) and isinstance(n.ctx, ast.Store):
            stores[n.id] = stores.get(n.id, 0) + 1
    out = {}
    for st in fn.body:
        if isinstance(st, ast.Assign) and len(st.targets) == 1 and isinstance(st.targets[0], ast.Name):
            nm = st.targets[0].id
            if nm in params or stores.get(nm) != 1 or not _pure_path(st.value):
                continue
            roots = {x.id for x in ast.walk(st.value) if isinstance(x, ast.Name)}
            if any(stores.get(r, 0) > 1 for r in roots):
                continue
            out[nm] = st.value
    return out


class _Subst(ast.NodeTransformer):
    def __init__(self, env):
        self.env = env
        self.depth = 0

    def visit_Name(self, n):
        if isinstance(n.ctx, ast.Load) and n.id in self.env and self.depth < 6:
            self.depth += 1
            try:
                import copy
                return self.visit(copy.deepcopy(self.env[n.id]))
            finally:
                self.depth -= 1
        return n


def resolved_call(call, aliases):
    """the call with local aliases replaced by what they denote and `*name` of a local tuple spliced in"""
    import copy
    c = copy.deepcopy(call)
    sub = _Subst(aliases)
    args = []
    for a in c.args:
        if isinstance(a, ast.Starred):
            v = sub.visit(a.value)
            if isinstance(v, (ast.Tuple, ast.List)) and not any(isinstance(x, ast.Starred) for x in v.elts):
                args += list(v.elts)
            else:
                args.append(ast.Starred(value=v, ctx=ast.Load()))
        else:
            args.append(sub.visit(a))
    c.args = args
    for k in c.keywords:
        k.value = sub.visit(k.value)
    for n in ast.walk(c):
        ast.copy_location(n, call)
    ast.fix_missing_locations(c)
    return c


def point_order(chk, init):
    """self._points holds (theta, r): evaluated on the list of axis names"""
    pts = [n for n in ast.walk(init) if isinstance(n, ast.Assign) and any(src(t) == "self._points" for t in n.targets)]
    what = "self._points = (theta, r) = eta_vals[1::-1]"
    if len(pts) != 1:
        chk.ob("E2-point-order", init, what, None, "no single assignment of self._points in the constructor: not decided",
               file=U.ADV, func="PoloidalAdvection.__init__")
        return
    v = pts[0].value
    simple = all(isinstance(n, (ast.Name, ast.Subscript, ast.Slice, ast.Constant, ast.UnaryOp, ast.USub, ast.Tuple, ast.List,
                                ast.Load, ast.expr_context)) for n in ast.walk(v)) and \
        all(n.id == "eta_vals" for n in ast.walk(v) if isinstance(n, ast.Name))
    got = None
    if simple:
        try:
            got = eval(compile(ast.Expression(body=v), "<points>", "eval"), {"__builtins__": {}},
                       {"eta_vals": ["r", "theta", "z", "v"]})
            got = list(got)
        except Exception:
            got = None
    if got is None:
        chk.ob("E2-point-order", pts[0], what, None, f"`{src(v)}` is not a selection from eta_vals: not decided",
               file=U.ADV, func="PoloidalAdvection.__init__")
    elif got[:2] == ["theta", "r"]:
        chk.ob("E2-point-order", pts[0], what, True, "points are (theta, r): index 0 = theta, index 1 = r",
               file=U.ADV, func="PoloidalAdvection.__init__")
    else:
        chk.ob("E2-point-order", pts[0], what, False,
               f"`{src(v)}` is {tuple(got)}: step() hands _points[0] to the kernels as the theta points and _points[1] as "
               "the r points, so the two grid axes are exchanged (or wrong) in the whole advection",
               file=U.ADV, func="PoloidalAdvection.__init__")


def _alloc_call(v):
    return isinstance(v, ast.Call) and src(v.func).split(".")[-1] in (
        "empty", "zeros", "ones", "full", "empty_like", "zeros_like", "ones_like", "full_like", "ndarray", "copy")


def work_array_storage(chk, cls):
    """the eight work arrays handed to the kernels are eight different pieces of storage"""
    attrs = [a[len("self."):] for a in WORK_ROLES]
    desc = {}            # attr -> list of storage descriptors
    allocs = {}          # `self.X` / local -> allocation call node (for the bases of views)
    for m in [st for st in cls.body if isinstance(st, ast.FunctionDef)]:
        for st in ast.walk(m):
            if not isinstance(st, ast.Assign):
                continue
            pairs = []
            for t in st.targets:
                if isinstance(t, (ast.Tuple, ast.List)):
                    if isinstance(st.value, (ast.Tuple, ast.List)) and len(st.value.elts) == len(t.elts):
                        pairs += list(zip(t.elts, st.value.elts))
                    else:
                        for k_, e_ in enumerate(t.elts):       # unpacking an array yields its sub-arrays
                            pairs.append((e_, ast.Subscript(value=st.value, slice=ast.Constant(value=k_), ctx=ast.Load())))
                else:
                    pairs.append((t, st.value))
            for t, v in pairs:
                ts = src(t)
                if _alloc_call(v):
                    allocs.setdefault(ts, []).append(v)
                if not (ts.startswith("self.") and ts[5:] in attrs):
                    continue
                a = ts[5:]
                if _alloc_call(v):
                    d = ("fresh", id(v), m.name)
                elif isinstance(v, ast.Subscript):
                    sl = v.slice.elts[0] if isinstance(v.slice, ast.Tuple) and v.slice.elts else v.slice
                    k_ = sl.value if isinstance(sl, ast.Constant) and isinstance(sl.value, int) else None
                    base = f"alloc@{id(v.value)}" if _alloc_call(v.value) else src(v.value)
                    d = ("view", base, k_, m.name) if k_ is not None else ("unknown", src(v), m.name)
                elif src(v).startswith("self.") and src(v)[5:] in attrs:
                    d = ("alias", src(v)[5:], m.name)
                else:
                    d = ("unknown", src(v), m.name)
                desc.setdefault(a, []).append((d, st))

    def base_fresh(key):
        return key.startswith("alloc@") or len(allocs.get(key, [])) == 1

    def relation(a, b):
        """'distinct' / 'same' / None for two attributes"""
        da, db = desc.get(a), desc.get(b)
        if not da or not db:
            return None
        res = "distinct"
        for (x, sx) in da:
            for (y, sy) in db:
                if x[0] == "alias" and x[1] == b or y[0] == "alias" and y[1] == a:
                    return "same"
                if x[0] == "fresh" and y[0] == "fresh":
                    if x[1] == y[1]:
                        return "same"          # one allocation bound to both names (chained assignment)
                    continue
                if x[0] == "view" and y[0] == "view":
                    if x[1] == y[1]:
                        if x[2] == y[2]:
                            return "same"
                        if x[2] >= 0 and y[2] >= 0:
                            continue
                        res = None
                        continue
                    if base_fresh(x[1]) and base_fresh(y[1]):
                        continue
                    res = None
                    continue
                if {x[0], y[0]} == {"fresh", "view"}:
                    base = x[1] if x[0] == "view" else y[1]
                    if base_fresh(base):
                        continue
                    res = None
                    continue
                res = None
        return res

    def why_same(a, b):
        pa, pb = a.replace("_k1_", "_k?_").replace("_k2_", "_k?_"), b.replace("_k1_", "_k?_").replace("_k2_", "_k?_")
        if a != b and pa == pb and "endPts" in a:
            return (f"self.{a} and self.{b} are the same storage: the implicit kernel measures convergence as "
                    "|endPts_k2 - endPts_k1| (new iterate minus old iterate); with shared storage that is always 0, the "
                    "while loop stops after its first pass and the foot is one unconverged iterate instead of the solution "
                    "of the implicit trapezoidal rule")
        return (f"self.{a} and self.{b} are the same storage: the kernels keep different quantities in them during one "
                "sweep (drift at the node / at the second point, first- and second-stage end points), one overwrites the other")

    init = next((st for st in cls.body if isinstance(st, ast.FunctionDef) and st.name == "__init__"), cls)
    for a in attrs:
        node = desc[a][0][1] if a in desc else init
        rel = {b: relation(a, b) for b in attrs if b != a}
        same = [b for b, r in rel.items() if r == "same"]
        what = f"self.{a}: storage of its own"
        if same:
            chk.ob("E2-work-array-storage", node, what, False, why_same(a, same[0]), file=U.ADV, func="PoloidalAdvection.__init__")
        elif all(r == "distinct" for r in rel.values()):
            chk.ob("E2-work-array-storage", node, what, True,
                   "allocated separately from (or as a different slice than) the other seven work arrays",
                   file=U.ADV, func="PoloidalAdvection.__init__")
        else:
            und = [b for b, r in rel.items() if r is None]
            chk.ob("E2-work-array-storage", node, what, None,
                   f"whether self.{a} shares storage with {['self.' + b for b in und][:3]} is not decided (allocation not recognised)",
                   file=U.ADV, func="PoloidalAdvection.__init__")


def call_site_roles(chk):
    """E-roles at the two kernel calls of PoloidalAdvection.step, and the (theta, r) ordering"""
    mod = chk.mod(U.ADV)
    kmod = chk.mod(U.ADVK)
    fn = chk.func(U.ADV, "PoloidalAdvection.step")
    init = chk.func(U.ADV, "PoloidalAdvection.__init__")
    where = dict(file=U.ADV, func="PoloidalAdvection.step")
    point_order(chk, init)
    work_array_storage(chk, mod.cls("PoloidalAdvection"))
    aliases = local_aliases(fn)
    kernel_calls = []
    for kname in ("poloidal_advection_step_expl", "poloidal_advection_step_impl"):
        calls = [c for c in ast.walk(fn) if isinstance(c, ast.Call) and isinstance(c.func, ast.Name) and c.func.id == kname]
        if len(calls) != 1:
            chk.ob("E2-arity", fn, f"{kname}(...)", None,
                   f"{len(calls)} calls of {kname} in PoloidalAdvection.step (one expected): not decided", **where)
            kernel_calls += calls
            continue
        c0 = calls[0]
        kernel_calls.append(c0)
        formals = [a.arg for a in kmod.func(kname).args.args]
        c = resolved_call(c0, aliases)
        if any(isinstance(a, ast.Starred) for a in c.args) or any(k.arg is None for k in c.keywords):
            chk.ob("E2-arity", c0, f"{kname}(...)", None,
                   "the argument list unpacks a sequence that is not a local tuple of step(): binding not decided", **where)
            continue
        b = agree.bind_call(c, formals)
        if b is None:
            chk.ob("E2-arity", c0, f"{kname}(...)", False,
                   f"argument list does not fit the signature ({len(c.args)} positional, keywords "
                   f"{[k.arg for k in c.keywords]} for {len(formals)} parameters): the call raises TypeError", **where)
            continue
        missing = [f for f in formals if f not in b]
        chk.ob("E2-arity", c0, f"{kname}(...)", not missing,
               "every parameter of the kernel receives exactly one argument" if not missing else
               f"parameters {missing} receive no argument: the call raises TypeError", **where)
        for f, a in b.items():
            s_ = src(a)
            if not (s_.startswith("self._constants.") or s_ in ROLES):
                chk.ob("E2-argument-role", c0, f"{kname}: {f} <- {s_}", None,
                       f"the role of the actual `{s_}` is not known: whether it is the right argument for `{f}` is not decided",
                       **where)
        agree.check_roles(chk, U.ADV, "PoloidalAdvection.step", c, formals, ROLES, const_recv="self._constants")
        # potential bases from the potential spline, distribution bases from the interpolated distribution
        phi_f = [f for f in b if f.endswith("Phi")]
        pol_f = [f for f in b if f.endswith("Pol")]
        crossed = [f"{f} <- {src(b[f])}" for f in phi_f if src(b[f]).startswith("self._spline")] + \
                  [f"{f} <- {src(b[f])}" for f in pol_f if src(b[f]).startswith("phi.")]
        okb = len(phi_f) == 5 and len(pol_f) == 5 and all(src(b[f]).startswith("phi.") for f in phi_f) and \
            all(src(b[f]).startswith("self._spline.") for f in pol_f)
        chk.pat("E2-basis-sources", c0, f"{kname}: phi* <- phi, pol* <- self._spline", okb,
                "potential knots/degrees/coefficients come from the potential spline, those of the distribution from the "
                "spline interpolated from f",
                ("the spline of the potential and the spline of the distribution are exchanged or mixed (" + "; ".join(crossed) +
                 "): the drift is computed from the wrong function / the wrong function is evaluated at the foot") if crossed else None,
                **where)
    # the distribution is interpolated before the kernel is called
    interp = [c for c in ast.walk(fn) if isinstance(c, ast.Call) and isinstance(c.func, ast.Attribute) and
              c.func.attr == "compute_interpolant"]
    what = "self._interpolator.compute_interpolant(f, self._spline) before the kernel call"
    first_kernel = min((c.lineno for c in kernel_calls), default=None)
    sub = _Subst(aliases)
    import copy
    if first_kernel is None:
        chk.ob("E2-interpolate-before-evaluate", fn, what, None, "no kernel call found: not decided", **where)
    elif not interp:
        chk.ob("E2-interpolate-before-evaluate", fn, what, False,
               "step() does not interpolate f any more: the kernel evaluates the spline coefficients left over from the "
               "previous call (another slice of the distribution) at the feet", **where)
    else:
        good = und = late = wrong_dest = 0
        for c in interp:
            a_ = [src(sub.visit(copy.deepcopy(x))) for x in c.args] + [f"{k.arg}={src(k.value)}" for k in c.keywords]
            unconditional = not [g for g in guards_of(c, stop=fn)]
            if len(a_) == 2 and a_[0] == "f" and a_[1] == "self._spline":
                if c.lineno < first_kernel and unconditional:
                    good += 1
                elif c.lineno >= first_kernel and unconditional:
                    late += 1
                else:
                    und += 1
            elif len(a_) == 2 and a_[0] == "f" and (a_[1].startswith("self.") or a_[1] in {p.arg for p in fn.args.args}):
                wrong_dest += 1
            else:
                und += 1
        if good:
            chk.ob("E2-interpolate-before-evaluate", interp[0], what, True,
                   "the spline of f is computed from the current nodal values before the feet are evaluated", **where)
        elif und:
            chk.ob("E2-interpolate-before-evaluate", interp[0], what, None,
                   "an interpolation is present but its arguments / position are not the recognised ones: not decided", **where)
        elif late:
            chk.ob("E2-interpolate-before-evaluate", interp[0], what, False,
                   "f is interpolated only after the kernel has evaluated the spline: the feet take the values of the "
                   "previous call's spline", **where)
        else:
            chk.ob("E2-interpolate-before-evaluate", interp[0], what, False,
                   "the interpolant of f is written into another spline than self._spline, whose coefficients the kernel "
                   "evaluates at the feet", **where)


def iteration_bound(chk, mod):
    """'the implicit iteration terminates': the fixed-point loop `while norm > tol` stops only when the iterates converge, which
    needs the map to be a contraction (dt x Lipschitz constant of the drift / r below one).  Without an iteration bound the loop
    does not terminate for inputs where it is not - a structural necessary condition of unconditional termination."""
    fn = mod.func(IMPL)
    loops = [n for n in ast.walk(fn) if isinstance(n, ast.While)]
    if len(loops) != 1:
        chk.ob("F1-iteration-bounded", fn, "while norm > tol", None, f"{len(loops)} while loops found in the implicit kernel", file=U.ADVK, func=IMPL)
        return
    lp = loops[0]
    names_in_test = {n.id for n in ast.walk(lp.test) if isinstance(n, ast.Name)}
    counters = set()
    for n in ast.walk(lp):
        inc = None
        if isinstance(n, ast.AugAssign) and isinstance(n.target, ast.Name) and isinstance(n.op, ast.Add) and isinstance(n.value, ast.Constant):
            inc = n.target.id
        if isinstance(n, ast.Assign) and isinstance(n.targets[0], ast.Name) and isinstance(n.value, ast.BinOp) and isinstance(n.value.op, ast.Add) \
                and isinstance(n.value.left, ast.Name) and n.value.left.id == n.targets[0].id and isinstance(n.value.right, ast.Constant):
            inc = n.targets[0].id
        if inc and not any(isinstance(p_, ast.For) for p_ in _ancestors(n, lp)):
            counters.add(inc)
    bounded = bool(counters & names_in_test) or any(
        isinstance(n, ast.If) and any(isinstance(b, (ast.Break, ast.Return, ast.Raise)) for b in ast.walk(n))
        and ({x.id for x in ast.walk(n.test) if isinstance(x, ast.Name)} & counters) for n in ast.walk(lp))
    chk.ob("F1-iteration-bounded", lp, "while norm > tol: fixed-point pass", bounded,
           "the number of fixed-point passes is bounded by a counter" if bounded else
           "the loop ends only when two successive iterates agree to `tol`; nothing bounds the number of passes, so for a potential and "
           "time step for which the fixed-point map is not a contraction the call never returns", file=U.ADVK, func=IMPL)


def _ancestors(n, stop):
    p_ = parent(n)
    while p_ is not None and p_ is not stop:
        yield p_
        p_ = parent(p_)


def run(chk):
    chk.explanation = (
        "Formula conformance by symbolic forward substitution (engine F): predictor, Heun corrector, boundary fill of "
        "the explicit kernel; initial iterate, halved step factor, fixed-point map with clipping, convergence measure "
        "and loop test, and fill of the implicit kernel, each compared as rational functions / conditionals with the "
        "specification written from the property statement (drift (-d_r phi, d_theta phi)/(r B0), trapezoidal rule, "
        "theta mod 2 pi, fill values); conditionals are compared by case analysis from the innermost condition outwards, "
        "a mismatch is matched against named wrong variants to diagnose it. Every sweep visits all nodes; the measure is "
        "reset in each pass. Plus fast-path/general-path dispatch agreement, argument-role agreement at the kernel call "
        "sites (local aliases and unpacked local tuples resolved), distinct storage of the eight work arrays, (theta, r) "
        "order of the points, interpolation of f before the kernel call. Of 'the implicit iteration terminates' only the structural "
        "necessary condition is decided (an iteration bound; absent today: known finding); accuracy orders and rigid-rotation exactness "
        "are numerical consequences and are not decided.")
    chk.assumptions += ["the spline evaluators have the semantics stated by C07 (uninterpreted S2(x,y,der1,der2;family))",
                        "f_eq is the equilibrium distribution with argument roles (r, v, constants...)",
                        "every two-dimensional argument of the kernels has the shape (len(qPts), len(rPts)) "
                        "(asserted by PoloidalAdvection.step for f, true by construction for the work arrays)",
                        "the radial grid is increasing (rPts[0] < rPts[-1])"]
    chk.trusted.append("sympy expand/together as polynomial normaliser")
    mod = chk.mod(U.ADVK)
    chk.in_file(U.ADVK)
    check_explicit(chk, mod)
    check_implicit(chk, mod)
    iteration_bound(chk, mod)
    for w, g in (("poloidal_advection_step_expl", EXPL), ("poloidal_advection_step_impl", IMPL)):
        # the dispatch engine decides the form `if flag: general(positional...) else: general(positional...)`; any other
        # way of writing the wrapper is not that idiom and is left undecided rather than reported
        wf = mod.func(w)
        ifs = [n for n in wf.body if isinstance(n, ast.If)]
        arms = [a for n in ifs for a in (n.body, n.orelse)]
        plain = len(ifs) == 1 and isinstance(ifs[0].test, ast.Name) and all(
            len(a) == 1 and isinstance(a[0], ast.Expr) and isinstance(a[0].value, ast.Call) and not a[0].value.keywords
            and not any(isinstance(x, ast.Starred) for x in a[0].value.args) for a in arms)
        if not plain:
            chk.ob("E1-dispatch", wf, f"{w} -> {g}", None,
                   "the wrapper is not a single `if flag: general(...) else: general(...)` with positional arguments: "
                   "agreement of the two paths is not decided", file=U.ADVK, func=w)
            continue
        agree.check_wrapper_dispatch(chk, mod, w, g)
    call_site_roles(chk)
    # per-z potential splines (state anchor of the property): distinct objects, consistent index space, own plane/velocity
    from .C05 import poloidal
    poloidal(chk)
    from .. import lints as _l
    _l.check_cache_keys(chk, U.ADV, "PoloidalAdvection")
    chk.floor("F1-", 8)
    chk.floor("E", 6)
