import sys, os; sys.path.insert(0, os.getcwd())
import types
import numpy as np

# ---- fake mpi4py (no MPI library in the sandbox) ---------------------------
if 'mpi4py' not in sys.modules:
    try:
        import mpi4py.MPI  # noqa
    except Exception:
        _m = types.ModuleType('mpi4py')
        _M = types.ModuleType('mpi4py.MPI')

        class _Comm:
            def Get_rank(self): return 0
            def Get_size(self): return 1
            def __getattr__(self, name):
                raise AttributeError(name)
        _M.Comm = _Comm
        _M.Intracomm = _Comm
        _M.Cartcomm = _Comm
        _M.COMM_WORLD = _Comm()
        _M.COMM_NULL = None
        for _n in ('SUM', 'MAX', 'MIN', 'DOUBLE', 'INT', 'IN_PLACE', 'DOUBLE_COMPLEX'):
            setattr(_M, _n, object())
        _m.MPI = _M
        sys.modules['mpi4py'] = _m
        sys.modules['mpi4py.MPI'] = _M

import pygyro
assert os.path.abspath(pygyro.__file__).startswith(os.path.abspath(os.getcwd()) + os.sep), pygyro.__file__

from fractions import Fraction
from scipy.interpolate import make_interp_spline
from pygyro.splines.splines import BSplines, make_knots
from pygyro.advection.advection import ParallelGradient


class FakeLayout:
    """Only what ParallelGradient reads: local range of the r dimension."""

    def __init__(self, r_start, r_end):
        self.inv_dims_order = [0, 2, 1]
        self.starts = [r_start, 0, 0]
        self.ends = [r_end, 0, 0]


class FakeConstants:
    def __init__(self, R0, iota0, shear):
        self.R0 = R0
        self._iota0 = iota0
        self._shear = shear

    def iota(self, r):
        return self._iota0 + self._shear*np.asarray(r, dtype=float)


def make_grid(nr, nq, nz, zmax, degree=3, uniform=True):
    r = np.linspace(0.1, 14.5, nr)
    breaks_q = np.linspace(0, 2*np.pi, nq+1)
    spl_q = BSplines(make_knots(breaks_q, degree, True), degree, True, uniform)
    q = np.array(spl_q.greville)
    assert q.size == nq
    z = np.linspace(0, zmax, nz, endpoint=False)
    return spl_q, [r, q, z, np.linspace(-5, 5, 4)]


def fd_weights(order):
    """Exact rational first-derivative weights on the stencil the property states:
    order+1 consecutive integer offsets, centred when the order is even
    (one extra forward point when it is odd)."""
    n = order+1
    start = -(order//2)
    offs = list(range(start, start+n))
    # solve sum_j w_j offs_j^i = delta_{i1} exactly (Gauss elimination over Q)
    A = [[Fraction(o)**i for o in offs] + [Fraction(1 if i == 1 else 0)]
         for i in range(n)]
    for c in range(n):
        p = next(k for k in range(c, n) if A[k][c] != 0)
        A[c], A[p] = A[p], A[c]
        A[c] = [x/A[c][c] for x in A[c]]
        for k in range(n):
            if k != c and A[k][c] != 0:
                A[k] = [x-A[k][c]*y for x, y in zip(A[k], A[c])]
    return offs, [float(A[i][n]) for i in range(n)]


def reference(phi, q, z, r_i, iota_r, R0, order, degree=3):
    """Independent evaluation: periodic scipy spline in theta, field-line shifted
    evaluation, exact FD weights, z wrapped periodically."""
    nz, nq = phi.shape
    dz = z[1]-z[0]
    offs, w = fd_weights(order)
    qext = np.concatenate([q, [q[0]+2*np.pi]])
    out = np.zeros_like(phi)
    for k in range(nz):
        for o, c in zip(offs, w):
            row = phi[(k+o) % nz]
            s = make_interp_spline(qext, np.concatenate([row, row[:1]]), k=degree,
                                   bc_type='periodic')
            out[k] += c*s(np.mod(q+iota_r*dz*o/R0 - q[0], 2*np.pi)+q[0])
    bz = 1/np.sqrt(1+(r_i*iota_r/R0)**2)
    return out*bz/dz


def check(name, got, ref, tol=1e-9):
    scale = np.abs(ref).max() or 1.0
    err = np.abs(got-ref).max()/scale if np.isfinite(got).all() else np.inf
    ok = err < tol
    print('%-58s err=%9.2e %s' % (name, err, 'ok' if ok else 'VIOLATED'))
    return ok


def verify(tag, pg, spl, eta, cst, r0, order, rng, degree=3):
    ok = True
    nz, nq = eta[2].size, eta[1].size
    for i in (0, 2):
        phi = rng.standard_normal((nz, nq))
        der = np.full_like(phi, np.nan)
        pg.parallel_gradient(phi, i, der)
        r_i = eta[0][r0+i]
        ref = reference(phi, eta[1], eta[2], r_i, cst.iota(r_i), cst.R0, order, degree)
        ok &= check('%s (order %d, nz %d, dz %.3f) i=%d' % (tag, order, nz, eta[2][1]-eta[2][0], i),
                    der, ref, 1e-10)
    return ok


def main():
    rng = np.random.default_rng(7)
    ok = True
    cst = FakeConstants(239.8, 0.8, 0.01)
    # A simulation and, in the same process, a second (finer / longer) one:
    # e.g. a convergence study, or the potential and a diagnostic grid.
    for order in (2, 3, 4, 5, 6):
        spl1, eta1 = make_grid(6, 16, 12, 1506.7)
        spl2, eta2 = make_grid(6, 16, 24, 1506.7)
        spl3, eta3 = make_grid(6, 16, 12, 1506.7)
        pg1 = ParallelGradient(spl1, eta1, FakeLayout(1, 5), cst, order)
        ok &= verify('first object      ', pg1, spl1, eta1, cst, 1, order, rng)
        pg2 = ParallelGradient(spl2, eta2, FakeLayout(0, 4), cst, order)
        ok &= verify('second, finer grid', pg2, spl2, eta2, cst, 0, order, rng)
        ok &= verify('first object again', pg1, spl1, eta1, cst, 1, order, rng)
        pg3 = ParallelGradient(spl3, eta3, FakeLayout(1, 5), cst, order)
        ok &= verify('third, same grid  ', pg3, spl3, eta3, cst, 1, order, rng)
    print('PROPERTY HOLDS' if ok else 'PROPERTY VIOLATED')
    return 0 if ok else 1


if __name__ == '__main__':
    sys.exit(main())
