import sys, os; sys.path.insert(0, os.getcwd())
import types
import itertools
import numpy as np

# ---------------------------------------------------------------- fake mpi4py
_mpi4py = types.ModuleType('mpi4py')
_MPI = types.ModuleType('mpi4py.MPI')


class _Comm:
    def Get_rank(self):
        return 0

    def Get_size(self):
        return 1


_MPI.Comm = _Comm
_MPI.Intracomm = _Comm
_MPI.Cartcomm = _Comm
_MPI.COMM_WORLD = _Comm()
_MPI.__dict__['__getattr__'] = lambda name: _Comm
_mpi4py.MPI = _MPI
sys.modules['mpi4py'] = _mpi4py
sys.modules['mpi4py.MPI'] = _MPI

import pygyro  # noqa: E402
assert os.path.realpath(pygyro.__file__).startswith(os.path.realpath(os.getcwd()) + os.sep), pygyro.__file__

from math import pi  # noqa: E402
from pygyro import splines as spl  # noqa: E402
from pygyro.model.layout import Layout  # noqa: E402
from pygyro.model.grid import Grid  # noqa: E402
from pygyro.initialisation.constants import Constants  # noqa: E402


# ------------------------------------------------- serial simulation of ranks
class Manager:
    """ Minimal layout manager: the layouts of ONE simulated rank """

    def __init__(self, layouts):
        self._layouts = {l.name: l for l in layouts}
        self.bufferSize = max(l.size for l in layouts)

    def getLayout(self, name):
        return self._layouts[name]


def make_constants(npts, iotaVal):
    c = Constants()
    c.npts = list(npts)
    c.iotaVal = iotaVal
    return c


def make_space(constants):
    domain = [[constants.rMin, constants.rMax], [0, 2*pi],
              [constants.zMin, constants.zMax], [constants.vMin, constants.vMax]]
    degree = constants.splineDegrees
    period = [False, True, True, False]
    nkts = [n+1+d*(int(p)-1) for (n, d, p) in zip(constants.npts, degree, period)]
    breaks = [np.linspace(*lims, num=num) for (lims, num) in zip(domain, nkts)]
    knots = [spl.make_knots(b, d, p) for (b, d, p) in zip(breaks, degree, period)]
    bsplines = [spl.BSplines(k, d, p, True) for (k, d, p) in zip(knots, degree, period)]
    eta_grids = [b.greville for b in bsplines]
    return eta_grids, bsplines


def local_grid(name, dims_order, nprocs, coords, eta_grids, bsplines, dtype=float):
    """ Grid of the simulated rank with cartesian coordinates coords """
    lay = Layout(name, list(nprocs), list(dims_order), eta_grids, list(coords))
    g = Grid(eta_grids, bsplines, Manager([lay]), name, _Comm(), dtype=dtype)
    return g, lay


def block(lay):
    return tuple(slice(s, e) for s, e in zip(lay.starts, lay.ends))


def ranks(nprocs):
    return itertools.product(*[range(n) for n in nprocs])


def maxdiff(a, b):
    return float(np.max(np.abs(a-b)))

# =========================================================== advection demo
from pygyro.advection.advection import (FluxSurfaceAdvection, VParallelAdvection,  # noqa: E402
                                        PoloidalAdvection, ParallelGradient)

NPTS = [6, 8, 8, 7]
DT = 2.0
GRIDS = [(1, 1), (2, 1), (1, 2), (2, 2), (3, 2), (2, 4), (4, 3)]
TOL = 1e-13


def run_flux(nprocs, F, eta, bspl, cst):
    out = np.empty_like(F)
    for c in ranks(nprocs):
        g, lay = local_grid('flux_surface', [0, 3, 1, 2], nprocs, c, eta, bspl)
        g.getAllData()[:] = F[block(lay)]
        adv = FluxSurfaceAdvection(eta, g.get2DSpline(), lay, DT, cst)
        adv.gridStep(g)
        out[block(lay)] = g.getAllData()
    return out


def run_vpar(nprocs, F, PHI, eta, bspl, cst):
    out = np.empty_like(F)
    grad = np.empty_like(PHI)
    for c in ranks(nprocs):
        g, lay = local_grid('v_parallel', [0, 2, 1, 3], nprocs, c, eta, bspl)
        p, play = local_grid('v_parallel_1d', [0, 2, 1], nprocs[:1], c[:1], eta[:3], bspl[:3])
        g.getAllData()[:] = F[block(lay)]
        p.getAllData()[:] = PHI[block(play)]
        parGrad = ParallelGradient(bspl[1], eta, play, cst)
        vals = np.empty([lay.shape[0], NPTS[2], NPTS[1]])
        adv = VParallelAdvection(eta, bspl[3], cst)
        adv.gridStep(g, p, parGrad, vals, DT)
        adv.gridStepKeepGradient(g, vals, 0.5*DT)
        out[block(lay)] = g.getAllData()
        grad[block(play)] = vals
    return out, grad


def run_pol(nprocs, F, PHI, eta, bspl, cst):
    out = np.empty_like(F)
    for c in ranks(nprocs):
        g, lay = local_grid('poloidal', [3, 2, 1, 0], nprocs, c, eta, bspl)
        p, play = local_grid('poloidal', [2, 1, 0], nprocs[1:], c[1:], eta[:3], bspl[:3])
        g.getAllData()[:] = F[block(lay)]
        p.getAllData()[:] = PHI[block(play)]
        adv = PoloidalAdvection(eta, bspl[1::-1], cst)
        adv.gridStep(g, p, DT)
        adv.gridStep_SplinesUnchanged(g, 0.5*DT)
        out[block(lay)] = g.getAllData()
    return out


# ---- independent references: explicit loops over GLOBAL indices, every slice
# ---- advected with the physical parameters of its own global coordinates
def ref_flux(F, eta, bspl, cst):
    out = F.copy()
    lay = Layout('flux_surface', [1, 1], [0, 3, 1, 2], eta, [0, 0])
    adv = FluxSurfaceAdvection(eta, [bspl[1], bspl[2]], lay, DT, cst)
    for ir in range(NPTS[0]):
        for iv in range(NPTS[3]):
            adv.step(out[ir, iv], iv, ir)
    return out


def ref_vpar(F, PHI, eta, bspl, cst):
    out = F.copy()
    lay = Layout('v_parallel_1d', [1], [0, 2, 1], eta[:3], [0])
    parGrad = ParallelGradient(bspl[1], eta, lay, cst)
    adv = VParallelAdvection(eta, bspl[3], cst)
    grad = np.empty_like(PHI)
    for ir in range(NPTS[0]):
        parGrad.parallel_gradient(PHI[ir], ir, grad[ir])
    for dt in (DT, 0.5*DT):
        for ir in range(NPTS[0]):
            for iz in range(NPTS[2]):
                for iq in range(NPTS[1]):
                    adv.step(out[ir, iz, iq], dt, grad[ir, iz, iq], eta[0][ir])
    return out, grad


def ref_pol(F, PHI, eta, bspl, cst):
    from pygyro.splines.splines import Spline2D
    from pygyro.splines.spline_interpolators import SplineInterpolator2D
    out = F.copy()
    adv = PoloidalAdvection(eta, bspl[1::-1], cst)
    interp = SplineInterpolator2D(bspl[1], bspl[0])
    phis = []
    for iz in range(NPTS[2]):
        s = Spline2D(bspl[1], bspl[0])
        interp.compute_interpolant(PHI[iz], s)
        phis.append(s)
    for dt in (DT, 0.5*DT):
        for iv in range(NPTS[3]):
            for iz in range(NPTS[2]):
                adv.step(out[iv, iz], dt, phis[iz], eta[3][iv])
    return out


def advection_check(expected=None):
    bad = []
    sums = {}
    for iotaVal in (0.0, 0.8):
        cst = make_constants(NPTS, iotaVal)
        eta, bspl = make_space(cst)
        rng = np.random.default_rng(1234)
        nr, nq, nz, nv = NPTS
        Ff = 1.0+0.3*rng.random((nr, nv, nq, nz))
        Fv = 1.0+0.3*rng.random((nr, nz, nq, nv))
        Fp = 1.0+0.3*rng.random((nv, nz, nq, nr))
        PHIv = 2.0*rng.standard_normal((nr, nz, nq))
        PHIp = 0.05*rng.standard_normal((nz, nq, nr))

        rf = ref_flux(Ff, eta, bspl, cst)
        rv, rgrad = ref_vpar(Fv, PHIv, eta, bspl, cst)
        rp = ref_pol(Fp, PHIp, eta, bspl, cst)
        assert maxdiff(rf, Ff) > 1e-6 and maxdiff(rv, Fv) > 1e-6 and maxdiff(rp, Fp) > 1e-6
        w = np.cos(np.arange(rf.size)).reshape(rf.shape)
        sums[iotaVal] = [float(np.sum(rf*w)), float(np.sum(rv*w.reshape(rv.shape))),
                         float(np.sum(rp*w.reshape(rp.shape))), float(np.sum(rgrad*np.cos(np.arange(rgrad.size)).reshape(rgrad.shape)))]
        for nprocs in GRIDS:
            d = {'flux': maxdiff(run_flux(nprocs, Ff, eta, bspl, cst), rf)}
            ov, og = run_vpar(nprocs, Fv, PHIv, eta, bspl, cst)
            d['vpar'] = maxdiff(ov, rv)
            d['pargrad'] = maxdiff(og, rgrad)
            d['pol'] = maxdiff(run_pol(nprocs, Fp, PHIp, eta, bspl, cst), rp)
            for k, v in d.items():
                if not v <= TOL:
                    bad.append((iotaVal, nprocs, k, v))
    for b in bad:
        print("MISMATCH iota=%s process grid %s operator %s: max diff %.3e" % b)
    if expected is not None:
        for k in sums:
            for a, b in zip(sums[k], expected[k]):
                if abs(a-b) > 1e-11*max(1, abs(b)):
                    print("reference checksum changed", k, a, b)
                    bad.append(k)
    else:
        print("checksums", sums)
    return bad


if __name__ == '__main__':
    bad = advection_check()
    print("C05 advection operators vs global reference:", "VIOLATED" if bad else "holds")
    sys.exit(1 if bad else 0)
