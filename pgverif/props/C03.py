"""C03 - redistribution across differently distributed layout groups (LayoutSwapper).

Decides (DESIGN 5/C03): field-location flow and effects over LayoutSwapper.transpose
(scatter / gather / same-group / multi-step paths, with and without buffer), manager
typestate, gathered/scattered role agreement of every getAxes result (index-ownership
typing), Allgather geometry and symmetric replication, permutation typing.
"""
from __future__ import annotations

import ast

from ..core import src, AnalysisError, parent, guards_of
from ..resolve import Program, inline_locals, expand
from .. import units as U
from ..bufflow import Sym
from ..geometry import ShapeFlow, canon_product
from .. import permcheck
from .C01 import flow_check, unwrap

CLS = "LayoutSwapper"


def manager_final(chk, o, bdesc, n, path, same):
    cm = dict(o.tok.attrs).get("self._current_manager")
    want = {repr(Sym("mgr", Sym("name", "dest_name"))), repr(Sym("mgr", Sym("step", n - 1)))}
    if same:
        want.add(repr(Sym("mgr", Sym("name", "source_name"))))
    ok = cm is not None and repr(cm) in want
    chk.ob("M1-current-manager", None, f"LayoutSwapper.transpose[{bdesc}; route length {n}; {path}]", ok,
           "the current manager is the destination layout's handler at exit" if ok else
           f"_current_manager is {cm!r} at exit; nProcs/mpiCoords/nDistributedDirections would describe the wrong group",
           file=U.LAYOUT, func="LayoutSwapper.transpose")


# ------------------------------------------------------------------ getAxes ownership typing
def _layout_of_handler_expr(e, fn_env, handler_of):
    """self._managers[self._handlers[L.name]] -> 'L' ; Name h -> handler_of[h]"""
    s = src(e)
    if isinstance(e, ast.Name):
        return handler_of.get(e.id)
    if isinstance(e, ast.Subscript) and src(e.value) == "self._managers":
        k = e.slice
        if isinstance(k, ast.Subscript) and src(k.value) == "self._handlers":
            kk = k.slice
            if isinstance(kk, ast.Attribute) and kk.attr == "name" and isinstance(kk.value, ast.Name):
                return kk.value.id
            if isinstance(kk, ast.Name):
                return "name:" + kk.id
    return None


def axes_ownership(chk, mod, q):
    rel = mod.rel
    fn = mod.func(q)
    chk.functions.add(f"{rel}:{q}")
    # handler variables -> layout variables (h1 = self._managers[self._handlers[name1]]; l1 = h1.getLayout(name1))
    handler_of = {}
    hname = {}
    for n in ast.walk(fn):
        if isinstance(n, ast.Assign) and isinstance(n.targets[0], ast.Name):
            t = n.targets[0].id
            v = n.value
            if isinstance(v, ast.Subscript) and src(v.value) == "self._managers":
                hname[t] = src(v.slice)
            if isinstance(v, ast.Call) and isinstance(v.func, ast.Attribute) and v.func.attr == "getLayout" \
                    and isinstance(v.func.value, ast.Name):
                handler_of[v.func.value.id] = t
    # ndims variables -> layout
    nd_of = {}
    for n in ast.walk(fn):
        if isinstance(n, ast.Assign) and isinstance(n.targets[0], ast.Name) and isinstance(n.value, ast.Attribute) \
                and n.value.attr == "nDistributedDirections":
            L = _layout_of_handler_expr(n.value.value, None, handler_of)
            if L:
                nd_of[n.targets[0].id] = L
    # list variables derived from a layout's shape
    list_owner = {}
    sf = ShapeFlow(fn)
    n_calls = 0
    for call in [c for c in ast.walk(fn) if isinstance(c, ast.Call) and isinstance(c.func, ast.Attribute)
                 and c.func.attr == "getAxes"]:
        n_calls += 1
        st = call
        while not isinstance(st, ast.stmt):
            st = parent(st)
        if not (isinstance(st, ast.Assign) and isinstance(st.targets[0], ast.Tuple) and len(st.targets[0].elts) == 2
                and len(call.args) == 2 and all(isinstance(a, ast.Name) for a in call.args)):
            chk.ob("A1-getaxes-call-shape", call, src(st)[:100], None, "getAxes call is not `(a, b) = self.getAxes(G, S)`",
                   file=rel, func=q)
            continue
        G, S = call.args[0].id, call.args[1].id
        ig, is_ = [e.id if isinstance(e, ast.Name) else None for e in st.targets[0].elts]
        # which side is more distributed according to the enclosing guards
        larger = None
        facts = []
        for test, pol, kind in guards_of(st):
            if isinstance(test, ast.Compare) and len(test.ops) == 1 and isinstance(test.left, ast.Name) \
                    and isinstance(test.comparators[0], ast.Name):
                a, b = test.left.id, test.comparators[0].id
                if a in nd_of and b in nd_of:
                    facts.append((type(test.ops[0]).__name__, nd_of[a], nd_of[b], pol))
        # also the guards of earlier elif arms (an `else` arm inherits their negation through guards_of)
        for op, a, b, pol in facts:
            if op == "Gt" and pol:
                larger = a
            elif op == "Lt" and pol:
                larger = b
        if larger is None:
            neq = [(a, b) for op, a, b, pol in facts if op == "Eq" and not pol]
            ngt = [(a, b) for op, a, b, pol in facts if op == "Gt" and not pol]
            nlt = [(a, b) for op, a, b, pol in facts if op == "Lt" and not pol]
            if neq and ngt:
                larger = ngt[0][1]
            elif neq and nlt:
                larger = nlt[0][0]
        ok = larger is not None and larger == S
        chk.ob("A1-getaxes-role-order", call, src(st)[:100], ok if larger is not None else None,
               f"scattered argument `{S}` is the more distributed layout under the enclosing guard" if ok else
               (f"the enclosing guard makes `{larger}` the more distributed layout but `{S}` is passed as the scattered one"
                if larger is not None else "cannot derive from the enclosing guards which layout is more distributed"),
               file=rel, func=q, facts={"guards": [str(f) for f in facts]})
        # ownership of the two results
        owners = {ig: G, is_: S}
        # scope: statements after this call in the same block (until reassigned)
        block = parent(st)
        body = None
        for f in ("body", "orelse"):
            if st in getattr(block, f, []):
                body = getattr(block, f)
        if body is None:
            continue
        after = body[body.index(st) + 1:]
        comm_owner = {}
        for s2 in after:
            for n in ast.walk(s2):
                # comm = <handler>.communicators[idx]
                if isinstance(n, ast.Assign) and isinstance(n.targets[0], ast.Name) and isinstance(n.value, ast.Subscript) \
                        and isinstance(n.value.value, ast.Attribute) and n.value.value.attr == "communicators":
                    L = _layout_of_handler_expr(n.value.value.value, None, handler_of)
                    idx = n.value.slice
                    if isinstance(idx, ast.Name) and idx.id in owners:
                        okc = (L == owners[idx.id])
                        # communicators only exist on the scattered side for the changed direction
                        oks = (owners[idx.id] == S)
                        chk.ob("A1-index-ownership", n, src(n)[:110], (okc and oks) if L is not None else None,
                               f"communicator of `{L}`'s handler indexed by the axis getAxes returned for `{owners[idx.id]}`"
                               + ("" if okc and oks else " - index belongs to the other layout / the gathered side has no such communicator"),
                               file=rel, func=q)
                        comm_owner[n.targets[0].id] = L
                if isinstance(n, ast.Name) and isinstance(n.ctx, ast.Load) and n.id in owners:
                    p = parent(n)
                    cont = None
                    if isinstance(p, ast.Subscript) and p.slice is n:
                        c = p.value
                        if isinstance(c, ast.Attribute) and isinstance(c.value, ast.Name) and c.attr != "communicators":
                            cont = c.value.id
                        elif isinstance(c, ast.Name):
                            cont = _list_owner(fn, c.id, n.lineno)
                        elif isinstance(c, ast.Attribute) and c.attr == "communicators":
                            continue  # handled above
                    elif isinstance(p, ast.Call) and n in p.args and isinstance(p.func, ast.Attribute) \
                            and p.func.attr in ("mpi_starts", "mpi_lengths") and isinstance(p.func.value, ast.Name):
                        cont = p.func.value.id
                    else:
                        continue
                    if cont is None:
                        chk.ob("A1-index-ownership", n, src(enclosing(n))[:110], None,
                               f"cannot identify the layout that `{src(p)[:40]}` belongs to", file=rel, func=q)
                        continue
                    ok2 = cont == owners[n.id]
                    chk.ob("A1-index-ownership", n, src(enclosing(n))[:110], ok2,
                           f"`{n.id}` (axis of `{owners[n.id]}`) indexes a table of `{cont}`" +
                           ("" if ok2 else " - the index was computed for the other layout"), file=rel, func=q)
    return n_calls


def _list_owner(fn, name, lineno, depth=0):
    """layout variable whose .shape a list variable was derived from (following list-to-list derivations)"""
    import re
    best = None
    for nn in ast.walk(fn):
        if isinstance(nn, ast.Assign) and isinstance(nn.targets[0], ast.Name) and nn.targets[0].id == name \
                and nn.lineno <= lineno:
            if best is None or nn.lineno > best.lineno:
                best = nn
    if best is None or depth > 4:
        return None
    vs = src(best.value)
    m = re.search(r"(\w+)\.shape", vs)
    if m:
        return m.group(1)
    for other in re.findall(r"\b([A-Za-z_]\w*)\b", vs):
        if other != name and other not in ("slice", "list", "for", "in", "x", "n", "tuple"):
            o = _list_owner(fn, other, best.lineno, depth + 1)
            if o:
                return o
    return None


def enclosing(n):
    while not isinstance(n, ast.stmt):
        n = parent(n)
    return n


# ------------------------------------------------------------------ gather geometry
def gather_geometry(chk, mod, q, recv_name):
    """Allgather of padded blocks; unpack with the sender's true block shape."""
    rel = mod.rel
    fn = mod.func(q)
    ag = [c for c in ast.walk(fn) if isinstance(c, ast.Call) and isinstance(c.func, ast.Attribute)
          and c.func.attr in ("Allgather", "Gather", "Allgatherv", "allgather", "gather")]
    if len(ag) != 1:
        raise AnalysisError(f"C03: expected exactly one gather collective in {q}, found {len(ag)}")
    c = ag[0]
    chk.ob("R1-symmetric-replication", c, src(c)[:100], c.func.attr == "Allgather",
           "the gather is an Allgather: every rank of the communicator receives all blocks (replicas identical)"
           if c.func.attr == "Allgather" else f"`{c.func.attr}` does not deliver the blocks to every rank", file=rel, func=q)
    # the arm containing the Allgather
    arm = parent(enclosing(c))
    body = arm.orelse if enclosing(c) in getattr(arm, "orelse", []) else arm.body
    sub = ast.FunctionDef(name="_arm", args=fn.args, body=body, decorator_list=[], lineno=fn.lineno)
    sf = ShapeFlow(sub)
    env = {}
    for n in body:
        if isinstance(n, ast.Assign) and isinstance(n.targets[0], ast.Name):
            env.setdefault(n.targets[0].id, []).append(n)
    # send view: np.split(source, [blockSize])[0]; recv view: np.split(<recv>, [blockSize*mpi_size])[0]
    def first_def(name):
        return env[name][0].value if name in env else None
    sv = first_def("sourceView")
    dv = first_def("destView")
    oksend = sv is not None and src(sv).replace(" ", "") == "np.split(source,[blockSize])[0]"
    okrecv = dv is not None and src(dv).replace(" ", "") == f"np.split({recv_name},[blockSize*mpi_size])[0]"
    mpi = first_def("mpi_size")
    okmpi = mpi is not None and src(mpi) == "comm.Get_size()"
    sargs = src(c.args[0]).replace(" ", "") if c.args else ""
    rargs = src(c.args[1]).replace(" ", "") if len(c.args) > 1 else ""
    okargs = sargs.startswith("(sourceView,") and rargs.startswith("(destView,")
    # blockSize snapshot before the Allgather
    ok_block = False
    detail = ""
    if "blockSize" in sf.prods:
        pass
    # first product assignment to blockSize (the padded one)
    firstprod = None
    for n in body:
        if isinstance(n, ast.Assign) and isinstance(n.targets[0], ast.Name) and n.targets[0].id == "blockSize":
            firstprod = n
            break
    sf0 = ShapeFlow(ast.FunctionDef(name="_pre", args=fn.args, body=body[:body.index(firstprod) + 1] if firstprod else [],
                                     decorator_list=[], lineno=fn.lineno))
    if "blockSize" in sf0.prods:
        sl = sf0.prods["blockSize"][0]
        ok_block = sl.base == "layout_source.shape" and sl.over == {"idx_s": "layout_source.max_block_shape[idx_s]"}
        detail = f"{sl.base} with {sl.over}"
    chk.ob("G4-gather-geometry", c, src(c)[:100], oksend and okrecv and okmpi and okargs and ok_block,
           "every rank sends one block padded to max_block_shape along the scattered axis and receives "
           "communicator-size such blocks (uniform counts)" if oksend and okrecv and okmpi and okargs and ok_block else
           f"send view ok={oksend}, recv view ok={okrecv}, mpi_size ok={okmpi}, args ok={okargs}, padded block ok={ok_block} ({detail})",
           file=rel, func=q)
    # unpack loop: true block shape of the sender
    loops = [n for n in body if isinstance(n, ast.For)]
    if len(loops) != 1:
        raise AnalysisError(f"C03: unpack loop not found in gather arm of {q}")
    lp = loops[0]
    okiter = src(lp.iter).replace(" ", "") == "enumerate(blocks[:-1])"
    bl = first_def("blocks")
    okblocks = bl is not None and src(bl).replace(" ", "") == f"np.split({recv_name},blockSize*np.arange(1,mpi_size+1))"
    ivar = lp.target.elts[0].id if isinstance(lp.target, ast.Tuple) and isinstance(lp.target.elts[0], ast.Name) else None
    bvar = lp.target.elts[1].id if isinstance(lp.target, ast.Tuple) and isinstance(lp.target.elts[1], ast.Name) else None
    lsf = ShapeFlow(ast.FunctionDef(name="_loop", args=fn.args, body=lp.body, decorator_list=[], lineno=lp.lineno))
    blockdef = None
    for n in lp.body:
        if isinstance(n, ast.Assign) and isinstance(n.targets[0], ast.Name) and n.targets[0].id == "block":
            blockdef = n
    ok_true = None
    why = "no `block = <chunk>.reshape(<shape list>)` in the unpack loop"
    if blockdef is not None:
        rs = [c2 for c2 in ast.walk(blockdef.value) if isinstance(c2, ast.Call) and isinstance(c2.func, ast.Attribute)
              and c2.func.attr == "reshape" and c2.args and isinstance(c2.args[0], ast.Name)]
        if len(rs) == 1:
            v = rs[0]
            shp = v.args[0].id
            sl = lsf.lists.get(shp)
            inner = src(v.func.value).replace(" ", "")
            want = {"idx_s": f"layout_source.mpi_lengths(idx_s)[{ivar}]"}
            if sl is None:
                sl0 = sf.lists.get(shp)
                if sl0 is not None and sl0.base == "layout_source.shape" and "max_block_shape" in "".join(sl0.over.values()):
                    ok_true = False
                    why = (f"the received chunk of rank i is viewed with the padded block shape `{shp}` {sl0.over}; the sender's "
                           "block is contiguous in its true shape, so for uneven blocks elements are mis-assigned unless "
                           "the gathered axis is the leading one")
                else:
                    why = f"cannot identify the shape list `{shp}` used to view the received chunk"
            elif sl.base == "layout_source.shape" and sl.over == want:
                okv = inner == f"np.split({bvar},[blockSize])[0]" and "blockSize" in lsf.prods and \
                    lsf.prods["blockSize"][0].over == want and blockdef.value is v
                ok_true = True if okv else None
                why = "received chunk of rank i is cut to and viewed with the sender's true block shape (mpi_lengths(idx_s)[i])" \
                    if okv else f"true-shape view recognised but the chunk cut `{inner}` is not `np.split(b, [blockSize])[0]`"
            else:
                ok_true = False if "max_block_shape" in "".join(sl.over.values()) else None
                why = f"block shape overrides {sl.over} are not the sender's true lengths"
        else:
            why = f"unrecognised block view `{src(blockdef.value)[:60]}`"
    chk.ob("G4-unpack-true-shape", blockdef or lp, src(blockdef)[:100] if blockdef else "unpack loop",
           (ok_true and okiter and okblocks) if ok_true is not False else False,
           why + ("" if okiter and okblocks else f"; loop iter ok={okiter}, blocks ok={okblocks}"), file=rel, func=q)
    # placement: slices[idx_d] = slice(src.mpi_starts(idx_s)[i], +lengths)
    place = None
    for n in lp.body:
        if isinstance(n, ast.Assign) and isinstance(n.targets[0], ast.Subscript) and src(n.targets[0].value) == "slices":
            place = n
    okp = place is not None and src(place.targets[0].slice) == "idx_d" and src(place.value).replace(" ", "") == \
        f"slice(layout_source.mpi_starts(idx_s)[{ivar}],layout_source.mpi_starts(idx_s)[{ivar}]+layout_source.mpi_lengths(idx_s)[{ivar}])"
    sdef = first_def("slices")
    okp = okp and sdef is not None and src(sdef).replace(" ", "") in ("[slice(x)forxinlayout_dest.shape]", "[slice(n)forninlayout_dest.shape]")
    chk.ob("G4-unpack-placement", place or lp, src(place)[:110] if place else "unpack loop", okp,
           "block of rank i is placed at [start_i, start_i+len_i) of the source partition along the gathered axis of the destination"
           if okp else "placement slice does not use the source layout's (start, length) of rank i at the destination axis",
           file=rel, func=q)


def scatter_geometry(chk, mod, q):
    rel = mod.rel
    fn = mod.func(q)
    env = inline_locals(fn)
    # find the scatter arm: contains comm.Get_rank()
    arms = [n for n in ast.walk(fn) if isinstance(n, ast.If)]
    target = None
    for a in arms:
        for body in (a.body, a.orelse):
            if any(isinstance(c, ast.Call) and isinstance(c.func, ast.Attribute) and c.func.attr == "Get_rank"
                   for s in body for c in ast.walk(s)) and \
                    not any(isinstance(s, ast.If) for s in body):
                target = body
    if target is None:
        raise AnalysisError(f"C03: scatter arm (Get_rank) not found in {q}")
    d = {}
    for n in target:
        if isinstance(n, ast.Assign) and isinstance(n.targets[0], ast.Name):
            d[n.targets[0].id] = src(n.value).replace(" ", "")
        if isinstance(n, ast.Assign) and isinstance(n.targets[0], ast.Subscript):
            d[src(n.targets[0]).replace(" ", "")] = src(n.value).replace(" ", "")
    ok = d.get("rank") == "comm.Get_rank()" and d.get("start") == "layout_dest.mpi_starts(idx_d)[rank]" and \
        d.get("length") == "layout_dest.mpi_lengths(idx_d)[rank]" and \
        d.get("sourceSlice[idx_s]") == "slice(start,start+length)" and \
        d.get("sourceSlice") in ("[slice(n)forninlayout_source.shape]", "[slice(x)forxinlayout_source.shape]")
    chk.ob("G4-scatter-slice", fn, "scatter arm of " + q.split(".")[-1], ok,
           "the local slice is [start_r, start_r+len_r) of the destination partition, for this rank's coordinate on the "
           "destination communicator, taken along the source axis of the scattered dimension" if ok else
           f"unexpected scatter slice: {d}", file=rel, func=q)


def init_buffer(chk, mod):
    """advertised size covers every handler's size and every gather's receive size"""
    rel = mod.rel
    q = "LayoutSwapper.__init__"
    fn = mod.func(q)
    env = {}
    s = src(fn)
    ok1 = "self._buffer_size = max(buffSize)" in s and "buffSize = [x.bufferSize for x in self._managers]" in s
    chk.ob("G4-bufsize-handlers", fn, "self._buffer_size = max(buffSize)", ok1,
           "swapper buffer covers the largest handler buffer", file=rel, func=q)
    sf = ShapeFlow(fn)
    b1 = sf.prods.get("blockSize1")
    b2 = sf.prods.get("blockSize2")
    okb = b1 is not None and b2 is not None and b1[0].base == "l1.shape" and b1[0].over == {"idx_1": "l1.max_block_shape[idx_1]"} \
        and b2[0].base == "l2.shape" and b2[0].over == {"idx_2": "l2.max_block_shape[idx_2]"}
    # the smaller block belongs to the scattered side; receive size = that block x its communicator size
    ifs = [n for n in ast.walk(fn) if isinstance(n, ast.If) and src(n.test).replace(" ", "").strip("()") == "blockSize1>blockSize2"]
    okc = False
    if ifs:
        a = src(ifs[0]).replace(" ", "").replace("\n", "")
        okc = "comm=h2.communicators[idx_2]" in a and "max(self._buffer_size,blockSize2*mpi_size)" in a and \
            "comm=h1.communicators[idx_1]" in a and "max(self._buffer_size,blockSize1*mpi_size)" in a and \
            a.count("mpi_size=comm.Get_size()") == 2
    chk.ob("G4-bufsize-gather", ifs[0] if ifs else fn, "gather receive size in __init__", okb and okc,
           "buffer covers (padded scattered block) x (size of the scattered side's communicator) for every gather pair"
           if okb and okc else f"blocks ok={okb}, communicator/size ok={okc}", file=rel, func=q)


def run(chk):
    chk.explanation = (
        "Field-location flow over LayoutSwapper.transpose (same-group, scatter, gather, multi-step; buf None/given; "
        "route lengths 1..7, 2-periodic), manager typestate at every exit, index-ownership typing of every getAxes "
        "result (6 call sites), Allgather geometry (uniform padded counts, unpack with the sender's true block "
        "shape, placement by the source partition), scatter slice, buffer sizing, permutation typing of the 6 "
        "block transposes. Decides the structural necessary conditions of C03; the communicator-matching heuristic "
        "of __init__ and element-level placement are not decided.")
    chk.assumptions += [
        "LayoutHandler.transpose satisfies its contract (decided by C01)",
        "source, dest, buf distinct non-overlapping arrays of bufferSize elements",
        "numpy view/copy and Allgather contracts of DESIGN.md section 3",
        "not the plot-only rank (self._buffer_size != 0)",
    ]
    mod = chk.mod(U.LAYOUT)
    chk.in_file(U.LAYOUT)
    prog = Program(chk.repo, [U.LAYOUT])
    flow_check(chk, prog, U.LAYOUT, CLS, extra_final=manager_final)
    ncalls = 0
    for q in ("LayoutSwapper._transpose", "LayoutSwapper._transpose_source_intact", "LayoutSwapper.__init__"):
        ncalls += axes_ownership(chk, mod, q)
    chk.require(ncalls >= 6, f"C03: only {ncalls} getAxes call sites found (6 confirmed by reading)")
    gather_geometry(chk, mod, "LayoutSwapper._transpose", "dest")
    gather_geometry(chk, mod, "LayoutSwapper._transpose_source_intact", "buf")
    scatter_geometry(chk, mod, "LayoutSwapper._transpose")
    scatter_geometry(chk, mod, "LayoutSwapper._transpose_source_intact")
    init_buffer(chk, mod)
    permcheck.check_layout_swapper(chk, mod)
    # getAxes itself: returns (position in gathered ordering of the scattered dimension, scattered axis)
    ga = mod.func("LayoutSwapper.getAxes")
    s = src(ga).replace(" ", "").replace("\n", "")
    okga = "idx_g=layout_gathered.dims_order.index(layout_scattered.dims_order[idx_s])" in s and "return(idx_g,idx_s)" in s \
        and "possComms=list(handlerS.communicators)" in s and "forcinhandlerG.communicators:" in s
    chk.ob("A1-getaxes-definition", ga, "getAxes", okga,
           "returns (axis of the gathered layout carrying the scattered dimension, process axis of the scattered handler "
           "whose communicator the gathered handler lacks)" if okga else "getAxes no longer has the recognised definition",
           file=U.LAYOUT, func="LayoutSwapper.getAxes")
    chk.floor("D2-result-in-dest", 14)
    chk.floor("M1-current-manager", 14)
    chk.floor("A1-index-ownership", 16)
    chk.floor("A1-getaxes-role-order", 6)
    chk.floor("P1-", 6)
