#!/bin/bash
# verify_r3.sh <PID> <variant>: scratch worktree of /repo HEAD; demo on clean, apply, demo + suite
pid=$1; v=$2
out=/tmp/mut6/out/$pid/$v
wt=/tmp/ver6/${pid}_$v
rm -rf $wt; mkdir -p /tmp/ver6
git -C /repo worktree add -q --detach $wt HEAD 2>/dev/null || { echo "{\"id\":\"$pid/$v\",\"error\":\"worktree\"}"; exit 0; }
cd $wt
PYTHONPATH=$wt timeout 1500 /venv/bin/python $out/demo.py > $wt.clean.log 2>&1; clean=$?
if git apply --whitespace=nowarn $out/patch.diff 2>/dev/null; then applied=1; elif git apply --3way --whitespace=nowarn $out/patch.diff 2>/dev/null; then applied=2; else applied=0; fi
mutrc=-1; tests="na"
if [ $applied != 0 ]; then
  [ $applied = 2 ] && git diff HEAD > $out/patch_ported.diff
  PYTHONPATH=$wt timeout 1500 /venv/bin/python $out/demo.py > $wt.mut.log 2>&1; mutrc=$?
  tests=$(timeout 1500 /venv/bin/python -m pytest -q -p no:cacheprovider --timeout=900 --continue-on-collection-errors 2>&1 | tail -1 | tr -d '\n' | cut -c1-80)
fi
cd /; git -C /repo worktree remove --force $wt 2>/dev/null
echo "{\"id\":\"$pid/$v\",\"applied\":$applied,\"demo_clean_rc\":$clean,\"demo_mut_rc\":$mutrc,\"tests\":\"$tests\"}"
