import sys, os; sys.path.insert(0, os.getcwd())
# Demo for property C02: block decomposition is an exact balanced partition,
# accessors agree with it, the advertised buffer size suffices for transposes.
# Exit 0 if the property holds, 1 if violated.
# EXACT_BUFFER: also require bufferSize to equal the minimal sufficient value
# (behaviour pinned for refactorings); otherwise only sufficiency is required.
EXACT_BUFFER = False
import itertools
import threading
import types
import warnings

import numpy as np

# ---------------------------------------------------------------- fake mpi4py


class _Group:
    def __init__(self, size):
        self.size = size
        self.slots = [None] * size
        self.barrier = threading.Barrier(size)


class FakeComm:
    """ Thread based communicator: one thread per rank """

    def __init__(self, group=None, rank=0):
        self.group = group if group is not None else _Group(1)
        self.rank = rank

    def Get_size(self):
        return self.group.size

    def Get_rank(self):
        return self.rank

    def Alltoall(self, send, recv):
        g = self.group
        p = g.size
        assert send.size == recv.size and send.size % p == 0
        g.slots[self.rank] = send
        g.barrier.wait(timeout=60)
        c = send.size // p
        for r in range(p):
            recv[r * c:(r + 1) * c] = g.slots[r][self.rank * c:(self.rank + 1) * c]
        g.barrier.wait(timeout=60)


_mpi4py = types.ModuleType('mpi4py')
_MPI = types.ModuleType('mpi4py.MPI')
_MPI.Comm = FakeComm
_MPI.COMM_WORLD = FakeComm()
_mpi4py.MPI = _MPI
sys.modules['mpi4py'] = _mpi4py
sys.modules['mpi4py.MPI'] = _MPI

import pygyro  # noqa: E402
assert os.path.abspath(pygyro.__file__).startswith(os.path.abspath(os.getcwd()) + os.sep), pygyro.__file__
from pygyro.model.layout import Layout, LayoutHandler  # noqa: E402
from pygyro.model.grid import Grid  # noqa: E402

failures = []


def fail(msg):
    if len(failures) < 25:
        print('VIOLATION:', msg)
    failures.append(msg)


# ------------------------------------------------------- independent reference
def ref_starts(n, p):
    """ pure python ints: start of block k (k=0..p) """
    small, big = divmod(n, p)
    return [small * k + (big * k) // p for k in range(p + 1)]


def check_layout(lay, nprocs, order, sizes, coords, tag):
    nd = len(order)
    full = [1] * (nd - len(nprocs))
    procs = list(nprocs) + full
    rk = list(coords) + [0] * (nd - len(nprocs))
    shape = []
    for i in range(nd):
        n = sizes[order[i]]
        p = procs[i]
        st = ref_starts(n, p)
        ms = np.asarray(lay.mpi_starts(i))
        ml = np.asarray(lay.mpi_lengths(i))
        if ms.shape != (p,) or ml.shape != (p,):
            fail('%s axis %d: table shape %s %s' % (tag, i, ms.shape, ml.shape))
            return
        ms = [int(x) for x in ms]
        ml = [int(x) for x in ml]
        # generic statement: tiling, rank order, balance
        if ms[0] != 0 or any(ms[k] + ml[k] != ms[k + 1] for k in range(p - 1)) or ms[-1] + ml[-1] != n:
            fail('%s axis %d: blocks do not tile [0,%d): starts=%s lengths=%s' % (tag, i, n, ms, ml))
        if max(ml) - min(ml) > 1 or min(ml) < 1:
            fail('%s axis %d: unbalanced lengths %s' % (tag, i, ml))
        # exact values
        if ms != st[:-1] or ml != [st[k + 1] - st[k] for k in range(p)]:
            fail('%s axis %d: tables differ from reference n=%d p=%d' % (tag, i, n, p))
        if int(lay.starts[i]) != st[rk[i]] or int(lay.ends[i]) != st[rk[i] + 1]:
            fail('%s axis %d: starts/ends %s %s expected %d %d' % (tag, i, lay.starts[i], lay.ends[i], st[rk[i]], st[rk[i] + 1]))
        if int(lay.max_block_shape[i]) != max(st[k + 1] - st[k] for k in range(p)):
            fail('%s axis %d: max_block_shape %s' % (tag, i, lay.max_block_shape[i]))
        shape.append(st[rk[i] + 1] - st[rk[i]])
    if tuple(int(x) for x in lay.shape) != tuple(shape):
        fail('%s: shape %s expected %s' % (tag, lay.shape, shape))
    if int(lay.size) != int(np.prod(shape, dtype=object)):
        fail('%s: size %s' % (tag, lay.size))
    if tuple(lay.fullShape) != tuple(sizes[j] for j in order):
        fail('%s: fullShape' % tag)
    if int(lay.max_block_size) != int(np.prod([int(x) for x in lay.max_block_shape], dtype=object)):
        fail('%s: max_block_size' % tag)
    if tuple(lay.inv_dims_order) != tuple(list(order).index(j) for j in range(nd)):
        fail('%s: inv_dims_order' % tag)


# ----------------------------------------------------------- part 1: Layout 1D
def part1():
    NMAX = 72
    for n in range(1, NMAX + 1):
        grids = [range(n), range(3)]
        for p in range(1, n + 1):
            rks = range(p) if n <= 36 else sorted({0, 1 % p, p // 2, p - 1})
            for r in rks:
                for order in ([0, 1], [1, 0]):
                    if order == [1, 0] and p > 3:
                        continue
                    lay = Layout('l', [p], order, grids, [r])
                    check_layout(lay, [p], order, [n, 3], [r], 'n=%d p=%d r=%d order=%s' % (n, p, r, order))
    # a few large extents (python range objects as grids: only len is used)
    for n, p in ((1000, 7), (1000, 999), (4099, 64), (65537, 4099)):
        for r in (0, p // 3, p - 1):
            lay = Layout('l', [p], [0], [range(n)], [r])
            check_layout(lay, [p], [0], [n], [r], 'n=%d p=%d r=%d' % (n, p, r))


# ------------------------------------------------ part 2: Layout, 2D proc grid
def part2():
    sizes = [10, 7, 5, 9]
    grids = [np.linspace(0, 1, s) for s in sizes]
    orders = [[0, 1, 2, 3], [0, 3, 1, 2], [0, 2, 1, 3], [3, 2, 1, 0], [2, 3, 0, 1], [1, 2, 3, 0], [3, 0, 2, 1]]
    for order in orders:
        for nprocs in ([1, 1], [2, 3], [3, 2], [5, 4], [4, 1], [1, 5], [3], [2, 2, 2]):
            if any(p > sizes[order[i]] for i, p in enumerate(nprocs)):
                continue
            for coords in itertools.product(*[range(p) for p in nprocs]):
                lay = Layout('l', list(nprocs), order, grids, list(coords))
                check_layout(lay, nprocs, order, sizes, coords, 'order=%s nprocs=%s rank=%s' % (order, nprocs, coords))
    # several layouts created one after the other, then all re-checked
    made = []
    for order in orders:
        made.append((order, Layout('l%s' % order, [3, 2], order, grids, [1, 1])))
    for order, lay in made:
        check_layout(lay, [3, 2], order, sizes, [1, 1], 'after-all order=%s' % order)


# ------------------------------------ part 3: handler, buffer, transposes, grid
def ref_buffer_size(layouts, nprocs, sizes, coords):
    """ independent: the largest padded all-to-all block over direct pairs """
    names = list(layouts)
    nd = len(sizes)
    procs = list(nprocs) + [1] * (nd - len(nprocs))
    rk = list(coords) + [0] * (nd - len(nprocs))

    def shape(order):
        out = []
        for i in range(nd):
            st = ref_starts(sizes[order[i]], procs[i])
            out.append(st[rk[i] + 1] - st[rk[i]])
        return out

    def ceil(a, b):
        return -(-a // b)
    best = int(np.prod(shape(layouts[names[0]])))
    for a, b in itertools.permutations(names, 2):
        oa, ob = layouts[a], layouts[b]
        diff = [i for i, p in enumerate(nprocs) if p > 1 and oa[i] != ob[i]]
        if len(diff) > 1:
            continue
        sh = shape(oa)
        if diff:
            i = diff[0]
            j = list(oa).index(ob[i])
            sh[i] = ceil(sizes[oa[i]], procs[i])
            sh[j] = ceil(sizes[ob[i]], procs[i])
            best = max(best, int(np.prod(sh)) * procs[i])
        else:
            best = max(best, int(np.prod(sh)))
    return best


def fval(idx):
    """ value of the test function at global indices (eta1..eta4 order) """
    v = 0
    for k, x in enumerate(idx):
        v = v * 101 + (x + 1) * (k + 2)
    return float(v)


def check_grid(grid, lay, sizes, grids, tag):
    order = lay.dims_order
    nd = len(order)
    for rep in range(2):   # every accessor is called twice
        for i in range(nd):
            s, e = int(lay.starts[i]), int(lay.ends[i])
            ref_vals = [grids[order[i]][g] for g in range(s, e)]
            got = list(grid.getCoords(i))
            if got != list(enumerate(ref_vals)):
                fail('%s: getCoords(%d) call %d -> %d items, expected %d' % (tag, i, rep + 1, len(got), len(ref_vals)))
            if list(grid.getCoordVals(i)) != ref_vals:
                fail('%s: getCoordVals(%d) call %d' % (tag, i, rep + 1))
            if list(grid.getGlobalIdxVals(i)) != list(range(s, e)):
                fail('%s: getGlobalIdxVals(%d) call %d' % (tag, i, rep + 1))
        for j in range(nd):
            i = list(order).index(j)
            s, e = int(lay.starts[i]), int(lay.ends[i])
            try:
                got = list(grid.getEta(j))
            except AttributeError:
                got = None     # known defect of some versions of the library
            if got is not None and got != list(enumerate(grids[j][g] for g in range(s, e))):
                fail('%s: getEta(%d) call %d' % (tag, j, rep + 1))
        for loc in ((0,) * nd, tuple(int(x) - 1 for x in lay.shape), tuple(int(x) // 2 for x in lay.shape)):
            ref = [None] * nd
            for i in range(nd):
                ref[order[i]] = loc[i] + int(lay.starts[i])
            got = [int(x) for x in grid.getGlobalIndices(*loc)]
            if got != ref:
                fail('%s: getGlobalIndices%s = %s expected %s' % (tag, loc, got, ref))
    # the data held by the grid is the block of the partition
    data = grid.getAllData()
    if tuple(data.shape) != tuple(int(x) for x in lay.shape):
        fail('%s: data shape' % tag)


def expected_block(lay):
    order = lay.dims_order
    nd = len(order)
    out = np.empty([int(x) for x in lay.shape])
    for loc in np.ndindex(*out.shape):
        g = [None] * nd
        for i in range(nd):
            g[order[i]] = loc[i] + int(lay.starts[i])
        out[loc] = fval(g)
    return out


def rank_body(coords, comms, layouts, nprocs, sizes, grids, seq, errors, groups):
    tag0 = 'nprocs=%s rank=%s' % (nprocs, coords)
    try:
        with warnings.catch_warnings():
            warnings.simplefilter('ignore')
            handler = LayoutHandler(comms, list(coords), dict(layouts), list(nprocs), grids)
            refbuf = ref_buffer_size(layouts, nprocs, sizes, coords)
            if int(handler.bufferSize) < refbuf or (EXACT_BUFFER and int(handler.bufferSize) != refbuf):
                fail('%s: bufferSize %s expected %s' % (tag0, handler.bufferSize, refbuf))
            for name, order in layouts.items():
                lay = handler.getLayout(name)
                check_layout(lay, nprocs, order, sizes, coords, tag0 + ' handler layout ' + name)
                if int(lay.size) > int(handler.bufferSize):
                    fail('%s: layout %s does not fit in the buffer' % (tag0, name))
            # raw transposes with arrays of exactly the advertised size
            B = int(handler.bufferSize)
            for src, dst in seq:
                a = np.full(B, -7.0)
                b = np.full(B, -7.0)
                ls = handler.getLayout(src)
                a[:ls.size] = expected_block(ls).ravel()
                handler.transpose(a, b, src, dst)
                ld = handler.getLayout(dst)
                if not np.array_equal(b[:ld.size].reshape(ld.shape), expected_block(ld)):
                    fail('%s: transpose %s->%s wrong data' % (tag0, src, dst))
                check_layout(ld, nprocs, layouts[dst], sizes, coords, tag0 + ' after transpose ' + dst)
            # grid accessors, through layout changes and save / restore
            first = seq[0][0]
            grid = Grid(grids, [None] * len(sizes), handler, first, comm=FakeComm(), allocateSaveMemory=True)
            grid.getAllData()[:] = expected_block(handler.getLayout(first))
            check_grid(grid, handler.getLayout(first), sizes, grids, tag0 + ' grid ' + first)
            grid.saveGridValues()
            for src, dst in seq:
                if grid.currentLayout != src:
                    grid.setLayout(src)
                grid.setLayout(dst)
                lay = handler.getLayout(dst)
                check_grid(grid, lay, sizes, grids, tag0 + ' grid ' + dst)
                if not np.array_equal(grid.getAllData(), expected_block(lay)):
                    fail('%s: grid data wrong in %s' % (tag0, dst))
            grid.restoreGridValues()
            lay = handler.getLayout(first)
            check_grid(grid, lay, sizes, grids, tag0 + ' grid restored ' + first)
            if not np.array_equal(grid.getAllData(), expected_block(lay)):
                fail('%s: grid data wrong after restore' % tag0)
    except threading.BrokenBarrierError:
        pass
    except Exception as e:   # noqa
        errors.append('%s: %s: %s' % (tag0, type(e).__name__, e))
        for g in groups:
            g.barrier.abort()


def run_config(layouts, nprocs, sizes, seq):
    grids = [np.linspace(0.5, 2.5, s) + k for k, s in enumerate(sizes)]
    all_coords = list(itertools.product(*[range(p) for p in nprocs]))
    nax = len(nprocs)
    # one group per axis and per value of the other coordinates
    groups = {}
    for c in all_coords:
        for ax in range(nax):
            key = (ax,) + tuple(x for k, x in enumerate(c) if k != ax)
            if key not in groups:
                groups[key] = _Group(nprocs[ax])
    errors = []
    threads = []
    for c in all_coords:
        comms = []
        for ax in range(nax):
            key = (ax,) + tuple(x for k, x in enumerate(c) if k != ax)
            comms.append(FakeComm(groups[key], c[ax]))
        t = threading.Thread(target=rank_body, args=(c, comms, layouts, nprocs, sizes, grids, seq,
                                                     errors, list(groups.values())))
        threads.append(t)
    for t in threads:
        t.start()
    for t in threads:
        t.join()
    for e in errors:
        fail('exception ' + e)


def part3():
    L4 = {'flux_surface': [0, 3, 1, 2], 'v_parallel': [0, 2, 1, 3], 'poloidal': [3, 2, 1, 0]}
    seq4 = [('flux_surface', 'v_parallel'), ('v_parallel', 'poloidal'), ('poloidal', 'v_parallel'),
            ('v_parallel', 'flux_surface'), ('flux_surface', 'poloidal'), ('poloidal', 'flux_surface'),
            ('v_parallel', 'v_parallel')]
    for sizes, nprocs in (([6, 5, 7, 8], [1, 1]), ([6, 5, 7, 8], [2, 3]), ([7, 5, 6, 9], [3, 2]),
                          ([5, 4, 7, 6], [4, 3]), ([8, 6, 4, 8], [4, 2]), ([7, 7, 7, 7], [1, 3]),
                          ([5, 6, 7, 5], [3, 1])):
        run_config(L4, nprocs, sizes, seq4)
    L3 = {'a': [0, 1, 2], 'b': [1, 0, 2], 'c': [2, 0, 1], 'd': [1, 2, 0]}
    seq3 = [('a', 'b'), ('b', 'c'), ('c', 'd'), ('d', 'a'), ('a', 'c'), ('b', 'd'), ('d', 'b'), ('c', 'a')]
    for sizes, nprocs in (([7, 5, 4], [3]), ([9, 10, 11], [4]), ([5, 5, 5], [5]), ([6, 4, 9], [2])):
        run_config(L3, nprocs, sizes, seq3)
    run_config({'only': [1, 0]}, [2], [5, 4], [('only', 'only')])


if __name__ == '__main__':
    part1()
    part2()
    part3()
    if failures:
        print('C02 VIOLATED: %d failures' % len(failures))
        sys.exit(1)
    print('C02 holds on all checked configurations')
    sys.exit(0)
