import sys, os; sys.path.insert(0, os.getcwd())
import random
import pygyro
assert os.path.abspath(pygyro.__file__).startswith(os.path.abspath(os.getcwd()) + os.sep), pygyro.__file__
from pygyro.model.process_grid import compute_2d_process_grid, compute_2d_process_grid_from_max

# C20: the returned grid is a valid factorisation and an error is raised exactly
# when none exists -- for EVERY call, also when one Python process computes the
# grids of several resolutions for the same process count (post-processing
# tools, parameter scans, the test-suite itself).


def valid_grids(max_proc1, max_proc2, mpi_size):
    return [(a, mpi_size // a) for a in range(1, mpi_size + 1)
            if mpi_size % a == 0 and a <= max_proc1 and mpi_size // a <= max_proc2]


bad = []


def check(m1, m2, size):
    try:
        r = compute_2d_process_grid_from_max(m1, m2, size)
        got = (int(r[0]), int(r[1]))
    except RuntimeError:
        got = None
    valid = valid_grids(m1, m2, size)
    if (got is None) != (not valid) or (got is not None and got not in valid):
        bad.append((m1, m2, size, got, valid))


# minimal call sequence: 6 processes, first a grid narrow in the 2nd direction,
# then one narrow in the 1st direction
check(6, 1, 6)
check(1, 6, 6)

# 4-D front end, two resolutions with the same 12 processes
for npts in ([64, 32, 2, 64], [2, 32, 64, 64]):
    m1, m2 = min(npts[0], npts[3]), min(npts[2], npts[3])
    try:
        r = tuple(int(x) for x in compute_2d_process_grid(npts, 12))
    except RuntimeError:
        r = None
    v = valid_grids(m1, m2, 12)
    if (r is None) != (not v) or (r is not None and r not in v):
        bad.append((npts, 12, r, v))

# random call sequences re-using a few process counts
rng = random.Random(2020)
sizes = [12, 24, 36, 60, 64, 96, 120]
for _ in range(3000):
    check(rng.randint(1, 40), rng.randint(1, 40), rng.choice(sizes))

if bad:
    print("PROPERTY VIOLATED in", len(bad), "calls; first (max1, max2, size, got, valid):")
    for b in bad[:5]:
        print("  ", b)
    sys.exit(1)
print("C20 holds on every call of the sequences")
sys.exit(0)
