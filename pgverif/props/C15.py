"""C15 - quasi-neutrality pipeline: FFT round trip, mode book-keeping, m=0 convention."""
from __future__ import annotations

import ast

import sympy as sp

from ..core import src, AnalysisError, parent, same_expr
from .. import units as U
from ..symx import alg_equal
from .. import ispace as I
from .C05 import solver as solver_index_spaces, driver_typestate, orders
from .C14 import per_mode, ViewedCheck, flat_view, flat_function, env_of, mode_loop, _stmt_of, _block_of, _own_exprs, copy_store

QN = "QuasiNeutralitySolver"
DES = "DiffEqSolver"
DF = "DensityFinder"

# libraries whose fft / ifft are the unnormalised forward transform and its 1/n inverse, in the mode order of np.fft.fftfreq
FFT_MODULES = {"scipy.fftpack", "scipy.fft", "numpy.fft"}


def _imports(tree):
    """local name -> dotted origin, for module-level imports"""
    out = {}
    for n in tree.body:
        if isinstance(n, ast.ImportFrom) and n.module and not n.level:
            for a in n.names:
                out[a.asname or a.name] = f"{n.module}.{a.name}"
        elif isinstance(n, ast.Import):
            for a in n.names:
                if a.asname:
                    out[a.asname] = a.name
                else:
                    out[a.name.split(".")[0]] = a.name.split(".")[0]
    return out


def _origin(func, imports):
    """dotted origin of a called name / attribute chain, e.g. scipy.fftpack.fft"""
    parts = []
    e = func
    while isinstance(e, ast.Attribute):
        parts.append(e.attr)
        e = e.value
    if not isinstance(e, ast.Name):
        return None
    root = imports.get(e.id)
    if root is None:
        return None
    if root == "np":
        root = "numpy"
    return ".".join([root] + parts[::-1])


def _transform_kind(call, imports):
    """'fft' / 'ifft' / another function of a transform library / None"""
    o = _origin(call.func, imports)
    if o is None:
        return None
    modname, _, fname = o.rpartition(".")
    if modname in FFT_MODULES:
        return fname
    return None


def grid_storage_is_contiguous(chk):
    """Grid.getAllData() returns self._f and every self._f is `np.split(<1-D buffer>, [n])[0].reshape(shape)`: a C-contiguous view,
    whose reshape to (-1, last extent) is again a view made of the lines along the last axis"""
    try:
        mod = chk.mod(U.GRID)
        ga = chk.func(U.GRID, "Grid.getAllData")
    except AnalysisError:
        return False
    rets = [n for n in ast.walk(ga) if isinstance(n, ast.Return)]
    if len(rets) != 1 or src(rets[0].value) != "self._f":
        return False
    defs = [n for n in ast.walk(mod.tree) if isinstance(n, ast.Assign) and any(src(t) == "self._f" for t in n.targets)]
    if not defs:
        return False
    for d in defs:
        v = d.value
        if not (isinstance(v, ast.Call) and isinstance(v.func, ast.Attribute) and v.func.attr == "reshape"):
            return False
        b = v.func.value
        if not (isinstance(b, ast.Subscript) and isinstance(b.slice, ast.Constant) and b.slice.value == 0 and isinstance(b.value, ast.Call)
                and src(b.value.func) in ("np.split", "numpy.split")):
            return False
    return True


def all_data_is_storage(chk):
    """Grid.getAllData() returns the grid's own array (self._f), not a copy: a store through it changes the grid"""
    try:
        ga = chk.func(U.GRID, "Grid.getAllData")
    except AnalysisError:
        return False
    rets = [n for n in ast.walk(ga) if isinstance(n, ast.Return)]
    return len(rets) == 1 and src(rets[0].value) == "self._f"


# ---------------------------------------------------------------------------------------------------------
# a real-input transform completed by Hermitian symmetry: rfft of the real part gives the modes 0 .. n//2 of the line, the other
# positions are the conjugates of their mirror images, X[n - k] = conj(X[k]).  Whether every position of the line is written, with
# the right mirror image, is a tiling question on index ranges that are affine in h = n // 2 and n: decided for both parities of n
# (n = 2h and n = 2h + 1), never assumed from one of them.
# ---------------------------------------------------------------------------------------------------------

H_SYM, N_SYM = sp.Symbol("h", integer=True, positive=True), sp.Symbol("n", integer=True, positive=True)


def _line_length_forms(v, arg):
    """the expressions that denote the number of points of a line (the last axis of the 3-D layout); `v` = the names / expressions
    of the line itself"""
    g = f"{arg}.getLayout({arg}.currentLayout).shape"
    out = {f"{g}[-1]", f"{g}[2]", f"len({arg}.getCoordVals(2))", f"{arg}.getCoordVals(2).size"}
    for x in ([v] if isinstance(v, str) else v):
        out |= {f"len({x})", f"{x}.size", f"{x}.shape[0]", f"{x}.shape[-1]"}
    return out


def _affine(e, v, arg):
    """index expression -> sympy over h = (line length) // 2 and n = line length; KeyError when it is anything else"""
    if isinstance(e, ast.Constant) and isinstance(e.value, int) and not isinstance(e.value, bool):
        return sp.Integer(e.value)
    t = src(e).replace(" ", "")
    forms = {x.replace(" ", "") for x in _line_length_forms(v, arg)}
    if t in forms:
        return N_SYM
    if isinstance(e, ast.BinOp) and isinstance(e.op, ast.FloorDiv) and src(e.right) == "2" and src(e.left).replace(" ", "") in forms:
        return H_SYM
    if isinstance(e, ast.BinOp) and isinstance(e.op, (ast.Add, ast.Sub)):
        a, b = _affine(e.left, v, arg), _affine(e.right, v, arg)
        return a + b if isinstance(e.op, ast.Add) else a - b
    if isinstance(e, ast.UnaryOp) and isinstance(e.op, ast.USub):
        return -_affine(e.operand, v, arg)
    raise KeyError(src(e))


def _positions(sl, v, arg, env, use, parity):
    """(first position, step, count) of the positions a slice of the line selects, for n = 2h (parity 0) or n = 2h + 1 (parity 1),
    h large enough for every sign to be that of the leading term; KeyError when the slice is not followed"""
    if not isinstance(sl, ast.Slice):
        raise KeyError(src(sl))
    n_val = 2 * H_SYM + parity

    def val(x):
        return sp.expand(_affine(env.x(x, use=use), v, arg).subs(N_SYM, n_val))

    def negative(x):
        c1 = x.coeff(H_SYM, 1)
        return c1 < 0 or (c1 == 0 and x.coeff(H_SYM, 0) < 0)
    step = 1
    if sl.step is not None:
        st_ = val(sl.step)
        if st_ not in (1, -1):
            raise KeyError("step " + src(sl.step))
        step = int(st_)

    def norm(x):
        return sp.expand(x + n_val) if negative(x) else x
    if step == 1:
        lo = norm(val(sl.lower)) if sl.lower is not None else sp.Integer(0)
        hi = norm(val(sl.upper)) if sl.upper is not None else n_val
        return lo, 1, sp.expand(hi - lo)
    lo = norm(val(sl.lower)) if sl.lower is not None else n_val - 1
    hi = norm(val(sl.upper)) if sl.upper is not None else sp.Integer(-1)
    return lo, -1, sp.expand(lo - hi)


def hermitian_completion(fn, env, c, st, arg):
    """(verdict, text) for `line[:h+1] = rfft(line.real)` followed by stores of conjugated mirror images: True when for both
    parities of the line length every position p > h receives conj(X[n - p]) and no position is left unwritten, False with the
    diagnosis when a position is provably never written for one parity, None when the construction is not followed"""
    if len(c.args) != 1 or any(k.arg != "overwrite_x" for k in c.keywords):
        return None, "options of the real-input transform not followed"
    a0 = c.args[0]
    base = a0.value if isinstance(a0, ast.Attribute) and a0.attr == "real" else (
        a0.args[0] if isinstance(a0, ast.Call) and src(a0.func) in ("np.real", "numpy.real") and len(a0.args) == 1 else None)
    if not isinstance(base, ast.Name):
        return None, "the real-input transform is not applied to the real part of a named line"
    v = base.id
    line = env.x(base, use=st)
    if not (isinstance(line, ast.Call) and src(line.func) == f"{arg}.get1DSlice") or env.amb:
        return None, f"`{v}` is not a line {arg}.get1DSlice(...)"
    vnames = (v, src(line))
    blk, k0 = _block_of(st)
    if blk is None:
        return None, "statement block not found"
    first, mirrors = None, []
    for s2 in blk:
        names = [x for x in ast.walk(s2) if isinstance(x, ast.Name) and x.id == v]
        if not names:
            continue
        if isinstance(s2, ast.Assign) and len(s2.targets) == 1 and isinstance(s2.targets[0], ast.Name) and s2.targets[0].id == v:
            continue                                        # the definition of the view
        if isinstance(s2, ast.Assign) and all(isinstance(t_, ast.Name) for t_ in s2.targets) and all(
                (isinstance(parent(x), ast.Call) and src(parent(x).func) == "len") or
                (isinstance(parent(x), ast.Attribute) and parent(x).attr in ("size", "shape")) for x in names):
            continue                                        # a local computed from the length of the line only
        if not (isinstance(s2, ast.Assign) and len(s2.targets) == 1 and isinstance(s2.targets[0], ast.Subscript)
                and isinstance(s2.targets[0].value, ast.Name) and s2.targets[0].value.id == v):
            return None, f"`{src(s2)[:50]}` uses the line in a way that is not followed"
        if s2 is st and s2.value is c:
            first = s2
            continue
        val = s2.value
        inner = None
        if isinstance(val, ast.Call) and src(val.func) in ("np.conj", "np.conjugate", "numpy.conj", "numpy.conjugate") and len(val.args) == 1:
            inner = val.args[0]
        elif isinstance(val, ast.Call) and isinstance(val.func, ast.Attribute) and val.func.attr in ("conj", "conjugate") and not val.args:
            inner = val.func.value
        if first is None or not (isinstance(inner, ast.Subscript) and isinstance(inner.value, ast.Name) and inner.value.id == v):
            return None, f"`{src(s2)[:50]}` is not the store of conjugated mirror images of the line"
        mirrors.append((s2, inner))
    if first is None:
        return None, "the store of the transformed half into the line was not found"
    problems = []
    try:
        for parity in (0, 1):
            lo, step, cnt = _positions(first.targets[0].slice, vnames, arg, env, first, parity)
            if not (lo == 0 and step == 1 and sp.expand(cnt - (H_SYM + 1)) == 0):
                return None, f"`{src(first.targets[0])}` is not the positions 0 .. n//2 the real-input transform returns"
            top = H_SYM                                   # positions 0 .. top are written
            n_val = 2 * H_SYM + parity
            spans = []
            for s2, inner in mirrors:
                tl, ts, tc = _positions(s2.targets[0].slice, vnames, arg, env, s2, parity)
                sl_, ss, sc = _positions(inner.slice, vnames, arg, env, s2, parity)
                if sp.expand(tc - sc) != 0 or ts != -ss or sp.expand(tl + sl_ - n_val) != 0:
                    return None, f"`{src(s2)[:60]}` does not pair position p with position n - p for {'odd' if parity else 'even'} n"
                t_lo, t_hi = (tl, tl + tc - 1) if ts == 1 else (tl - tc + 1, tl)
                s_lo, s_hi = (sl_, sl_ + sc - 1) if ss == 1 else (sl_ - sc + 1, sl_)
                if sp.expand(s_lo).coeff(H_SYM, 0) < 1 and sp.expand(s_lo).coeff(H_SYM, 1) == 0 and sp.expand(s_lo) < 1 or \
                        (sp.expand(H_SYM - s_hi).coeff(H_SYM, 1) == 0 and sp.expand(H_SYM - s_hi) < 0) or \
                        sp.expand(H_SYM - s_hi).coeff(H_SYM, 1) < 0:
                    return None, f"`{src(inner)}` reads positions outside the transformed half 1 .. n//2"
                spans.append((sp.expand(t_lo), sp.expand(t_hi), s2))
            # tiling: the mirrored spans, taken from the top of the line downwards, must reach position top + 1
            need_hi = sp.expand(n_val - 1)
            for t_lo, t_hi, s2 in sorted(spans, key=lambda x: -sp.expand(x[1]).coeff(H_SYM, 1) * 10 ** 6 - sp.expand(x[1]).coeff(H_SYM, 0)):
                d = sp.expand(need_hi - t_hi)
                if not d.is_number:
                    return None, "spans of the mirrored positions not comparable"
                if d > 0:
                    problems.append((parity, need_hi, t_hi))
                    break
                need_hi = sp.expand(t_lo - 1)
            else:
                d = sp.expand(need_hi - top)
                if not d.is_number:
                    return None, "spans of the mirrored positions not comparable"
                if d > 0:
                    problems.append((parity, sp.expand(top + 1), need_hi))
    except KeyError as e:
        return None, f"index expression `{str(e)[:50]}` is not affine in the line length and its half"
    if not problems:
        return True, "positions 0 .. n//2 hold the real-input transform, every other position p the conjugate of position n - p, for even and odd n"
    parity, a_, b_ = problems[0]
    which = "odd" if parity else "even"
    okother = not any(p_[0] != parity for p_ in problems)
    rng_ = f"position {a_}" if sp.expand(a_ - b_) == 0 else f"positions {a_} .. {b_}"
    return False, (f"for {which} n = 2h{'+1' if parity else ''} (h = n//2) {rng_} of the line "
                   f"{'is' if sp.expand(a_ - b_) == 0 else 'are'} never written: the positions 0 .. h receive the real-input transform and "
                   f"the mirrored stores {[src(m_[0].targets[0]) for m_ in mirrors]} stop short of it"
                   f"{' (the even case is complete: the construction treats position n//2 as its own mirror image, which holds for even n only)' if okother and parity else ''}"
                   ": that position keeps the physical-space value of the density, so fft followed by ifft is not the identity and the "
                   "potential gets an imaginary part")


def transforms(chk):
    mod = chk.mod(U.POISSON)
    imports = _imports(mod.tree)
    results = []
    norms = {}
    for m, f, arg in (("getModes", "fft", "rho"), ("findPotential", "ifft", "phi")):
        q = f"{DES}.{m}"
        fn = flat_view(chk, U.POISSON, DES, m)
        env = env_of(chk, fn)
        inv = "ifft" if f == "fft" else "fft"
        calls = [(c, _transform_kind(c, imports)) for c in ast.walk(fn) if isinstance(c, ast.Call)]
        calls = [(c, k) for c, k in calls if k is not None]
        results.append((m, calls))
        amb = I.ambient_from_asserts(fn)
        o = amb.get(arg)
        ok, bad, why = None, None, ""
        if len(calls) == 1:
            c, kind = calls[0]
            st = _stmt_of(c)
            extra, unknown_opts = [], []
            axis_opt, out_opt = None, None
            norms[m] = "backward"
            for k in c.keywords:
                if k.arg == "overwrite_x":
                    continue
                if k.arg == "axis" and isinstance(k.value, (ast.Constant, ast.UnaryOp)) and src(k.value).lstrip("-").isdigit():
                    axis_opt = int(src(k.value))        # judged below against the number of axes of what is transformed
                    continue
                if k.arg == "norm" and isinstance(k.value, ast.Constant) and k.value.value in (None, "backward", "ortho", "forward"):
                    # AUDIT: the normalisation is a contract between the two transforms (the solve between them is linear): judged
                    # for the pair, not against the default
                    norms[m] = k.value.value or "backward"
                    continue
                if k.arg == "norm":
                    norms[m] = None
                if k.arg == "out":
                    out_opt = k.value
                    continue
                unknown_opts.append(f"{k.arg}={src(k.value)}")
            if len(c.args) > 1:
                unknown_opts += [src(a) for a in c.args[1:]]
            # where the transformed line comes from and where the result goes
            line = env.x(c.args[0], use=st) if c.args else None
            store = None
            cp = copy_store(st) if isinstance(st, ast.Expr) else None
            if out_opt is not None and isinstance(st, (ast.Expr, ast.Assign)) and st.value is c:
                # fft(line, out=target): the result is written into `target`
                store = ast.Assign(targets=[ast.Subscript(value=out_opt, slice=ast.Slice(lower=None, upper=None, step=None), ctx=ast.Store())],
                                   value=c)
                ast.copy_location(store, st)
                ast.fix_missing_locations(store)
                store._use = st
            elif cp is not None and cp[1] is c:
                # np.copyto(line, fft(line)) is the slice assignment line[:] = fft(line)
                store = ast.Assign(targets=[cp[0]], value=c)
                ast.copy_location(store, st)
                store._use = st
            elif isinstance(st, ast.Assign) and isinstance(st.targets[0], ast.Subscript) and st.value is c:
                store = st
            elif isinstance(st, ast.Assign) and isinstance(st.targets[0], ast.Name) and st.value is c:
                nm = st.targets[0].id
                blk, k0 = _block_of(st)
                for s2 in (blk or [])[k0 + 1:]:
                    if isinstance(s2, ast.Assign) and isinstance(s2.targets[0], ast.Subscript) and src(s2.value) == nm:
                        store = s2
                        break
            loops = []
            p_ = parent(st)
            while p_ is not None and p_ is not fn:
                if isinstance(p_, ast.For):
                    loops.append(p_)
                p_ = parent(p_)
            shape = None          # how the lines are enumerated
            if store is not None and line is not None:
                tgt = env.x(store.targets[0].value, use=getattr(store, "_use", store))
                whole = src(store.targets[0].slice).replace(" ", "") in (":", "...")
                if whole and len(loops) == 2:
                    its = [env.x(l_.iter) for l_ in loops[::-1]]
                    vars_ = [src(l_.target.elts[0]) if isinstance(l_.target, ast.Tuple) and l_.target.elts else None for l_ in loops[::-1]]
                    if all(v is not None for v in vars_) and same_expr(its[0], f"{arg}.getCoords(0)") and same_expr(its[1], f"{arg}.getCoords(1)"):
                        want = f"{arg}.get1DSlice({vars_[0]}, {vars_[1]})"
                        if same_expr(line, want) and same_expr(tgt, want):
                            shape = "slices"
                        elif same_expr(line, f"{arg}.get1DSlice({vars_[1]}, {vars_[0]})") or same_expr(tgt, f"{arg}.get1DSlice({vars_[1]}, {vars_[0]})"):
                            shape = "swapped"
                        elif src(line) != src(tgt) and isinstance(line, ast.Call) and isinstance(tgt, ast.Call) and \
                                src(line.func) == src(tgt.func) == f"{arg}.get1DSlice":
                            shape = "mismatch"
                elif whole and not loops:
                    # one batched call over the local block: every line along the last axis is transformed (axis=-1, the default)
                    if same_expr(line, f"{arg}.getAllData()") and same_expr(tgt, f"{arg}.getAllData()") and not env.amb:
                        shape = "block" if all_data_is_storage(chk) else "block?"
                elif whole and len(loops) == 1 and isinstance(loops[0].target, ast.Name):
                    v_ = loops[0].target.id
                    it = env.x(loops[0].iter)
                    if src(line) == v_ and src(tgt) == v_ and \
                            same_expr(it, f"{arg}.getAllData().reshape(-1, {arg}.getAllData().shape[-1])"):
                        shape = "rows" if grid_storage_is_contiguous(chk) else "rows?"
            # the option axis=<k>: the axis of what is transformed (a line has one axis, the local block three)
            ndim = {"slices": 1, "rows": 1, "block": 3}.get(shape)
            if axis_opt is not None:
                if ndim is None:
                    unknown_opts.append(f"axis={axis_opt}")
                elif axis_opt not in (-1, ndim - 1):
                    extra.append(f"axis={axis_opt}")
            direct = shape in ("slices", "rows", "block") and store is not None and store.value is c
            und_why = None
            # AUDIT (kind): "another function of the transform library" is a defect only for a recognised wrong form - the inverse
            # transform applied directly to the line and stored as it is.  Any other function (a real-input transform completed by
            # Hermitian symmetry, an n-dimensional transform restricted to one axis, the inverse with conjugations around it) may be an
            # equivalent formulation: undecided
            if kind == inv and direct:
                bad = (f"{m} applies `{kind}` where the pipeline needs `{f}`: the forward and inverse transforms are exchanged, so the modes "
                       f"are scaled by 1/n and conjugated (mode m and -m exchanged) with respect to the numbering of self._mVals")
            elif kind == "rfft" and f == "fft":
                hv, hwhy = hermitian_completion(fn, env, c, st, arg)
                in_loops = len(loops) == 2 and [src(env.x(l_.iter)).replace(" ", "") for l_ in loops[::-1]] == \
                    [f"{arg}.getCoords(0)", f"{arg}.getCoords(1)"]
                if hv is False:
                    bad = f"{m} builds the modes from a real-input transform: " + hwhy
                elif hv and in_loops and o is not None and o[-1] == 1:
                    ok = True
                    why = (f"every (r,z) line of the asserted layout {o} receives the modes of its real part: " + hwhy +
                           " (the density is real when it is transformed: S-spectral-state)")
                else:
                    und_why = f"{m} applies the real-input transform `rfft`: " + (hwhy if not hv else "enumeration of the lines not followed")
            elif kind != f:
                und_why = (f"{m} applies `{kind}` instead of the complex transform `{f}`: whether what is built around it gives every mode "
                           "of the line in the order of np.fft.fftfreq is not followed")
            # AUDIT (the remaining diagnoses): an axis option is judged against the number of axes of what is transformed (known
            # only when the enumeration of the lines was recognised); the layout is the one the method itself asserts; `swapped` /
            # `mismatch` compare the line read with the line written, both taken from the same loops; "never written back" needs
            # the result to be dropped (an expression statement, or a name never read) and no out= argument
            elif extra:
                bad = (f"`{f}` is called with the options {extra}: the plain transform (default normalisation, along the line) is what makes "
                       "ifft(fft(x)) = x and puts mode m of np.fft.fftfreq at position m of the output")
            elif o is not None and o[-1] != 1 and shape in ("slices", "rows", "block"):
                bad = (f"the asserted layout {o} does not have theta as its last (contiguous) axis: the lines that are transformed are not "
                       "poloidal lines")
            elif shape == "swapped":
                bad = f"the line is taken with the (r, z) indices exchanged (`{src(line)}`)"
            elif shape == "mismatch":
                bad = f"the transform of `{src(line)}` is written to a different line `{src(tgt)}`"
            elif store is None and isinstance(st, (ast.Expr, ast.Assign)) and ((isinstance(st, ast.Expr) and st.value is c) or (
                    isinstance(st, ast.Assign) and st.value is c and
                    isinstance(st.targets[0], ast.Name) and not any(isinstance(n, ast.Name) and n.id == st.targets[0].id and
                                                                    isinstance(n.ctx, ast.Load) for n in ast.walk(fn)))):
                bad = (f"the result of `{f}` is never written back to the grid (overwrite_x only permits, it does not guarantee, "
                       "in-place operation): the grid keeps the untransformed data")
            elif shape in ("slices", "rows", "block") and o is not None and o[-1] == 1 and not unknown_opts:
                ok = True
                why = (f"every (r,z) line of the asserted layout {o} is replaced by its {f} along theta (last axis), standard mode order" +
                       (" - lines taken as the rows of the contiguous local array" if shape == "rows" else
                        " - one batched transform along the last axis of the local block, written back into the grid's storage"
                        if shape == "block" else ""))
        else:
            und_why = None
        if not ok and not bad and und_why:
            chk.ob("F5-transform-pair", fn, f"{m}: {f} along theta, in place", None, und_why, file=U.POISSON, func=q)
        else:
            chk.pat("F5-transform-pair", fn, f"{m}: {f} along theta, in place", ok, why, bad, file=U.POISSON, func=q)
    # the two transforms are mutually inverse only when their normalisations correspond (same mode on both sides)
    if len(norms) == 2 and all(v is not None for v in norms.values()):
        same = norms["getModes"] == norms["findPotential"]
        chk.ob("F5-transform-pair", mod.tree, "normalisation of the pair fft / ifft", same,
               f"both transforms use norm='{norms['getModes']}': ifft(fft(x)) = x" if same else
               f"getModes transforms with norm='{norms['getModes']}' and findPotential with norm='{norms['findPotential']}': the two are not "
               "inverse to each other, the potential is scaled by a power of the number of theta points", file=U.POISSON, func="<module>",
               nontrivial=False)
    elif norms:
        chk.ob("F5-transform-pair", mod.tree, "normalisation of the pair fft / ifft", None,
               f"normalisation options not both resolved: {norms}", file=U.POISSON, func="<module>")
    # the names the calls go through
    resolved = all(cs for _, cs in results)
    wrong = {nm: o for nm, o in imports.items() if nm in ("fft", "ifft") and o.rpartition(".")[0] in FFT_MODULES and o.rpartition(".")[2] != nm}
    bad = None
    if wrong:
        bad = f"the name(s) {sorted(wrong)} are bound to a different transform by the imports: {wrong}"
    imp = [n for n in mod.tree.body if isinstance(n, ast.ImportFrom) and n.module in FFT_MODULES]
    chk.pat("F5-transform-pair", imp[0] if imp else mod.tree, "fft / ifft of a standard transform library", resolved and not wrong,
            "the transforms called are fft / ifft of a standard library under their own names: the unnormalised forward transform and "
            "its 1/n inverse", bad, file=U.POISSON, func="<module>")


def _numeric_modes(text):
    """True / (False, diagnosis) / None: does the expression over nTheta evaluate to np.fft.fftfreq(n, 1/n) for n = 1..16?"""
    try:
        import numpy as np
    except Exception:
        return None
    allowed_funcs = {"np.fft.fftfreq", "numpy.fft.fftfreq", "np.arange", "numpy.arange", "np.round", "np.rint", "numpy.round", "numpy.rint",
                     "float", "int",
                     # reorderings between the centred order (-n/2 .. n/2) and the transform's order: the two shifts are the same
                     # permutation only for an even number of points, so they are evaluated for both parities, never assumed equal
                     "np.fft.fftshift", "numpy.fft.fftshift", "np.fft.ifftshift", "numpy.fft.ifftshift", "np.roll", "numpy.roll",
                     "np.concatenate", "numpy.concatenate", "np.array", "np.asarray", "numpy.array", "numpy.asarray"}
    try:
        tree = ast.parse(text, mode="eval")
    except SyntaxError:
        return None
    for n in ast.walk(tree):
        if isinstance(n, ast.Call):
            f = src(n.func)
            if not (f in allowed_funcs or (isinstance(n.func, ast.Attribute) and n.func.attr == "astype")):
                return None
        elif isinstance(n, ast.Name) and n.id not in ("np", "numpy", "nTheta", "float", "int", "complex"):
            return None
        elif isinstance(n, (ast.Subscript, ast.Lambda, ast.ListComp, ast.GeneratorExp, ast.DictComp, ast.SetComp, ast.NamedExpr, ast.Starred)):
            return None
    try:
        code = compile(tree, "<modes>", "eval")
        first, wrong_n = None, []
        for n in range(1, 17):
            got = np.asarray(eval(code, {"__builtins__": {}}, {"np": np, "numpy": np, "nTheta": n, "float": float, "int": int, "complex": complex}))
            want = np.fft.fftfreq(n, 1 / n)
            if got.shape != want.shape or not np.allclose(got, want, rtol=0, atol=1e-9):
                wrong_n.append(n)
                if first is None or (n >= 3 and first[0] < 3):
                    first = (n, got, want)
        if first is not None:
            n, got, want = first
            parity = ""
            if all(k % 2 == 1 for k in wrong_n) and len(wrong_n) >= 7:
                parity = " (every odd nTheta is affected, the even ones are not)"
            elif all(k % 2 == 0 for k in wrong_n) and len(wrong_n) >= 7:
                parity = " (every even nTheta is affected, the odd ones are not)"
            if "fftshift(" in text and "ifftshift(" not in text and parity:
                parity += ("; np.fft.fftshift takes the transform's order to the centred order, the way back is np.fft.ifftshift: the two are "
                           "the same permutation only for an even number of points")
            return False, (f"for nTheta={n} the mode numbers are {np.round(got, 3).tolist() if got.size <= 8 else str(np.round(got, 3).tolist())[:60]} "
                           f"instead of the transform's numbering {want.tolist() if want.size <= 8 else str(want.tolist())[:60]}{parity}")
        return True
    except Exception:
        return None


def mode_numbers(chk):
    """mode numbers in the order of the transform's output"""
    fn = flat_view(chk, U.POISSON, DES, "__init__")
    env = env_of(chk, fn)
    q = f"{DES}.__init__"
    defs = [n for n in fn.body if isinstance(n, ast.Assign) and src(n.targets[0]) == "self._mVals"]
    if len(defs) != 1:
        raise AnalysisError("C15: definition of self._mVals not found")
    # the numbering is that of the base of an elementwise power (`fftfreq(...) ** 2`: which power the table holds is the business of
    # the mode-table analysis of C14, F4-mode-bookkeeping / F4-mode-power)
    from .C14 import strip_power
    v, _ = strip_power(defs[0].value)
    # in-place modifications of the table (other than the squaring of the whole table) or of the local it is built from
    base = "self._mVals"
    inner = v
    if isinstance(inner, ast.Call) and isinstance(inner.func, ast.Attribute) and inner.func.attr == "astype":
        inner = inner.func.value
    bv = v
    if isinstance(inner, ast.Name):
        ld = [n for n in fn.body if isinstance(n, ast.Assign) and src(n.targets[0]) == inner.id]
        if len(ld) == 1:
            base, bv = inner.id, ld[0].value
    mods = [n for n in ast.walk(fn) if isinstance(n, (ast.Assign, ast.AugAssign)) and any(
        isinstance(t, ast.Subscript) and src(t.value) in ("self._mVals", base)
        for t in (n.targets if isinstance(n, ast.Assign) else [n.target]))]
    # element-by-element raising of the whole table to a power (recognised by the mode-table analysis of C14) keeps the numbering
    from .C14 import mode_tables
    powered = {id(h[2]) for h in mode_tables(chk).hist.get("self._mVals", []) if h[1] is not None}
    mods = [n for n in mods if id(n) not in powered]
    if not mods:
        ex = env.x(v, use=defs[0])
        amb_ = set(env.amb)
        ex, _ = strip_power(ex)
        res = _numeric_modes(src(ex)) if not amb_ else None
        if res is True:
            chk.ob("F5-mode-numbers", defs[0], src(defs[0]), True,
                   "mode numbers are the integer frequencies in the transform's own output order (0..,-..-1), for even and odd counts "
                   "(evaluated for nTheta = 1..16)", file=U.POISSON, func=q)
            return
        # AUDIT: the defining expression is closed over nTheta (constructor argument, every local resolved, no in-place modification
        # of the table other than the elementwise powers accounted for by C14) and is evaluated against np.fft.fftfreq for
        # nTheta = 1..16, both parities: the mismatch reported is an arithmetic fact about that expression
        if isinstance(res, tuple):
            chk.ob("F5-mode-numbers", defs[0], src(defs[0]), False,
                   f"`{src(ex)[:80]}` is not the numbering of the transform's output: {res[1]}; the per-mode operators and Neumann lists "
                   "are attached to the wrong modes", file=U.POISSON, func=q)
            return
        chk.ob("F5-mode-numbers", defs[0], src(defs[0]), None, f"mode numbers are built by `{src(ex)[:80]}`: not a recognised construction",
               file=U.POISSON, func=q)
        return
    # hand-built alternative: arange(n) with the upper part shifted by -n; the split point must be ceil(n/2)
    ok = None
    why = f"mode numbers are built by `{src(v)}` and modified in place: not a recognised construction"
    if src(bv).replace(" ", "").startswith("np.arange(nTheta") and len(mods) == 1:
        shifts = [n for n in fn.body if isinstance(n, ast.AugAssign) and isinstance(n.target, ast.Subscript)
                  and src(n.target.value) == base and isinstance(n.op, ast.Sub) and src(n.value) == "nTheta"]
        lower = None
        if len(shifts) == 1 and shifts[0] is mods[0]:
            sl = shifts[0].target.slice
            if isinstance(sl, ast.Slice) and sl.upper is None and sl.lower is not None and sl.step is None:
                lower = src(sl.lower)
            elif isinstance(sl, ast.Compare) and len(sl.ops) == 1 and src(sl.left) == base:
                # arange values equal their positions: a mask `base > T` shifts positions T+1.., `base >= T` positions T..
                if isinstance(sl.ops[0], ast.Gt):
                    lower = f"({src(sl.comparators[0])}) + 1"
                elif isinstance(sl.ops[0], ast.GtE):
                    lower = src(sl.comparators[0])
        if lower is not None:
            try:
                code = compile(ast.parse(lower, mode="eval"), "<split>", "eval")
                names = {n.id for n in ast.walk(ast.parse(lower, mode="eval")) if isinstance(n, ast.Name)}
                if names - {"nTheta"} or any(isinstance(n, (ast.Call, ast.Attribute)) for n in ast.walk(ast.parse(lower, mode="eval"))):
                    raise ValueError("not an integer expression of nTheta")
                badn = [n for n in range(1, 64) if eval(code, {"__builtins__": {}}, {"nTheta": n}) != (n + 1) // 2]
                ok = not badn
                why = ("split point equals ceil(n/2) for both parities" if ok else
                       f"the part shifted by -nTheta starts at `{lower}`, which differs from ceil(nTheta/2) for nTheta={badn[:4]}...: "
                       "the top mode gets the opposite sign to the transform's numbering (np.fft.fftfreq), so Neumann lists naming it do not match "
                       "and/or +m and -m are confused")
            except Exception as e:
                why = f"split point `{lower}` not evaluable: {e}"
    chk.ob("F5-mode-numbers", defs[0], src(defs[0]), ok, why, file=U.POISSON, func=q)


CHI = sp.Symbol("chi")


def lam(e, env=None, fn=None, at=None):
    """lambda r: <expr>  ->  sympy expression over r and uninterpreted n0(r), Te(r), g(r)=n0'/n0, B"""
    if isinstance(e, ast.Name) and env is not None:
        r_ = env.reaching(e.id, at) if at is not None else ("opaque",)
        if r_[0] == "def" and isinstance(r_[2], ast.Lambda):
            e = r_[2]
        elif fn is not None:
            fd = [n for n in ast.walk(fn) if isinstance(n, ast.FunctionDef) and n is not fn and n.name == e.id]
            if len(fd) == 1 and len(fd[0].body) == 1 and isinstance(fd[0].body[0], ast.Return) and len(fd[0].args.args) == 1:
                e = ast.Lambda(args=fd[0].args, body=fd[0].body[0].value)
    if not isinstance(e, ast.Lambda) or len(e.args.args) != 1:
        raise KeyError(src(e))
    arg = e.args.args[0].arg
    r = sp.Symbol("r", positive=True)
    fns = {"n0": sp.Function("n0"), "Te": sp.Function("Te"), "n0derivNormalised": sp.Function("g")}
    Bs = sp.Symbol("B")

    def cv(x):
        if isinstance(x, ast.Name):
            if x.id == arg:
                return r
            if x.id == "B":
                return Bs
            if x.id == "chi":
                return CHI
            raise KeyError(x.id)
        if isinstance(x, ast.Constant) and isinstance(x.value, (int, float)) and not isinstance(x.value, bool):
            return sp.nsimplify(x.value)
        if isinstance(x, ast.BinOp) and type(x.op) in (ast.Add, ast.Sub, ast.Mult, ast.Div, ast.Pow):
            a, b = cv(x.left), cv(x.right)
            return {ast.Add: a + b, ast.Sub: a - b, ast.Mult: a * b, ast.Div: a / b, ast.Pow: a ** b}[type(x.op)]
        if isinstance(x, ast.UnaryOp) and isinstance(x.op, ast.USub):
            return -cv(x.operand)
        if isinstance(x, ast.UnaryOp) and isinstance(x.op, ast.UAdd):
            return cv(x.operand)
        if isinstance(x, ast.Call) and isinstance(x.func, ast.Name) and x.func.id in fns and len(x.args) == 1 and not x.keywords:
            return fns[x.func.id](cv(x.args[0]))
        raise KeyError(src(x))
    return cv(e.body), r, fns, Bs


def electron_branch(node, stop=None):
    """'kinetic' / 'adiabatic': the branch of the `adiabaticElectrons` test that contains the node; 'both' when no such test
    encloses it; None when the test is not recognised"""
    cur, p = node, parent(node)
    while p is not None and p is not stop:
        if isinstance(p, ast.If):
            t = src(p.test).replace("(", "").replace(")", "").replace(" ", "")
            pol = {"notadiabaticElectrons": False, "adiabaticElectrons": True, "adiabaticElectrons==False": False,
                   "adiabaticElectronsisFalse": False, "adiabaticElectrons==True": True, "adiabaticElectronsisTrue": True,
                   "adiabaticElectronsisnotTrue": False, "adiabaticElectrons!=True": False}.get(t)
            if pol is not None:
                in_body = any(cur is x for x in p.body)
                return "adiabatic" if pol == in_body else "kinetic"
            if "adiabaticElectrons" in t:
                return None
        cur, p = p, parent(p)
    return "both"


def chi_values(node, stop):
    """the values of chi in {0, 1} under which the statement runs, from the enclosing tests on chi; None when a test is not recognised"""
    vals = {0, 1}
    cur, p = node, parent(node)
    while p is not None and p is not stop:
        if isinstance(p, ast.If) and any(isinstance(x, ast.Name) and x.id == "chi" for x in ast.walk(p.test)):
            t = src(p.test).replace("(", "").replace(")", "").replace(" ", "")
            in_body = any(cur is x for x in p.body)
            sel = None
            for v_ in (0, 1):
                if t in (f"chi=={v_}", f"{v_}==chi"):
                    sel = {v_} if in_body else {0, 1} - {v_}
                elif t in (f"chi!={v_}", f"{v_}!=chi"):
                    sel = {0, 1} - {v_} if in_body else {v_}
            if t in ("chiin0,1", "chiin[0,1]", "chiin{0,1}") and in_body:
                sel = {0, 1}
            elif t in ("chinotin0,1", "chinotin[0,1]", "chinotin{0,1}") and not in_body:
                sel = {0, 1}
            if sel is None:
                return None
            vals &= sel
        cur, p = p, parent(p)
    return vals


def chi_guarded(node, stop):
    """is the statement inside a test that mentions chi?"""
    p = parent(node)
    while p is not None and p is not stop:
        if isinstance(p, ast.If) and any(isinstance(x, ast.Name) and x.id == "chi" for x in ast.walk(p.test)):
            return True
        p = parent(p)
    return False


def kinetic_chi(fn):
    """the value the local `chi` holds in the kinetic-electron configuration: ("const", v, stmt) when the only binding of chi that
    configuration runs is `chi = <integer literal>` in the kinetic branch of the adiabaticElectrons test; ("unknown",) otherwise
    (no binding, a formal parameter, a binding outside the test, any other form)"""
    cands, unknown = [], False
    if any(a.arg == "chi" for a in fn.args.args + fn.args.kwonlyargs + fn.args.posonlyargs):
        unknown = True
    for n in ast.walk(fn):
        if isinstance(n, ast.Name) and n.id == "chi" and isinstance(n.ctx, ast.Store):
            st = _stmt_of(n)
            br = electron_branch(st, fn)
            if br == "adiabatic":
                continue
            if br == "kinetic" and isinstance(st, ast.Assign) and len(st.targets) == 1 and st.targets[0] is n and \
                    isinstance(st.value, ast.Constant) and type(st.value.value) is int and \
                    isinstance(parent(st), ast.If) and electron_branch(parent(st), fn) == "both":
                cands.append(st)
            else:
                unknown = True
    if len(cands) == 1 and not unknown:
        return ("const", cands[0].value.value, cands[0])
    return ("unknown",)


def _uses_m0_operator(chk):
    """does any method of the two solver classes mention self._stiffness0?"""
    mod = chk.mod(U.POISSON)
    return any(isinstance(n, ast.Attribute) and n.attr == "_stiffness0" for c in mod.tree.body
               if isinstance(c, ast.ClassDef) and c.name in (DES, QN) for n in ast.walk(c))


def m0_generic(chk, fn, env, stiff):
    """no separate m=0 operator: the mode m=0 is solved with the operator of every mode, (blocks) - 0 * k2.  Its reaction term is
    (coefficient of the C block) x rFactor, which must be (1 - chi) B^2/Te for adiabatic electrons and 0 for kinetic ones"""
    q = f"{QN}.__init__"
    _, calls, formals = base_init_calls(chk)
    r = sp.Symbol("r", positive=True)
    Tef, Bs = sp.Function("Te"), sp.Symbol("B")
    cblock = stiff.get("self._PhiPsi", 0)
    # AUDIT: the reaction term of the common operator is (coefficient of the C block in the operator) x (factor the C block is stored
    # with) / (factor the operator as a whole carries) x rFactor: the storage conventions of the assembly are composed in
    from .C14 import block_signs
    sg = block_signs(chk)
    conv = None
    if sg.get("sigma") is not None and sg.get("blocks", {}).get("PhiPsiCoeffs") is not None:
        conv = sp.simplify(sg["blocks"]["PhiPsiCoeffs"] / sg["sigma"])
        if not conv.is_number:
            conv = None
    seen = set()
    for c in calls:
        st = _stmt_of(c)
        br = electron_branch(c, fn)
        kw = bound_arguments(c, formals)
        if br is None or kw is None:
            chk.ob("F5-m0-convention", c, "m=0 operator (no separate operator)", None, "call of DiffEqSolver.__init__ not resolved",
                   file=U.POISSON, func=q)
            continue
        try:
            rf = lam(kw["rFactor"], env, fn, st)[0] if "rFactor" in kw else sp.Integer(0)
        except KeyError as e:
            chk.ob("F5-m0-convention", c, "m=0 operator (no separate operator)", None, f"rFactor not recognised ({e})", file=U.POISSON, func=q)
            continue
        cases = []
        if br in ("kinetic", "both"):
            cases.append(("kinetic electrons", None, sp.Integer(0)))
        if br in ("adiabatic", "both"):
            vals = chi_values(st, fn)
            if vals is None:
                chk.ob("F5-m0-convention", c, "m=0 operator (no separate operator)", None, "tests on chi not recognised", file=U.POISSON, func=q)
                continue
            cases += [(f"chi={v_}", v_, (1 - v_) * Bs * Bs / Tef(r)) for v_ in sorted(vals)]
        for tag, v_, want in cases:
            got = cblock * (conv if conv is not None else 1) * (rf.subs(CHI, v_) if v_ is not None else rf)
            if got.has(CHI):
                chk.ob("F5-m0-convention", c, f"m=0 operator for {tag}: the operator of every mode", None,
                       "chi used outside the adiabatic branch", file=U.POISSON, func=q)
                continue
            ok = alg_equal(got, want)
            if not ok and conv is None:
                ok = None           # the storage convention of the C block was not established
            seen.add(tag)
            chk.ob("F5-m0-convention", c, f"m=0 operator for {tag}: the operator of every mode", ok,
                   f"no separate m=0 operator; the reaction term of the common operator is {sp.simplify(got)} = (1 - chi) B^2/Te for {tag}" if ok else
                   f"for {tag} the mode m=0 is solved with the operator of every mode, whose reaction term is {sp.simplify(got)}; the "
                   f"m=0 equation needs {want} (the flux-surface average chi*<phi> cancels the adiabatic response of m=0 only)",
                   file=U.POISSON, func=q)
    raises = any(isinstance(n, ast.Raise) and "chi" in src(parent(n) if isinstance(parent(n), ast.If) else n) for n in ast.walk(fn)) or \
        any(isinstance(n, ast.Assert) and "chi" in src(n.test) and ("0" in src(n.test) and "1" in src(n.test)) for n in ast.walk(fn))
    chk.pat("F5-m0-convention", fn, "chi in {0, 1} and kinetic electrons all define the m=0 operator; other chi refused",
            {"kinetic electrons", "chi=0", "chi=1"} <= seen and raises,
            f"cases covered: {sorted(seen)}; refusal of other chi: {raises}", None, file=U.POISSON, func=q, nontrivial=False)


def _inplace_writes(root, env, mats):
    """stores INTO the storage of one of the solver's matrices among the statements under `root`, local aliases resolved:
    [(statement, matrix attribute, form, expressions the stored value is computed from)].  Modelled forms: element / slice store and
    augmented store into `<M>[..]`, `<M>.data[..]`; `<M>.data = / op=`; augmented assignment of a local that denotes `<M>.data`;
    `out=<M>.data` of a numpy call; `np.copyto(<M>.data, ..)`; `<M>.setdiag(..)`, `<M>.data.fill(..)`.  (A slice `<M>[rows, cols]` of
    a sparse matrix that is only READ is a copy: a store into that copy is not a store into M.)"""
    def resolve(e, st):
        ex = env.x(e, use=st)
        if env.amb:
            return None, None
        b = ex
        while isinstance(b, ast.Subscript) and isinstance(b.value, (ast.Subscript, ast.Attribute)) and \
                (isinstance(b.value, ast.Subscript) or b.value.attr == "data"):
            b = b.value
        if isinstance(b, ast.Attribute) and b.attr == "data" and src(b.value) in mats:
            return src(b.value), "data"
        if ex is b and src(ex) in mats:
            return src(ex), "obj"
        return None, None
    out = []
    for st in ast.walk(root):
        if isinstance(st, (ast.Assign, ast.AugAssign)):
            aug = isinstance(st, ast.AugAssign)
            for t in (st.targets if not aug else [st.target]):
                if isinstance(t, ast.Subscript):
                    m_, kind = resolve(t.value, st)
                    if m_:
                        out.append((st, m_, f"store into `{src(t)[:40]}`", [st.value]))
                elif isinstance(t, ast.Attribute) and t.attr == "data":
                    m_, kind = resolve(t.value, st)
                    if m_ and kind == "obj":
                        out.append((st, m_, f"`{src(t)[:40]} {'op' if aug else ''}= ...`", [st.value]))
                elif aug and isinstance(t, ast.Name):
                    ld = ast.Name(id=t.id, ctx=ast.Load())
                    m_, kind = resolve(ld, st)
                    if m_ and kind == "data":
                        out.append((st, m_, f"augmented assignment of `{t.id}`, which denotes `{m_}.data`", [st.value]))
        elif isinstance(st, ast.Call):
            stm = _stmt_of(st)
            for k in st.keywords:
                if k.arg == "out":
                    m_, kind = resolve(k.value, stm)
                    if m_:
                        out.append((stm, m_, f"`{src(st.func)}(..., out={src(k.value)[:30]})`", list(st.args)))
            f_ = src(st.func)
            if f_.split(".")[-1] == "copyto" and f_.split(".")[0] in ("np", "numpy") and st.args:
                m_, kind = resolve(st.args[0], stm)
                if m_:
                    out.append((stm, m_, f"`np.copyto({src(st.args[0])[:30]}, ...)`", list(st.args[1:])))
            if isinstance(st.func, ast.Attribute) and st.func.attr in ("setdiag", "fill"):
                m_, kind = resolve(st.func.value, stm)
                if m_ and (st.func.attr == "setdiag") == (kind == "obj"):
                    out.append((stm, m_, f"`{src(st.func)[:40]}(...)`", list(st.args)))
    return out


def operator_storage(chk):
    """F5-operator-storage: the assembled matrices of the solver (the blocks, the theta-independent operator, the m = 0 operator) are
    read by every solve as the constants the constructors built; the symbolic comparison of the m = 0 operator (`self._stiffness0 =
    self._stiffnessMatrix`: the SAME object) relies on it.  A store into the storage of one of them inside the mode loop changes
    every attribute that denotes the same object."""
    from .C14 import BLOCKS, entry_points
    mats = set(BLOCKS) | {"self._stiffnessMatrix", "self._stiffness0"}
    # which attributes denote the same matrix object: `self._Y = self._M` (no copy, no arithmetic, no slice) in a constructor
    alias = {}
    for cls_ in (DES, QN):
        try:
            fi = flat_view(chk, U.POISSON, cls_, "__init__")
        except AnalysisError:
            continue
        ei = env_of(chk, fi)
        for n in ast.walk(fi):
            if isinstance(n, ast.Assign) and len(n.targets) == 1 and src(n.targets[0]) in mats:
                v = ei.x(n.value, use=n)
                if isinstance(v, ast.Attribute) and src(v) in mats and src(v) != src(n.targets[0]) and not ei.amb:
                    alias.setdefault(cls_, []).append((src(n.targets[0]), src(v), n))
    mod = chk.mod(U.POISSON)
    found = []
    seen_keys = set()
    eps = entry_points(chk)
    for cls_, m_, callee in eps:
        try:
            fn, lp, li, gi = mode_loop(chk, cls_, m_)
        except AnalysisError:
            continue
        env = env_of(chk, fn)
        for st, mat, form, vals in _inplace_writes(fn, env, mats):
            seen_keys.add((mat, form))
            found.append((cls_, m_, fn, lp, env, st, mat, form, vals, li, gi))
    for cls_, m_, fn, lp, env, st, mat, form, vals, li, gi in found:
        q = f"{cls_}.{m_}"
        in_loop = lp is not None and any(st is x for x in ast.walk(lp))
        pairs = [(y, m0, n) for c2 in ((DES, QN) if cls_ == QN else (DES,)) for (y, m0, n) in alias.get(c2, []) if mat in (y, m0)]
        partners = sorted({y if m0 == mat else m0 for y, m0, n in pairs})
        read = [p_ for p_ in partners if lp is not None and any(isinstance(x, ast.Attribute) and src(x) == p_ and isinstance(x.ctx, ast.Load)
                                                              for x in ast.walk(lp))]
        # the value stored depends on the mode: it reads a table at the mode index
        per_mode_val = any(isinstance(x, ast.Subscript) and src(x.slice) in {gi, li} - {None} for v in vals for x in ast.walk(env.x(v, use=st)))
        construct = f"{q}: {form} writes the storage of {mat}"
        if in_loop and read and per_mode_val:
            y, m0, n = pairs[0]
            # AUDIT: true of the code when (checked) the store goes into the storage of the matrix object itself (not a slice copy of
            # a sparse matrix), it is inside the mode loop of this entry point (helper methods written back), the value stored is
            # computed from a per-mode table at the mode index, a constructor of this class binds the second attribute to the same
            # object without a copy, and the mode loop reads that attribute
            chk.ob("F5-operator-storage", st, construct, False,
                   f"inside the mode loop, {form} overwrites the stored values of {mat} with the operator of the current mode; "
                   f"`{src(n)[:70]}` ({n.lineno}) makes `{read[0]}` the same object, not a copy (in the configurations that run that assignment), and the loop reads `{read[0]}` as the "
                   "constant operator of the mode m = 0: after the first mode m != 0 solved with this solver object, m = 0 is solved with "
                   "the matrix of the last m != 0 mode (from the second call of the solve on: wrong flux-surface averaged potential)",
                   file=U.POISSON, func=q)
        else:
            chk.ob("F5-operator-storage", st, construct, None,
                   f"{form} changes an assembled operator after construction: the comparison of the operators with the equation "
                   "assumes they are constants; whether every later reader sees the values it needs was not followed" +
                   (f" ({', '.join(partners)} denote the same object)" if partners else ""), file=U.POISSON, func=q)
    # methods that are not entry points (and were not written back into one)
    others = 0
    for cls_ in (DES, QN):
        try:
            cnode = mod.cls(cls_)
        except AnalysisError:
            continue
        for meth in cnode.body:
            if not isinstance(meth, ast.FunctionDef) or meth.name == "__init__" or any((c_, m2) == (cls_, meth.name) for c_, m2, _ in eps):
                continue
            try:
                f2 = chk.func(U.POISSON, f"{cls_}.{meth.name}")
            except AnalysisError:
                continue
            for st, mat, form, vals in _inplace_writes(f2, env_of(chk, f2), mats):
                if (mat, form) in seen_keys:         # a helper written back into an entry point: judged there
                    continue
                others += 1
                chk.ob("F5-operator-storage", st, f"{cls_}.{meth.name}: {form} writes the storage of {mat}", None,
                       f"{form} changes an assembled operator after construction; where `{meth.name}` runs was not followed",
                       file=U.POISSON, func=f"{cls_}.{meth.name}")
    if not found and not others:
        chk.ob("F5-operator-storage", mod.cls(DES), "the assembled operators are constants after construction", True,
               "no store into the storage of the blocks / the theta-independent operator / the m = 0 operator outside the constructors "
               "(element and slice stores, .data, out=, copyto, setdiag, fill; local aliases resolved)", file=U.POISSON, func=DES)


def m0_operator(chk):
    """the m=0 operator of the quasi-neutrality solver is the assembled operator, minus the adiabatic block for chi=1"""
    from .C14 import operator_blocks, _sym, BLOCKS
    fn = flat_view(chk, U.POISSON, QN, "__init__")
    env = env_of(chk, fn)
    stiff = operator_blocks(chk)
    defs = [n for n in ast.walk(fn) if isinstance(n, ast.Assign) and src(n.targets[0]) == "self._stiffness0"]
    if stiff is not None and not defs and not _uses_m0_operator(chk):
        m0_generic(chk, fn, env, stiff)
        return
    if stiff is None or not defs:
        chk.ob("F5-m0-convention", fn, "chi -> m=0 operator", None, "definition of the theta-independent operator / of self._stiffness0 not found",
               file=U.POISSON, func=f"{QN}.__init__")
        return

    def vec(e, chi_val):
        table = {}
        ex = sp.expand(_sym(e, table))
        if "chi" in table:
            if chi_val is None:
                raise KeyError("chi used outside the adiabatic branch")
            ex = sp.expand(ex.subs(table["chi"], chi_val))
        inv = {v: k for k, v in table.items()}
        out = {}
        for term in sp.Add.make_args(ex):
            if term == 0:
                continue
            c_, syms = term.as_coeff_mul()
            nm = inv.get(syms[0]) if len(syms) == 1 else None
            if nm == "self._stiffnessMatrix":
                for k, v in stiff.items():
                    out[k] = out.get(k, 0) + c_ * v
            elif nm in BLOCKS:
                out[nm] = out.get(nm, 0) + c_
            else:
                raise KeyError(str(term))
        return {k: v for k, v in out.items() if v != 0}

    want = {0: dict(stiff), 1: {k: v for k, v in stiff.items() if k != "self._PhiPsi"}}
    CASES = {("kinetic", None): ("kinetic electrons", dict(stiff)), ("adiabatic", 0): ("chi=0", want[0]), ("adiabatic", 1): ("chi=1", want[1])}
    # the configurations each assignment runs under; the last assignment (in program order) of a configuration is its operator
    all_known = True
    last = {}
    kchi = kinetic_chi(fn)
    for d in sorted(defs, key=lambda n: env.order.get(id(n), 0)):
        br = electron_branch(d, fn)
        vals = chi_values(d, fn)
        if br is None or vals is None:
            all_known = False
            chk.ob("F5-m0-convention", d, f"m=0 operator: {src(d.value)[:60]}", None,
                   "the assignment is guarded by a test on adiabaticElectrons / chi that is not recognised", file=U.POISSON,
                   func=f"{QN}.__init__")
            continue
        for case in CASES:
            if not (br == "both" or br == case[0]):
                continue
            if case[1] is None:
                # ASSUMPTION (checked): a test on chi around the assignment selects among the kinetic-electron runs as well: whether
                # the kinetic configuration runs this assignment depends on the value chi holds there (`chi = 0` in the kinetic
                # branch makes the chi == 0 arm the operator of kinetic electrons); that value must be established
                if chi_guarded(d, fn):
                    if kchi[0] == "const" and kchi[1] in (0, 1) and env.order.get(id(kchi[2]), 1 << 30) < env.order.get(id(d), -1):
                        if kchi[1] not in vals:
                            continue
                    else:
                        all_known = False
                        chk.ob("F5-m0-convention", d, f"m=0 operator: {src(d.value)[:60]}", None,
                               "the assignment is guarded by a test on chi and also serves kinetic electrons; the value of chi in "
                               "that configuration was not established", file=U.POISSON, func=f"{QN}.__init__")
                        continue
                last[case] = d
            elif case[1] in vals:
                last[case] = d
    covered = set()
    for case, d in last.items():
        tag, w = CASES[case]
        val = env.x(d.value, stop={"chi"}, use=d)
        # dispatch through a table with literal keys, {0: A, 1: B}[chi]: the entry of the value of chi at hand
        if isinstance(val, ast.Subscript) and isinstance(val.value, ast.Dict) and src(val.slice) == "chi" and case[1] is not None and \
                all(isinstance(k_, ast.Constant) for k_ in val.value.keys):
            hit = [v_ for k_, v_ in zip(val.value.keys, val.value.values) if k_.value == case[1] and not isinstance(k_.value, bool)]
            if len(hit) == 1:
                val = hit[0]
        elif isinstance(val, ast.Subscript) and isinstance(val.value, (ast.Tuple, ast.List)) and src(val.slice) == "chi" and \
                case[1] is not None and case[1] < len(val.value.elts):
            val = val.value.elts[case[1]]
        # AUDIT: the operator is compared block by block with the theta-independent operator the base class assembles (`stiff`, with
        # whatever signs the blocks are stored with): relational, not against today's expression; VIOLATED only when every guard on
        # adiabaticElectrons / chi around the assignments was recognised (`all_known`)
        try:
            kv = kchi[1] if kchi[0] == "const" and env.order.get(id(kchi[2]), 1 << 30) < env.order.get(id(d), -1) else None
            got = vec(val, case[1] if case[1] is not None else kv)
            ok = got == w
            covered.add(tag)
            chk.ob("F5-m0-convention", d, f"m=0 operator for {tag}: {src(d.value)[:60]}", ok if (ok or all_known) else None,
                   ("the full theta-independent operator" if w == stiff else "the theta-independent operator without the adiabatic (C phi) "
                    "block: the flux-surface average is subtracted") if ok else
                   f"for {tag} the m=0 operator is {got}; the theta-independent operator is {stiff} and the m=0 operator must be {w}",
                   file=U.POISSON, func=f"{QN}.__init__")
        except KeyError as e:
            chk.ob("F5-m0-convention", d, f"m=0 operator for {tag}: {src(d.value)[:60]}", None,
                   f"not a combination of the assembled blocks ({e})", file=U.POISSON, func=f"{QN}.__init__")
    raises = any(isinstance(n, ast.Raise) and "chi" in src(n) for n in ast.walk(fn)) or \
        any(isinstance(n, ast.Assert) and "chi" in src(n.test) and ("0" in src(n.test) and "1" in src(n.test)) for n in ast.walk(fn)) or \
        any(isinstance(n, ast.Raise) and isinstance(parent(n), ast.If) and "chi" in src(parent(n).test) for n in ast.walk(fn)) or \
        any(isinstance(n, ast.Subscript) and isinstance(n.value, ast.Dict) and src(n.slice) == "chi" and
            sorted(k_.value for k_ in n.value.keys if isinstance(k_, ast.Constant)) == [0, 1] for n in ast.walk(fn))
    need = {t_ for t_, _ in CASES.values()}
    okc = need <= covered and raises and "self._PhiPsi" in stiff
    bad = None
    # AUDIT: "no operator for that configuration (attribute error)" needs the attribute to have no other definition: no store outside
    # this constructor (a default set by the base class / at class level would be used instead)
    elsewhere0 = [n for c_ in chk.mod(U.POISSON).tree.body if isinstance(c_, ast.ClassDef) and c_.name in (DES, QN) for n in ast.walk(c_)
                  if (isinstance(n, ast.Attribute) and n.attr == "_stiffness0" and isinstance(n.ctx, ast.Store)) or
                  (isinstance(n, ast.Name) and n.id == "_stiffness0" and isinstance(n.ctx, ast.Store))]
    own0 = {id(t) for d in defs for t in ast.walk(d)}
    raw_defs = [n for n in ast.walk(chk.func(U.POISSON, f"{QN}.__init__")) if isinstance(n, ast.Attribute) and n.attr == "_stiffness0"
                and isinstance(n.ctx, ast.Store)]
    has_default = len(elsewhere0) > len(raw_defs)
    if not (need <= set(CASES[c_][0] for c_ in last)) and all_known and not has_default:
        bad = (f"self._stiffness0 is not defined for {sorted(need - set(CASES[c_][0] for c_ in last))}: the m=0 mode of that configuration "
               "has no operator (attribute error at the first solve)")
    chk.pat("F5-m0-convention", fn, "chi in {0, 1} and kinetic electrons all define the m=0 operator; other chi refused", okc,
            f"cases covered: {sorted(covered)}; refusal of other chi: {raises}", bad, file=U.POISSON, func=f"{QN}.__init__", nontrivial=False)


def profile_calls(chk, fn):
    """default profile functions receive the constants of the same name (role agreement with initialiser_funcs' signatures)"""
    q = f"{QN}.__init__"
    for name in ("n0", "Te", "n0deriv_normalised"):
        try:
            callee = chk.func(U.INITF, name)
        except AnalysisError:
            chk.ob("F5-qn-coefficients", fn, f"default profile init.{name}", None, f"initialiser function {name} not found", file=U.POISSON, func=q)
            continue
        formals = [a.arg for a in callee.args.args]
        calls = [c for c in ast.walk(fn) if isinstance(c, ast.Call) and src(c.func) == f"init.{name}"]
        if not calls:
            chk.ob("F5-qn-coefficients", fn, f"default profile init.{name}", None, f"no call of init.{name} found", file=U.POISSON, func=q)
            continue
        for c in calls:
            bound = dict(zip(formals, c.args))
            for k in c.keywords:
                if k.arg:
                    bound[k.arg] = k.value
            ok, wrong, unknown = True, [], []
            for p_, a_ in bound.items():
                if p_ == formals[0]:
                    if not isinstance(a_, ast.Name):
                        unknown.append(f"{p_} <- {src(a_)}")
                    continue
                if isinstance(a_, ast.Attribute) and src(a_.value) == "constants":
                    # AUDIT: names stand for roles only while both sides use the same vocabulary: a constant handed to a parameter of
                    # another name is a confusion when it carries the name of ANOTHER parameter of the same function (two roles
                    # exchanged); a name the function does not know at all (a renamed parameter) is not compared
                    if a_.attr.lower() != p_.lower():
                        if a_.attr.lower() in {f_.lower() for f_ in formals}:
                            wrong.append(f"parameter `{p_}` receives constants.{a_.attr}, the value meant for parameter `{a_.attr}`")
                        else:
                            unknown.append(f"{p_} <- constants.{a_.attr}")
                else:
                    unknown.append(f"{p_} <- {src(a_)}")
            if len(bound) != len(formals):
                unknown.append("not every parameter is bound")
            # relational: the constants of one profile share a suffix (CN0 / kN0 / deltaRN0; CTe / kTe / deltaRTe): a call that mixes
            # the constants of two profiles evaluates neither of them
            import re
            fams = {}
            for p_, a_ in bound.items():
                if isinstance(a_, ast.Attribute) and src(a_.value) == "constants":
                    m_ = re.fullmatch(r"(?:deltaR|C|k)([A-Z][A-Za-z0-9]*)", a_.attr)
                    if m_:
                        fams.setdefault(m_.group(1), []).append(f"constants.{a_.attr}")
            if len(fams) > 1 and not wrong:
                minority = min(fams.values(), key=len)
                wrong.append(f"the call mixes the constants of {len(fams)} profiles ({sorted(fams)}): {minority[0]} belongs to another "
                             "profile than the other arguments")
            res = False if wrong else (None if unknown else True)
            chk.ob("F5-qn-coefficients", c, f"default profile {src(c)[:70]}", res,
                   "the profile function receives the constants of the same name as its parameters" if res else
                   ("; ".join(wrong) + ": the default profile is evaluated with the wrong physical constant" if wrong else
                    "arguments not of the form constants.<name>: " + "; ".join(unknown)), file=U.POISSON, func=q)


DES_INIT_PARAMS = ["self", "degree", "rspline", "nr", "nTheta", "lNeumannIdx", "uNeumannIdx", "ddrFactor", "drFactor", "rFactor",
                   "ddThetaFactor", "rhoFactor"]


def _literal_set(e):
    try:
        v = ast.literal_eval(src(e))
    except Exception:
        return None
    if isinstance(v, (list, tuple, set)) and all(isinstance(x, (int, float)) and not isinstance(x, bool) for x in v):
        return set(v)
    return None


def base_init_calls(chk):
    """(view of QuasiNeutralitySolver.__init__, its calls of DiffEqSolver.__init__, the formal parameters of the latter)"""
    fn = flat_view(chk, U.POISSON, QN, "__init__")
    try:
        formals = [a.arg for a in chk.func(U.POISSON, f"{DES}.__init__").args.args]
    except AnalysisError:
        formals = DES_INIT_PARAMS
    calls = [c for c in ast.walk(fn) if isinstance(c, ast.Call) and src(c.func) == f"{DES}.__init__"]
    calls += [c for c in ast.walk(fn) if isinstance(c, ast.Call) and src(c.func).replace(" ", "") in ("super().__init__", f"super({QN},self).__init__")]
    return fn, calls, formals


def bound_arguments(c, formals):
    """parameter -> argument of a DiffEqSolver.__init__ call, None when passed through * / **"""
    fm = formals if src(c.func) == f"{DES}.__init__" else formals[1:]
    if any(isinstance(a, ast.Starred) for a in c.args) or any(k.arg is None for k in c.keywords):
        return None
    kw = dict(zip(fm, c.args))
    kw.update({k.arg: k.value for k in c.keywords})
    return kw


def signature_defaults(chk):
    """coefficient parameter -> default value (function of r) in DiffEqSolver.__init__'s signature; None when not recognised"""
    out = {}
    try:
        fn = chk.func(U.POISSON, f"{DES}.__init__")
    except AnalysisError:
        return out
    a = fn.args
    pos = dict(zip([x.arg for x in a.args][len(a.args) - len(a.defaults):], a.defaults))
    pos.update({k.arg: d for k, d in zip(a.kwonlyargs, a.kw_defaults) if d is not None})
    for name in ("ddrFactor", "drFactor", "rFactor", "ddThetaFactor", "rhoFactor"):
        if name in pos:
            try:
                out[name] = lam(pos[name])[0]
            except KeyError:
                out[name] = None
    return out


def qn_coefficients(chk):
    fn, calls, formals = base_init_calls(chk)
    env = env_of(chk, fn)
    q = f"{QN}.__init__"
    if len(calls) not in (1, 2):
        raise AnalysisError("C15: expected the DiffEqSolver.__init__ call(s) in QuasiNeutralitySolver.__init__")
    r = sp.Symbol("r", positive=True)
    gfun, n0f, Tef, Bs = sp.Function("g"), sp.Function("n0"), sp.Function("Te"), sp.Symbol("B")
    for c in calls:
        st = _stmt_of(c)
        br = electron_branch(c, fn)
        if br is None or (br == "both" and len(calls) == 2):
            chk.ob("F5-qn-coefficients", c, "electron model of this DiffEqSolver.__init__ call", None,
                   "the call is not inside a recognised branch of the adiabaticElectrons test", file=U.POISSON, func=q)
            continue
        kw = bound_arguments(c, formals)
        if kw is None:
            chk.ob("F5-qn-coefficients", c, "arguments of DiffEqSolver.__init__", None, "arguments passed through * / **: not resolved",
                   file=U.POISSON, func=q)
            continue
        adiabatic = br == "adiabatic"
        tag = "adiabatic electrons" if adiabatic else "kinetic electrons" if br == "kinetic" else "both electron models"
        spec = {"drFactor": -(1 / r + gfun(r)), "ddThetaFactor": -1 / r ** 2, "rhoFactor": Bs * Bs / n0f(r)}
        defaults = signature_defaults(chk)
        if adiabatic:
            spec["rFactor"] = Bs * Bs / Tef(r)
        elif br == "kinetic":
            spec["rFactor"] = sp.Integer(0)
        spec["ddrFactor"] = sp.Integer(-1)
        # AUDIT: the equation handed to DiffEqSolver is determined up to a common non-zero constant (c A, c B, c C, c D, c E describe
        # the same problem): the coefficients are compared with the specification scaled by the constant the second-derivative
        # coefficient carries (1 for the form the repository uses)
        scale = sp.Integer(1)
        try:
            a_got = lam(kw["ddrFactor"], env, fn, st)[0] if "ddrFactor" in kw else defaults.get("ddrFactor")
            if a_got is not None and a_got.is_number and a_got != 0:
                scale = sp.nsimplify(a_got / sp.Integer(-1))
        except KeyError:
            pass
        if scale != 1:
            spec = {k_: scale * v_ for k_, v_ in spec.items()}
        # AUDIT (VIOLATED below): each coefficient is the argument bound to the base constructor's parameter of that name (positional or
        # keyword, by the callee's own signature; * / ** -> undecided) or the callee's default, parsed as a rational function of r over
        # n0, Te, n0'/n0, B (anything else -> KeyError -> undecided) and compared algebraically with the quasi-neutrality equation
        for name, want in spec.items():
            if name not in kw:
                if defaults.get(name) is None:
                    chk.ob("F5-qn-coefficients", c, f"{name} [{tag}]", None,
                           f"coefficient `{name}` is not passed and DiffEqSolver's default for it is not a recognised function of r",
                           file=U.POISSON, func=q)
                    continue
                if alg_equal(defaults[name], want):
                    chk.ob("F5-qn-coefficients", c, f"{name} [{tag}]", True,
                           "kinetic electrons: no adiabatic response term (default 0)" if name == "rFactor" else
                           f"not passed: DiffEqSolver's default {defaults[name]} is the coefficient needed", file=U.POISSON, func=q)
                    continue
                chk.ob("F5-qn-coefficients", c, f"{name} [{tag}]", False,
                       f"coefficient `{name}` is not passed: DiffEqSolver's default {defaults[name]} is used instead of {want}",
                       file=U.POISSON, func=q)
                continue
            try:
                got, *_ = lam(kw[name], env, fn, st)
                if got.has(CHI):
                    # the convention parameter chi in {0, 1} appears in a coefficient: judged for each value it can have here
                    vals = chi_values(st, fn) if adiabatic else None
                    if not vals:
                        chk.ob("F5-qn-coefficients", kw[name], f"{name} [{tag}]", None,
                               f"{name} is {got}: depends on chi under tests on chi that are not recognised", file=U.POISSON, func=q)
                        continue
                    wrong = [v_ for v_ in sorted(vals) if not alg_equal(got.subs(CHI, v_), want)]
                    ok = not wrong
                    why = f"{name} = {want} for chi in {sorted(vals)}"
                    if wrong:
                        v_ = wrong[0]
                        why = (f"{name} is {got}: for chi={v_} the coefficient handed to DiffEqSolver is {sp.simplify(got.subs(CHI, v_))} instead "
                               f"of {want}.")
                        if name == "rFactor":
                            why += (" The matrices assembled from it serve every poloidal mode, but the flux-surface average chi*<phi>_theta "
                                    "only cancels the adiabatic response phi/Te of the mode m=0: with chi folded into the coefficient every "
                                    "mode m != 0 loses the 1/Te term (the m=0 convention belongs to the m=0 operator alone)")
                    chk.ob("F5-qn-coefficients", kw[name], f"{name} [{tag}]", ok, why, file=U.POISSON, func=q)
                    continue
                ok = alg_equal(got, want)
                chk.ob("F5-qn-coefficients", kw[name], f"{name} [{tag}]", ok, f"{name} = {want}" if ok else
                       f"{name} is {got}, the quasi-neutrality equation needs {want}" +
                       (" (kinetic electrons have no adiabatic response term)" if name == "rFactor" and not adiabatic else ""),
                       file=U.POISSON, func=q)
            except KeyError as e:
                chk.ob("F5-qn-coefficients", kw[name], f"{name} [{tag}]", None, f"coefficient expression not recognised ({e})",
                       file=U.POISSON, func=q)
        ln, un = kw.get("lNeumannIdx"), kw.get("uNeumannIdx")
        lset = _literal_set(env.x(ln, use=st)) if ln is not None else set()
        uset = _literal_set(env.x(un, use=st)) if un is not None else set()
        # AUDIT: both lists were resolved to literal sets of numbers (else undecided); regularity at the axis requires the Neumann
        # condition for m = 0 at the inner radius only
        okn, bad = False, None
        if lset is not None and uset is not None:
            okn = lset == {0} and uset == set()
            if not okn:
                bad = (f"the quasi-neutrality solver is built with Neumann modes {sorted(lset)} at the inner and {sorted(uset)} at the outer "
                       "boundary instead of mode 0 at the inner boundary only: the m=0 mode (or another mode) gets the wrong boundary condition")
        chk.pat("F5-qn-boundary", c, f"lNeumannIdx=[0] [{tag}]", okn, "only mode 0 has a Neumann condition, at the inner radius", bad,
                file=U.POISSON, func=q)
        # sizes: nr, nTheta
        sizes = {k_: (src(env.x(kw[k_], use=st)).replace(" ", "") if k_ in kw else None) for k_ in ("nr", "nTheta")}
        okpos = sizes == {"nr": "eta_grid[0].size", "nTheta": "eta_grid[1].size"} and \
            src(kw.get("degree", "")) == "degree" and src(kw.get("rspline", "")) == "rspline"
        bad = None
        if not okpos:
            import re
            for k_, dim in (("nr", 0), ("nTheta", 1)):
                m_ = re.fullmatch(r"(?:eta_grid\[(\d)\]\.size|len\(eta_grid\[(\d)\]\)|eta_grid\[(\d)\]\.shape\[0\])", sizes[k_] or "")
                if m_ and int(next(g for g in m_.groups() if g is not None)) != dim:
                    bad = (f"`{k_}` receives `{sizes[k_]}`, the number of points of dimension {next(g for g in m_.groups() if g is not None)} "
                           f"instead of dimension {dim}: the mode tables / evaluation buffers have the wrong length")
            if bad is None and all(re.fullmatch(r"(?:eta_grid\[\d\]\.size|len\(eta_grid\[\d\]\)|eta_grid\[\d\]\.shape\[0\])", sizes[k_] or "")
                                   for k_ in ("nr", "nTheta")) and src(kw.get("degree", "")) == "degree" and src(kw.get("rspline", "")) == "rspline":
                okpos = True
        chk.pat("F5-qn-sizes", c, "DiffEqSolver.__init__(self, degree, rspline, nr, nTheta)", okpos,
                "nr and nTheta are the global numbers of r and theta points", bad, file=U.POISSON, func=q)
    # default profiles n0, Te, n0'/n0 from the constants
    profile_calls(chk, fn)
    m0_operator(chk)
    m0_selection(chk)


def m0_selection(chk):
    """QuasiNeutralitySolver.solveEquation: the m=0 operator for the mode whose (squared) number is 0, the generic one otherwise"""
    q = f"{QN}.solveEquation"
    se, lp, li, gi = mode_loop(chk, QN, "solveEquation")
    if lp is not None and not _uses_m0_operator(chk):
        chk.ob("F5-m0-convention", lp, "m=0 test uses the global mode index", True,
               "no separate m=0 operator exists: every mode, m=0 included, is solved with the common operator (whether that operator is "
               "right for m=0 is judged where the coefficients are passed)", file=U.POISSON, func=q)
        return
    ok, bad = False, None
    from .C14 import mode_tables
    mt = mode_tables(chk)
    if lp is not None:
        env = env_of(chk, se)
        for n in ast.walk(lp):
            if not isinstance(n, ast.If):
                continue
            t = env.x(n.test, use=n)
            # `self._stiffness0 is not None and <m == 0>`: the branch of a solver whose sub-class provided an m = 0 operator; for the
            # quasi-neutrality solver (which always defines it) the test is the m = 0 test alone
            if isinstance(t, ast.BoolOp) and isinstance(t.op, ast.And):
                rest_ = [v_ for v_ in t.values if not (isinstance(v_, ast.Compare) and len(v_.ops) == 1 and isinstance(v_.ops[0], ast.IsNot)
                                                      and src(v_.left) == "self._stiffness0" and src(v_.comparators[0]) == "None")]
                if len(rest_) == 1 and len(t.values) == 2:
                    t = rest_[0]
            if not (isinstance(t, ast.Compare) and len(t.ops) == 1 and isinstance(t.ops[0], (ast.Eq, ast.NotEq))):
                continue
            sides = [src(t.left).replace(" ", ""), src(t.comparators[0]).replace(" ", "")]
            if not ("0" in sides or "0.0" in sides):
                continue
            other = [s_ for s_ in sides if s_ not in ("0", "0.0")]
            if len(other) == 1 and other[0] == gi.replace(" ", ""):
                # position 0 of the transform's output is the mode m = 0 (the numbering is judged by F5-mode-numbers)
                zero_branch, rest = (n.body, n.orelse) if isinstance(t.ops[0], ast.Eq) else (n.orelse, n.body)
                if any("self._stiffness0" in src(env.x(e_, use=x)) for s_ in zero_branch for x in ast.walk(s_) if isinstance(x, ast.stmt)
                       for e_ in _own_exprs(x)) and not any("self._stiffness0" in src(s_) for s_ in rest):
                    ok = True
                continue
            # any table that holds a positive power of the mode number is zero exactly for m = 0
            tab0 = other[0].split("[")[0] if len(other) == 1 else None
            if tab0 is None or "[" not in other[0] or tab0 not in mt.tables() or not mt.final(tab0):
                continue
            zero_branch, rest = (n.body, n.orelse) if isinstance(t.ops[0], ast.Eq) else (n.orelse, n.body)

            def uses0(stmts):
                out = []
                for s_ in stmts:
                    for x in ast.walk(s_):
                        if isinstance(x, ast.stmt):
                            for e_ in _own_exprs(x):
                                out.append("self._stiffness0" in src(env.x(e_, use=x)))
                return any(out)

            def usesK(stmts):
                out = []
                for s_ in stmts:
                    for x in ast.walk(s_):
                        if isinstance(x, ast.stmt):
                            for e_ in _own_exprs(x):
                                out.append("self._k2PhiPsi" in src(env.x(e_, use=x)))
                return any(out)
            if other[0] != f"{tab0}[{gi}]".replace(" ", ""):
                # AUDIT: only the loop's local index is provably the wrong index (position in the local block); any other index
                # expression is not compared by its text
                if li is not None and li != gi and other[0] == f"{tab0}[{li}]".replace(" ", ""):
                    bad = (f"the m=0 operator is selected by `{other[0]}`, the position in the local block, not by the mode number of the "
                           f"global mode index `{gi}`: on a process whose block does not start at mode 0 the wrong mode gets the m=0 operator")
            elif uses0(zero_branch) and not uses0(rest) and usesK(rest):
                ok = True
            # AUDIT: the test is on the table of (powers of) mode numbers read at the global mode index, which is zero exactly for
            # m = 0; the branch that runs for it uses the generic operator and the other one the m = 0 operator
            elif uses0(rest) and not uses0(zero_branch) and usesK(zero_branch):
                bad = ("the branches of the m=0 test are exchanged: the mode m=0 is solved with the generic operator and every other "
                       "mode with the m=0 operator")
    chk.pat("F5-m0-convention", lp if lp is not None else se, "m=0 test uses the global mode index", ok,
            "the m=0 operator is selected by the (squared) mode number of the global mode index", bad, file=U.POISSON, func=q)


def equilibrium_cancellation(chk):
    """the perturbed density of the equilibrium is exactly zero: f and the tabulated f_eq go through one quadrature"""
    q = f"{DF}.getPerturbedRho"
    fn = flat_view(chk, U.POISSON, DF, "getPerturbedRho")
    init = flat_view(chk, U.POISSON, DF, "__init__")
    env, envi = env_of(chk, fn), env_of(chk, init)
    try:
        formals = [a.arg for a in chk.func(U.PTOOLS, "get_perturbed_rho").args.args]
    except AnalysisError:
        formals = ["rho", "feq", "grid", "quad_coeffs"]

    def named(c, name):
        return isinstance(c, ast.Call) and src(c.func).split(".")[-1] == name
    calls = [c for c in ast.walk(fn) if named(c, "get_perturbed_rho")]
    ok, bad = None, None
    site = fn
    if len(calls) == 1:
        c = calls[0]
        site = c
        st = _stmt_of(c)
        b = dict(zip(formals, c.args))
        b.update({k.arg: k.value for k in c.keywords if k.arg})
        if "feq" in b and "quad_coeffs" in b and "grid" in b:
            feq = env.x(b["feq"], use=st)
            w = env.x(b["quad_coeffs"], use=st)
            base = feq
            while isinstance(base, ast.Subscript):
                base = base.value
            tab = src(base)
            fills = [x for x in ast.walk(init) if named(x, "feq_vector") and x.args and src(envi.x(x.args[0], use=_stmt_of(x))) == tab]
            if tab.startswith("self.") and len(fills) == 1 and src(w) == "self._quad_coeffs":
                try:
                    ff = [a.arg for a in chk.func(U.INITF, "feq_vector").args.args]
                except AnalysisError:
                    ff = ["surface", "r_vec", "vPar"]
                fb = dict(zip(ff, fills[0].args))
                fb.update({k.arg: k.value for k in fills[0].keywords if k.arg})
                pts = [src(envi.x(fb[p_], use=_stmt_of(fills[0]))).replace(" ", "") for p_ in ff[1:3]] if all(p_ in fb for p_ in ff[1:3]) else []
                if pts == ["eta_grid[0]", "eta_grid[3]"]:
                    ok = True
                # AUDIT: "parameters 2 and 3 of feq_vector are the r and v points" is the callee's signature: checked against the
                # names it has today (r first, then v); another signature is not compared by position
                elif len(pts) == 2 and all(p_.startswith("eta_grid[") and p_.endswith("]") for p_ in pts) and \
                        [x.lower()[0] for x in ff[1:3]] == ["r", "v"]:
                    bad = (f"the equilibrium table {tab} is tabulated on the coordinates {pts} instead of (eta_grid[0], eta_grid[3]) = (r, v): "
                           "it is not f_eq at the points where f is integrated, so the perturbed density of the equilibrium is not zero")
    elif not calls:
        plain = [c for c in ast.walk(fn) if named(c, "get_rho")]
        subs = [n for n in ast.walk(fn) if (isinstance(n, ast.AugAssign) and isinstance(n.op, ast.Sub)) or
                (isinstance(n, ast.BinOp) and isinstance(n.op, ast.Sub))]
        # AUDIT: "the equilibrium is not subtracted" needs every form of a subtraction to have been looked for: `-`, `-=`,
        # np.subtract, an addition of a negated / pre-negated term, any other call that receives the density
        other_forms = [n for n in ast.walk(fn) if (isinstance(n, ast.Call) and src(n.func).split(".")[-1] in ("subtract", "add", "axpy", "isub"))
                       or (isinstance(n, ast.UnaryOp) and isinstance(n.op, ast.USub) and not isinstance(n.operand, ast.Constant))
                       or (isinstance(n, ast.AugAssign) and isinstance(n.op, ast.Add))
                       or (isinstance(n, ast.Call) and not named(n, "get_rho") and not named(n, "getAllData") and
                           any(isinstance(x, ast.Name) and x.id == "rho" for a_ in list(n.args) + [k.value for k in n.keywords]
                               for x in ast.walk(a_)))]
        if plain:
            site = plain[0]
            if not subs and not other_forms:
                bad = ("getPerturbedRho integrates f without subtracting the equilibrium: the density handed to the quasi-neutrality solve "
                       "is the full density, the potential of the unperturbed equilibrium is not zero")
            for sb in subs:
                rhs = sb.value if isinstance(sb, ast.AugAssign) else sb.right
                for a in [x for x in ast.walk(env.x(rhs, use=_stmt_of(sb))) if isinstance(x, ast.Attribute) and src(x.value) == "self"]:
                    defs = [n for n in ast.walk(init) if isinstance(n, ast.Assign) and src(n.targets[0]) == src(a)]
                    if not defs:
                        continue
                    dx = envi.x(defs[-1].value, use=defs[-1])
                    dv = src(dx)
                    shown = src(defs[-1].value)
                    # AUDIT: "computed without the quadrature weights used for f" is true of the code when the defining expression
                    # (constructor locals expanded, every local resolved) cannot contain a quadrature at all: no attribute of the
                    # object (the weights are one), no kernel call, no reduction (sum / dot / einsum / @ ...)
                    REDUCE = ("sum", "dot", "einsum", "tensordot", "matmul", "inner", "vdot", "trapz", "trapezoid", "simps", "simpson", "quad",
                              "average", "mean", "apply_along_axis")
                    closed_form = len(defs) == 1 and not envi.amb and \
                        not any(isinstance(x, ast.Attribute) and isinstance(x.value, ast.Name) and x.value.id == "self" for x in ast.walk(dx)) and \
                        not any(isinstance(x, ast.Call) and src(x.func).split(".")[-1] in REDUCE for x in ast.walk(dx)) and \
                        not any(isinstance(x, ast.BinOp) and isinstance(x.op, ast.MatMult) for x in ast.walk(dx)) and \
                        not any(isinstance(x, (ast.ListComp, ast.GeneratorExp, ast.Lambda)) for x in ast.walk(dx))
                    if closed_form and not any(named(x, "get_rho") or named(x, "get_perturbed_rho") for x in ast.walk(dx)):
                        bad = (f"the equilibrium density subtracted in getPerturbedRho, `{src(a)}`, is computed in the constructor as "
                               f"`{shown[:90]}` without the quadrature weights used for f: the velocity integral of the Maxwellian taken another "
                               "way (closed form, other rule) differs from the quadrature of the tabulated f_eq by the quadrature error, so "
                               "for f = f_eq the 'perturbed' density is minus that error instead of exactly zero; the quasi-neutrality solve "
                               "then returns a spurious m=0 potential and the equilibrium is no longer a fixed point of the time step")
    chk.pat("F5-equilibrium-cancellation", site, "getPerturbedRho: sum_l w_l (f - f_eq)(r_i, v_l) with one set of weights", ok,
            "f and the equilibrium tabulated at the same (r, v) points are combined by one quadrature inside the kernel: the perturbed "
            "density of the equilibrium is exactly zero", bad, file=U.POISSON, func=q)


PIPELINE = {"getPerturbedRho": DF, "getRho": DF, "getModes": QN, "solveEquation": QN, "findPotential": QN}


def pipeline_args(chk, call, m):
    """the actual arguments of a pipeline call in the order of the parameters of the method it runs (positional and keyword
    arguments bound by the callee's signature); None when they cannot be bound"""
    from .C14 import _method
    owner, fn = _method(chk.mod(U.POISSON), PIPELINE[m], m)
    if fn is None:
        return None
    a = fn.args
    if a.vararg or a.kwarg or a.posonlyargs:
        return None
    params = [x.arg for x in a.args]
    if not any(src(d) == "staticmethod" for d in fn.decorator_list):
        params = params[1:]
    if any(isinstance(x, ast.Starred) for x in call.args) or any(k.arg is None for k in call.keywords) or len(call.args) > len(params):
        return None
    got = dict(zip(params, call.args))
    for k in call.keywords:
        if k.arg not in params or k.arg in got:
            return None
        got[k.arg] = k.value
    out = []
    for p_ in params:
        if p_ not in got:
            break               # trailing parameters with defaults
        out.append(got[p_])
    return out if len(out) == len(got) else None


def spectral_typestate(chk):
    """pipeline order in the driver: rho real -> getModes -> solve -> findPotential -> phi real before it is used"""
    fn = flat_function(chk, U.DRIVER, "main")
    mod = chk.mod(U.DRIVER)
    uses_phi_real = {"gridStep", "collect", "writeH5Dataset"}
    local_fns = {n.name: n for n in ast.walk(fn) if isinstance(n, ast.FunctionDef) and n is not fn}
    for n in mod.tree.body:
        if isinstance(n, ast.FunctionDef) and n is not fn:
            local_fns.setdefault(n.name, n)
    decided = ("real", "modes")

    # AUDIT: the representation of a grid is changed only by the pipeline methods (getModes: real -> modes, solveEquation: modes in /
    # modes out, findPotential: modes -> real), whose transforms are judged by F5-transform-pair; a state that is not one of the two
    # decided ones (unset, mixed after a branch, unknown after unbound arguments) gives undecided, never a violation
    def judge(state, want):
        return (state == want) if state in decided else None

    def walk(stmts, st, depth=0):
        for s in stmts:
            if isinstance(s, (ast.FunctionDef, ast.AsyncFunctionDef, ast.ClassDef)):
                continue
            if isinstance(s, ast.If):
                a, b = dict(st), dict(st)
                walk(s.body, a, depth)
                walk(s.orelse, b, depth)
                for k in st:
                    st[k] = a[k] if a[k] == b[k] else "mixed"
            elif isinstance(s, (ast.While, ast.For)):
                before = dict(st)
                walk(s.body, st, depth)
                ok = before == st
                if not ok:
                    # the second iteration starts from the state the first one leaves: its uses are judged in that state (a use in
                    # the wrong representation is reported there); the loop itself is periodic if a further iteration changes nothing
                    after1 = dict(st)
                    walk(s.body, st, depth)
                    ok = True if (after1 == st and all(v in decided for v in st.values())) else None
                    for k_ in st:
                        if st[k_] != after1[k_] or st[k_] != before[k_] and st[k_] not in decided:
                            st[k_] = "mixed"
                    chk.ob("S-spectral-state", s, "time loop: spectral state of rho/phi", ok,
                           f"the representation of rho / phi at the start of an iteration is {before} for the first and {after1} for every "
                           "later one; every use inside the loop was judged in both" if ok else
                           f"representation changes across iterations: {before} -> {after1} -> {st}", file=U.DRIVER, func="main")
                else:
                    chk.ob("S-spectral-state", s, "time loop: spectral state of rho/phi", True,
                           "rho and phi are in the same representation at the start and at the end of an iteration", file=U.DRIVER, func="main")
            elif isinstance(s, (ast.With, ast.Try)):
                walk(s.body, st, depth)
                for h in getattr(s, "handlers", []) or []:
                    walk(h.body, dict(st), depth)
                walk(getattr(s, "orelse", []) or [], st, depth)
                walk(getattr(s, "finalbody", []) or [], st, depth)
            else:
                # AUDIT ("produced by getRho, the equilibrium is not removed"): a store into the density between getRho and the solve
                # (the driver subtracting the equilibrium itself) makes its origin unknown
                if isinstance(s, (ast.Assign, ast.AugAssign)):
                    for t_ in (s.targets if isinstance(s, ast.Assign) else [s.target]):
                        for x_ in ast.walk(t_):
                            if isinstance(x_, ast.Name) and x_.id in kind:
                                kind[x_.id] = "modified"
                calls = [c for c in ast.walk(s) if isinstance(c, ast.Call)]
                calls.sort(key=lambda c: (c.end_lineno, c.end_col_offset))
                for c in calls:
                    if isinstance(c.func, ast.Name) and c.func.id in local_fns and depth < 4:
                        # a local function of the driver: its statements run here (grids are the driver's own variables)
                        h = local_fns[c.func.id]
                        formal = [a.arg for a in h.args.args]
                        ren = {f_: a_.id for f_, a_ in zip(formal, c.args) if isinstance(a_, ast.Name) and a_.id in st and f_ != a_.id}
                        sub = dict(st)
                        for f_, a_ in ren.items():
                            sub[f_] = st[a_]
                        walk(h.body, sub, depth + 1)
                        for k_ in list(st):
                            if k_ in ren.values():
                                st[k_] = sub[[f_ for f_, a_ in ren.items() if a_ == k_][0]]
                            elif k_ not in ren:
                                st[k_] = sub[k_]
                        continue
                    if not isinstance(c.func, ast.Attribute):
                        continue
                    m = c.func.attr
                    if m in PIPELINE:
                        # the grids of a pipeline call, in the order of the callee's parameters (positional or keyword arguments)
                        bound = pipeline_args(chk, c, m)
                        if bound is None:
                            mentioned = {n.id for n in ast.walk(c) if isinstance(n, ast.Name) and n.id in st}
                            for g_ in mentioned:
                                st[g_] = "unknown"
                            chk.ob("S-spectral-state", c, src(c)[:80], None, f"the arguments of `{m}` could not be bound to its parameters",
                                   file=U.DRIVER, func="main")
                            continue
                        args = [a.id for a in bound if isinstance(a, ast.Name)]
                        if len(args) != len(bound):
                            args = []
                    else:
                        args = [a.id for a in c.args if isinstance(a, ast.Name)] + \
                            [k.value.id for k in c.keywords if isinstance(k.value, ast.Name)]
                    if m in ("getPerturbedRho", "getRho") and len(args) >= 2:
                        st[args[1]] = "real"
                        kind[args[1]] = m
                    elif m == "getModes" and args:
                        ok = judge(st.get(args[0]), "real")
                        chk.ob("S-spectral-state", c, src(c), ok, "the density is in real space when it is transformed" if ok else
                               f"getModes on a grid in state `{st.get(args[0])}`", file=U.DRIVER, func="main")
                        st[args[0]] = "modes"
                    elif m == "solveEquation" and len(args) >= 2 and src(c.func.value) == "QNSolver":
                        ok = judge(st.get(args[1]), "modes")
                        chk.ob("S-spectral-state", c, src(c), ok, "the right-hand side holds poloidal modes when the per-mode solve runs"
                               if ok else f"solveEquation with the density in state `{st.get(args[1])}`", file=U.DRIVER, func="main")
                        if kind.get(args[1]) == "getRho":
                            chk.ob("S-spectral-state", c, src(c) + " <- perturbed density", False,
                                   f"the density handed to the quasi-neutrality solve was produced by getRho (the full density), not by "
                                   "getPerturbedRho: the equilibrium part is not removed, so the potential of the unperturbed equilibrium "
                                   "is not zero", file=U.DRIVER, func="main")
                        st[args[0]] = "modes"
                    elif m == "findPotential" and args:
                        ok = judge(st.get(args[0]), "modes")
                        chk.ob("S-spectral-state", c, src(c), ok, "the inverse transform is applied to solved modes" if ok else
                               f"findPotential on a potential in state `{st.get(args[0])}`", file=U.DRIVER, func="main")
                        st[args[0]] = "real"
                    elif m in uses_phi_real and "phi" in ([src(c.func.value)] + args):
                        ok = judge(st.get("phi"), "real")
                        chk.ob("S-spectral-state", c, src(c)[:80], ok, "the potential is in real space where it is consumed" if ok else
                               f"`{m}` consumes the potential in state `{st.get('phi')}`", file=U.DRIVER, func="main")
    kind = {}
    walk(fn.body, {"rho": "unset", "phi": "unset"})


MODELLED_LAYOUT_CALLS = {"setLayout", "saveGridValues", "restoreGridValues", "freeGridSave"}
DRIVER_GRIDS = ("distribFunc", "phi", "rho")


def unmodelled_layout_changes(chk):
    """the calls in the driver that may change the layout of a grid by other means than the four calls the layout typestate walk of
    the driver models (setLayout / saveGridValues / restoreGridValues / freeGridSave): a method of Grid that reaches one of them
    or stores the layout attributes itself (a context manager, a helper that switches and switches back), or a method of a grid
    variable that the Grid class does not define.  The abstract layout of a grid after such a call is not what the walk believes."""
    try:
        gcls = chk.mod(U.GRID).cls("Grid")
        drv = chk.mod(U.DRIVER).tree
    except (AnalysisError, KeyError, AttributeError):
        return ["the Grid class / the driver could not be read"]
    methods = {}
    open_bases = []

    def gather(rel, cnode, depth=0):
        """methods of a class and of its base classes (same module, or imported from a module of the repository)"""
        for m in cnode.body:
            if isinstance(m, ast.FunctionDef):
                methods.setdefault(m.name, m)
        for b in cnode.bases:
            if isinstance(b, ast.Name) and b.id == "object":
                continue
            if not isinstance(b, ast.Name) or depth > 4:
                open_bases.append(src(b))
                continue
            tree = chk.mod(rel).tree
            local = [c for c in tree.body if isinstance(c, ast.ClassDef) and c.name == b.id]
            if local:
                gather(rel, local[0], depth + 1)
                continue
            found = False
            for imp in tree.body:
                if isinstance(imp, ast.ImportFrom) and imp.module and any((a.asname or a.name) == b.id for a in imp.names):
                    parts = rel.split("/")[:-1]
                    if imp.level:
                        parts = parts[:len(parts) - (imp.level - 1)]
                    else:
                        parts = []
                    rel2 = "/".join(parts + imp.module.split(".")) + ".py"
                    orig = next(a.name for a in imp.names if (a.asname or a.name) == b.id)
                    try:
                        c2 = [c for c in chk.mod(rel2).tree.body if isinstance(c, ast.ClassDef) and c.name == orig]
                    except AnalysisError:
                        c2 = []
                    if c2:
                        gather(rel2, c2[0], depth + 1)
                        found = True
            if not found:
                open_bases.append(b.id)
    gather(U.GRID, gcls)
    if open_bases:
        return [f"the base class `{open_bases[0]}` of Grid (not found in the repository)"]
    layout_attrs = set()
    if "setLayout" in methods:
        layout_attrs = {src(t) for n in ast.walk(methods["setLayout"]) if isinstance(n, ast.Assign) for t in n.targets
                        if isinstance(t, ast.Attribute) and src(t.value) == "self"}
    changers = set(MODELLED_LAYOUT_CALLS) & set(methods)
    for _ in range(len(methods)):
        more = {name for name, m in methods.items() if name not in changers and name != "__init__" and (
            any(isinstance(n, ast.Call) and isinstance(n.func, ast.Attribute) and src(n.func.value) == "self" and n.func.attr in changers
                for n in ast.walk(m)) or
            any(isinstance(n, ast.Attribute) and isinstance(n.ctx, ast.Store) and src(n) in layout_attrs for n in ast.walk(m)))}
        if not more:
            break
        changers |= more
    out = []
    for c in ast.walk(drv):
        if isinstance(c, ast.Call) and isinstance(c.func, ast.Attribute):
            if c.func.attr in changers - MODELLED_LAYOUT_CALLS:
                out.append(f"`{src(c)[:60]}` (Grid.{c.func.attr} changes the layout itself)")
            elif isinstance(c.func.value, ast.Name) and c.func.value.id in DRIVER_GRIDS and c.func.attr not in methods:
                out.append(f"`{src(c)[:60]}` (not a method of Grid that was read)")
    return out


class _Demote:
    """the check, with every VIOLATED verdict recorded as UNDECIDED: used for an engine whose abstract state is known to be
    unreliable on the code at hand (it met constructs it does not model)"""

    def __init__(self, chk, reason):
        self.__dict__["_chk"] = chk
        self.__dict__["_reason"] = reason

    def ob(self, rule, node, construct, ok, msg="", **kw):
        if ok is False:
            ok, msg = None, f"{msg} - NOT DECIDED: {self._reason}"
        return self._chk.ob(rule, node, construct, ok, msg, **kw)

    def pat(self, rule, node, construct, ok, good, bad=None, **kw):
        if ok:
            return self._chk.ob(rule, node, construct, True, good, **kw)
        return self.ob(rule, node, construct, None, (bad or "idiom not recognised") + f" - NOT DECIDED: {self._reason}", **kw)

    def __getattr__(self, name):
        return getattr(self._chk, name)

    def __setattr__(self, name, value):
        setattr(self._chk, name, value)


def run(chk):
    chk.explanation = (
        "Transform pairing (fft/ifft of a standard library, along theta = last axis of the asserted layout, line by line in place), "
        "mode numbers evaluated against the transform's output order for even and odd counts and squared once, the quasi-neutrality "
        "coefficient functions as rational functions of r compared with -(1/r + n0'/n0), -1/r^2, B^2/Te (adiabatic only), B^2/n0, "
        "boundary and m=0/chi convention, the exact cancellation of the equilibrium in the perturbed density (f and f_eq through one "
        "quadrature), per-mode book-keeping and index spaces of the mode tables, the driver's layout typestate and the spectral "
        "typestate of rho/phi along the pipeline (local helper functions of the driver followed). Realness and the fixed point are "
        "numerical consequences and are not decided.")
    chk.assumptions += ["scipy.fftpack / scipy.fft / numpy.fft fft and ifft are mutually inverse in the mode order of np.fft.fftfreq",
                        "get_perturbed_rho computes sum_l w_l (f - f_eq) (decided by C16)"]
    chk.in_file(U.POISSON)
    orders(chk)
    transforms(chk)
    mode_numbers(chk)
    qn_coefficients(chk)
    equilibrium_cancellation(chk)
    per_mode(chk)
    solver_index_spaces(ViewedCheck(chk))
    # AUDIT: the layout typestate walk of the driver (engine shared with C05) models four layout calls; when the driver changes
    # layouts by other means its verdicts are not true of the code: they are recorded as undecided
    unmodelled = unmodelled_layout_changes(chk)
    if unmodelled:
        chk.ob("S-known-layout", chk.func(U.DRIVER, "main"), "layout changes of the driver are the modelled calls", None,
               f"the driver changes the layout of a grid through {unmodelled[0]}: the layout typestate of the driver is not followed there",
               file=U.DRIVER, func="main")
        driver_typestate(ViewedCheck(_Demote(chk, "the driver changes layouts through " + unmodelled[0])))
    else:
        driver_typestate(ViewedCheck(chk))
    spectral_typestate(chk)
    chk.floor("F5-", 14)
    chk.floor("S-spectral-state", 10)
    chk.floor("S-operator-layout", 20)


# --- engine I (pgverif/oneshot.py): one-shot iterators handed out by the grid accessors are walked once per creation and never memoised.
# Run first so that its reports do not depend on the idiom recognition of the rules above.
_run_before_engine_I = run


def run(chk):  # noqa: F811
    from ..oneshot import attach
    attach(chk, [(U.POISSON, {"QuasiNeutralitySolver"})])
    _run_before_engine_I(chk)
