"""C07 - spline evaluation equals the mathematical B-spline on every entry point.

Decides (DESIGN 5/C07): fast/general path dispatch agreement; for every evaluator and every
derivative-flag combination the contraction  sum_j c[span-deg+j] * B^(der)_j(x)  with the basis
routine, knots/degree/point/span (resp. span/offset/cell size) of the same dimension; the uniform
cubic basis is the cardinal cubic B-spline (polynomial identities); the uniform span search is
consistent with the coefficient window at the right end point; periodic wrap of unit coefficient
vectors; evaluators do not write into the coefficient array.  The Cox-de Boor recursion and the
binary span search are data-dependent loops and are not decided.
"""
from __future__ import annotations

import ast

import sympy as sp
from sympy import Symbol, Function, Integer, Rational

from ..core import src, AnalysisError, parent
from .. import units as U
from ..symx import SymExec, Arr, make_args, Undecided, alg_equal, ITE
from .. import agree, lints

NB = Function("NB")          # NB(knots, degree, x, span, j, der): j-th non-vanishing general B-spline (or its 1st derivative)
CB = Function("CB")          # CB(span, offset, j): uniform cubic value;  CB1(span, offset, dx, j): derivative
CB1 = Function("CB1")
NSPAN = Function("NSPAN")
CSPAN = Function("CSPAN")
COFF = Function("COFF")


def A(v):
    return Symbol("arr_" + v.name) if isinstance(v, Arr) else v


def h_nu_find_span(ex, call):
    k, d, x = (ex.ev(a) for a in call.args[:3])
    return NSPAN(A(k), d, x)


def h_cu_find_span(ex, call):
    a = [ex.ev(x) for x in call.args[:5]]
    return (CSPAN(*a), COFF(*a))


def _fill(ex, call, pos, fn):
    out = ex.ev(call.args[pos])
    if not isinstance(out, Arr):
        raise Undecided("basis output is not an array")
    out.cells = {}
    out.generic = fn
    return sp.S.NaN


def h_nu_basis(der):
    def h(ex, call):
        k, d, x, s_ = (ex.ev(a) for a in call.args[:4])
        return _fill(ex, call, 4, lambda ix, k=k, d=d, x=x, s_=s_: NB(A(k), d, x, s_, ix[0], Integer(der)))
    return h


def h_cu_basis(ex, call):
    s_, o = (ex.ev(a) for a in call.args[:2])
    return _fill(ex, call, 2, lambda ix, s_=s_, o=o: CB(s_, o, ix[0]))


def h_cu_basis_der(ex, call):
    s_, o, dx = (ex.ev(a) for a in call.args[:3])
    return _fill(ex, call, 3, lambda ix, s_=s_, o=o, dx=dx: CB1(s_, o, dx, ix[0]))


HANDLERS = {"nu_find_span": h_nu_find_span, "cu_find_span": h_cu_find_span, "nu_basis_funs": h_nu_basis(0),
            "nu_basis_funs_1st_der": h_nu_basis(1), "cu_basis_funs": h_cu_basis, "cu_basis_funs_1st_der": h_cu_basis_der}


def basis_spec(fam, dim, args, x, der):
    """(span, degree-count, basis function j -> expr) of dimension `dim` (1-based, or 0 for 1-D evaluators)"""
    if fam == "nu":
        k = args["knots"] if dim == 0 else args[f"kts{dim}"]
        d = args["degree"] if dim == 0 else args[f"deg{dim}"]
        span = NSPAN(A(k), d, x)
        return span, d, (lambda j: NB(A(k), d, x, span, j, Integer(der))), d
    k = args["knots"] if dim == 0 else args[f"kts{dim}"]
    d = args["degree"] if dim == 0 else args[f"deg{dim}"]
    xmin, xmax, dx, fn = (k.fn(Integer(i)) for i in range(4))
    nc = Function("toint")(fn)
    span, off = CSPAN(xmin, xmax, dx, x, nc), COFF(xmin, xmax, dx, x, nc)
    if der == 0:
        return span, Integer(3), (lambda j: CB(span, off, j)), d
    return span, Integer(3), (lambda j: CB1(span, off, dx, j)), d


def check_evaluator(chk, rel, name, rule="E4-evaluator"):
    mod = chk.mod(rel)
    fn = mod.func(name)
    chk.functions.add(f"{rel}:{name}")
    fam = "cu" if "cu_" in name else "nu"
    two_d = "_2d_" in name
    kind = name.split("_")[-1]          # scalar | vector | cross
    combos = [(a, b) for a in (0, 1) for b in (0, 1)] if two_d else [(a, None) for a in (0, 1)]
    for d1, d2 in combos:
        over = {"der1": Integer(d1), "der2": Integer(d2)} if two_d else {"der": Integer(d1)}
        if fam == "cu":
            # BSplines selects the uniform-cubic family only for degree 3
            over.update({"deg1": Integer(3), "deg2": Integer(3)} if two_d else {"degree": Integer(3)})
        args = make_args(fn, overrides=over)
        ex = SymExec(fn, args, calls=dict(HANDLERS))
        label = f"{name}[der={d1}{',' + str(d2) if two_d else ''}]"
        try:
            ex.run()
        except Undecided as e:
            chk.ob(rule, fn, label, None, f"outside the extractable fragment: {e}", file=rel, func=name)
            continue
        i, j, k, l = (Symbol(n, integer=True) for n in "ijkl")
        try:
            if not two_d:
                x = args["x"] if kind == "scalar" else args["x"].fn(i)
                span, deg, B, win = basis_spec(fam, 0, args, x, d1)
                c = args["coeffs"].fn
                got = ex.ret if kind == "scalar" else ex.env["y"].read([i])
                want = sp.Sum(c(span - win + j) * B(j), (j, 0, deg))
                if fam == "cu" and not sum_equal(got, want):
                    want = sp.Sum(c(span - 3 + j) * B(j), (j, 0, deg))      # the uniform cubic window is [span-3, span]
            else:
                if kind == "scalar":
                    x, y = args["x"], args["y"]
                    got = ex.ret
                elif kind == "cross":
                    x, y = args["X"].fn(i), args["Y"].fn(j)
                    got = ex.env["z"].read([i, j])
                else:
                    x, y = args["x"].fn(i), args["y"].fn(i)
                    got = ex.env["z"].read([i])
                s1, n1, B1, w1 = basis_spec(fam, 1, args, x, d1)
                s2, n2, B2, w2 = basis_spec(fam, 2, args, y, d2)
                c = args["coeffs"].fn
                a_, b_ = (Symbol("k", integer=True), Symbol("l", integer=True)) if kind == "cross" else \
                    ((Symbol("i", integer=True), Symbol("j", integer=True)) if kind == "scalar" else (Symbol("j", integer=True), Symbol("k", integer=True)))
                inner = c(s1 - w1 + a_, s2 - w2) * B2(0) + sp.Sum(c(s1 - w1 + a_, s2 - w2 + b_) * B2(b_), (b_, 1, n2))
                want = sp.Sum(inner * B1(a_), (a_, 0, n1))
            ok = sum_equal(got, want)
        except Undecided as e:
            chk.ob(rule, fn, label, None, f"comparison not decidable: {e}", file=rel, func=name)
            continue
        chk.ob(rule, fn, label, ok,
               "value = sum over the degree+1 (x degree+1) coefficients in the window [span-degree, span] of coefficient x basis "
               "function, with the " + ("derivative" if (d1 or d2) else "value") + " routine and the knots/degree/point/span of the "
               "same dimension" if ok else f"extracted contraction {str(got)[:260]} differs from {str(want)[:260]}",
               file=rel, func=name, facts={"code": str(got)[:400], "spec": str(want)[:400]})


def sum_equal(a, b):
    """equality of (nested) sums: compare after renaming bound variables positionally"""
    a, b = sp.sympify(a), sp.sympify(b)
    return alg_equal(_canon(a), _canon(b))


def _canon(e, depth=0):
    if isinstance(e, sp.Sum) and len(e.limits) == 1 and e.limits[0][1] == 0:
        # peel the first term so that every sum starts at 1 (degree >= 1): sum_{0..n} f = f(0) + sum_{1..n} f
        v, lo, hi = e.limits[0]
        return _canon(e.function.subs(v, 0), depth) + _canon(sp.Sum(e.function, (v, 1, hi)), depth)
    if isinstance(e, sp.Sum):
        f = e.function
        lims = e.limits
        for n, (v, lo, hi) in enumerate(lims):
            nv = Symbol(f"_b{depth}_{n}", integer=True)
            f = f.subs(v, nv)
            lims = tuple((nv if vv == v else vv, l, h) for vv, l, h in lims)
        return sp.Sum(_canon(f, depth + 1), *lims)
    if not getattr(e, "args", None):
        return e
    if e.has(sp.Sum):
        return e.func(*[_canon(x, depth) for x in e.args])
    return e


# --------------------------------------------------------------------------
def cardinal_cubic(chk):
    """cu_basis_funs / cu_basis_funs_1st_der are the cardinal cubic B-spline pieces"""
    mod = chk.mod(U.CU)
    o, dx = sp.symbols("offset dx", real=True)
    fn = mod.func("cu_basis_funs")
    args = make_args(fn, overrides={"offset": o})
    ex = SymExec(fn, args, calls={})
    ex.run()
    vals = [ex.env["values"].read([Integer(k)]) for k in range(4)]
    want = [(1 - o) ** 3 / 6, (3 * o ** 3 - 6 * o ** 2 + 4) / 6, (-3 * o ** 3 + 3 * o ** 2 + 3 * o + 1) / 6, o ** 3 / 6]
    for k in range(4):
        ok = sp.expand(vals[k] - want[k]) == 0
        chk.ob("F8-cardinal-cubic", fn, f"values[{k}]", ok, f"piece {k} of the cardinal cubic B-spline on a cell: {sp.expand(want[k])}" if ok else
               f"values[{k}] = {sp.expand(vals[k])}, the cardinal cubic piece is {sp.expand(want[k])}", file=U.CU, func="cu_basis_funs")
    tot = sp.expand(sum(vals))
    chk.ob("F8-partition-of-unity", fn, "sum(values) == 1", tot == 1, "the four pieces sum to 1 identically" if tot == 1 else
           f"the pieces sum to {tot}", file=U.CU, func="cu_basis_funs")
    # non-negativity on [0,1]: Bernstein coefficients of each cubic are >= 0
    from math import comb
    for k in range(4):
        p = sp.Poly(sp.expand(vals[k]), o)
        a = [p.coeff_monomial(o ** m) for m in range(4)]
        bern = [sum(sp.Rational(comb(i_, m), comb(3, m)) * a[m] for m in range(i_ + 1)) for i_ in range(4)]
        ok = all(b >= 0 for b in bern)
        chk.ob("F8-non-negative", fn, f"values[{k}] >= 0 on [0,1]", ok, f"Bernstein coefficients {bern} are non-negative" if ok else
               f"Bernstein coefficients {bern} are not all non-negative", file=U.CU, func="cu_basis_funs")
    fd = mod.func("cu_basis_funs_1st_der")
    a2 = make_args(fd, overrides={"offset": o, "dx": dx})
    ex2 = SymExec(fd, a2, calls={})
    ex2.run()
    ders = [ex2.env["ders"].read([Integer(k)]) for k in range(4)]
    for k in range(4):
        ok = sp.expand(ders[k] - sp.diff(vals[k], o) / dx) == 0
        chk.ob("F8-derivative", fd, f"ders[{k}] == d/dx values[{k}]", ok, "derivative of the value piece with respect to x = xmin + (cell+offset) dx"
               if ok else f"ders[{k}] = {sp.expand(ders[k])} but d values[{k}]/dx = {sp.expand(sp.diff(vals[k], o) / dx)}", file=U.CU,
               func="cu_basis_funs_1st_der")
    tot = sp.expand(sum(ders))
    chk.ob("F8-derivative", fd, "sum(ders) == 0", tot == 0, "the derivatives sum to 0 identically" if tot == 0 else f"sum is {tot}",
           file=U.CU, func="cu_basis_funs_1st_der")
    # span search: (x - xmin)/dx, integer part, right end point mapped to the last cell with offset 1
    fs = mod.func("cu_find_span")
    ok, whyspan = None, "span search not extractable"
    try:
        exs = SymExec(fs, make_args(fs), calls={})
        exs.run()
        ret = exs.ret
        xs, xmin_s, dx_s, nc_s = (exs.env[k] if k in exs.env else sp.Symbol(k) for k in ("x", "xmin", "dx", "ncells"))

        def pieces(r):
            """-> [(condition or None, (span, offset))]"""
            if isinstance(r, (tuple, sp.Tuple)) and len(r) == 2:
                a_, b_ = r
                from ..symx import ITE as _ITE
                if isinstance(a_, _ITE) and isinstance(b_, _ITE) and a_.args[0] == b_.args[0]:
                    c_ = a_.args[0]
                    return [(c_, (a_.args[1], b_.args[1])), (sp.Not(c_), (a_.args[2], b_.args[2]))]
                return [(None, (a_, b_))]
            from ..symx import ITE as _ITE
            if isinstance(r, _ITE):
                c_ = r.args[0]
                return [(c_, r.args[1]), (sp.Not(c_), r.args[2])]
            return []
        ps = [(c_, tuple(v) if isinstance(v, (tuple, sp.Tuple)) else v) for c_, v in pieces(ret)]
        pos = (xs - xmin_s) / dx_s
        T = [a_ for a_ in sp.preorder_traversal(ps[0][0] if ps and ps[0][0] is not None else sp.Integer(0))
             if getattr(a_, "func", None) is not None and str(a_.func) == "toint"]
        if len(ps) == 2 and all(isinstance(v, tuple) and len(v) == 2 for _, v in ps) and isinstance(ps[0][0], sp.Eq) and T:
            t_ = T[0]
            cond = ps[0][0]
            good_cond = {cond.lhs, cond.rhs} == {t_, nc_s} and sp.simplify(t_.args[0] - pos) == 0
            (s1, o1), (s2, o2) = ps[0][1], ps[1][1]
            end_ok = sp.simplify((s1 - (t_ + 2)).subs(nc_s, t_)) == 0 and sp.simplify(o1 - 1) == 0
            in_ok = sp.simplify(s2 - (t_ + 3)) == 0 and sp.simplify(o2 - (pos - t_)) == 0
            ok = bool(good_cond and end_ok and in_ok)
            whyspan = "" if ok else (f"span search returns {ret}: expected (int(p)+3, p-int(p)) with p=(x-xmin)/dx, and (ncells+2, 1) when "
                                     "int(p) == ncells (right end point evaluated in the last cell)")
    except (Undecided, KeyError, AttributeError, TypeError) as e:
        whyspan = f"span search not extractable: {e}"
    chk.ob("F8-uniform-span", fs, "cu_find_span", ok,
           "cell = int((x-xmin)/dx), span = cell+3 (window [span-3, span] = the 4 splines on that cell); at x = xmax the last cell "
           "is used with offset 1 (span = ncells+2)" if ok else (whyspan or "uniform span search changed"), file=U.CU, func="cu_find_span")


def dispatch_and_wrap(chk):
    smod = chk.mod(U.SPLINES)
    cu, nu = chk.mod(U.CU), chk.mod(U.NU)
    sigs = {}
    for m in (cu, nu):
        for q, f in m.functions().items():
            sigs[q] = agree.signature(f)
    n = 0
    COERCIONS = ("np.asarray", "np.atleast_1d", "np.array", "float", "np.float64", "np.ascontiguousarray")
    for q in ("Spline1D.eval", "Spline1D.eval_vector", "Spline2D.eval", "Spline2D.eval_vector"):
        fn = smod.func(q)
        chk.functions.add(f"{U.SPLINES}:{q}")
        # the evaluation points reach the kernels as given: the spline is evaluated AT x, on the closed domain
        pts = [a.arg for a in fn.args.args if a.arg in ("x", "x1", "x2")]
        moved = [n_ for n_ in ast.walk(fn) if isinstance(n_, (ast.Assign, ast.AugAssign)) and
                 any(isinstance(t_, ast.Name) and t_.id in pts for t_ in (n_.targets if isinstance(n_, ast.Assign) else [n_.target]))
                 and not (isinstance(n_, ast.Assign) and isinstance(n_.value, ast.Call) and src(n_.value.func) in COERCIONS)]
        chk.ob("E2-evaluation-point", moved[0] if moved else fn, f"{q}: evaluation points {pts} are not replaced", not moved,
               "the points handed to the kernels are the caller's points" if not moved else
               f"`{src(moved[0])[:70]}` replaces the evaluation point before the kernel is called: the value returned is that of the "
               "piecewise polynomial at another point (e.g. the right end of a periodic domain folded onto the left end takes the left "
               "end's value and slope, which differ unless the coefficients happen to be wrapped)", file=U.SPLINES, func=q)
        for node, ca, cb in agree.dispatch_sites(fn):
            agree.check_dispatch_site(chk, U.SPLINES, q, node, ca, cb, sigs)
            n += 1
            okt = src(node.test) in ("self._basis.cubic_uniform", "self._basis1.cubic_uniform")
            chk.ob("E1-dispatch-test", node, src(node.test), okt, "the fast path is taken iff the spline's own basis is cubic uniform"
                   if okt else "dispatch is not on the spline's own basis", file=U.SPLINES, func=q, nontrivial=False)
            # arguments come from the spline's own basis/coefficients
            args = [src(a) for a in ca.args]
            if q.startswith("Spline1D"):
                oka = args[1:4] == ["self._basis.knots", "self._basis.degree", "self._coeffs"]
            else:
                oka = args[2:7] == ["self._basis1.knots", "self._basis1.degree", "self._basis2.knots", "self._basis2.degree", "self._coeffs"]
            chk.ob("E2-argument-role", ca, f"{q}: knots/degree/coeffs", oka, "knots, degree and coefficients of this spline, first "
                   "dimension first" if oka else f"arguments {args}", file=U.SPLINES, func=q)
    if n < 6:
        raise AnalysisError(f"C07: only {n} dispatch sites found in splines.py (6 confirmed by reading)")
    # Spline2D requires both bases of one family
    init2 = smod.func("Spline2D.__init__")
    ok = "assert basis1.cubic_uniform == basis2.cubic_uniform" in src(init2)
    chk.ob("E1-dispatch-test", init2, "assert basis1.cubic_uniform == basis2.cubic_uniform", ok,
           "a 2-D spline dispatches on basis1 only, so both bases must be of the same family" if ok else
           "2-D splines may mix families although dispatch looks at basis1 only", file=U.SPLINES, func="Spline2D.__init__")
    # collocation matrix: span finder and basis routine of one family on each arm
    imod = chk.mod(U.INTERP)
    cm = imod.func("SplineInterpolator1D.collocation_matrix")
    from ..core import contains as _contains
    ifs = [x for x in cm.body if isinstance(x, ast.If) and src(x.test) == "cubic_uniform_splines"]
    ok, bad = None, None
    if len(ifs) == 1:
        arm_cu = _contains(ifs[0].body, "xmin, xmax, dx, f_ncells = knots\nncells = int(f_ncells)") and \
            _contains(ifs[0].body, "span, offset = cu_find_span(xmin, xmax, dx, x, ncells)\ncu_basis_funs(span, offset, basis)")
        arm_nu = _contains(ifs[0].orelse, "span = nu_find_span(knots, degree, x)\nnu_basis_funs(knots, degree, x, span, basis)")
        mixed = [c for c, arm in ((c, "cu") for st in ifs[0].body for c in ast.walk(st)) if isinstance(c, ast.Call)
                 and isinstance(c.func, ast.Name) and c.func.id.startswith("nu_")] + \
                [c for st in ifs[0].orelse for c in ast.walk(st) if isinstance(c, ast.Call) and isinstance(c.func, ast.Name)
                 and c.func.id.startswith("cu_")]
        if mixed:
            ok, bad = False, f"`{src(mixed[0])[:60]}` is a routine of the other family on this arm of the dispatch"
        elif arm_cu and arm_nu:
            ok = True
    chk.ob("E1-dispatch", ifs[0] if ifs else cm, "collocation_matrix: cu_/nu_ span + basis", ok,
           "each arm fills row i with the basis values of its own family" if ok else
           (bad or "collocation matrix arms not recognised"), file=U.INTERP,
           func="SplineInterpolator1D.collocation_matrix")
    # periodic wrap of unit coefficient vectors
    gi = smod.func("BSplines.__getitem__")
    t = src(gi).replace(" ", "").replace("\n", ";")
    ok = "spl.coeffs[i]=1.0" in t and "ifspl.basis.periodic:" in t and "n=spl.basis.ncells" in t and "p=spl.basis.degree" in t and \
        "spl.coeffs[n:n+p]=spl.coeffs[0:p]" in t
    chk.ob("E5-periodic-wrap", gi, "coeffs[n:n+p] = coeffs[0:p]", ok, "basis function i of a periodic space carries its wrapped copy "
           "(first p coefficients repeated after the n-th)" if ok else "periodic wrap of the unit coefficient vector changed",
           file=U.SPLINES, func="BSplines.__getitem__")


def no_coeff_mutation(chk):
    for rel in (U.NU, U.CU):
        mod = chk.mod(rel)
        for q, fn in mod.functions().items():
            if "eval_spline" not in q:
                continue
            muts = lints.shared_state_mutations(fn, lambda s: s == "coeffs" or s.startswith("coeffs["))
            chk.ob("G2-no-shared-mutation", fn, f"{q} vs coeffs", not muts,
                   "the coefficient array is only read (the working block is a copy)" if not muts else
                   "; ".join(d for _, d in muts) + " - the evaluation overwrites the spline's own coefficients: the first call is "
                   "right, later calls on the same spline are wrong", file=rel, func=q)


EVALUATORS = ["eval_spline_1d_scalar", "eval_spline_1d_vector", "eval_spline_2d_scalar", "eval_spline_2d_cross", "eval_spline_2d_vector"]


def run(chk):
    chk.explanation = (
        "Fast-path/general-path dispatch agreement (matched cu_/nu_ pairs, identical arguments and signatures, 6 sites + "
        "collocation matrix); for each of the 10 evaluators and every derivative-flag combination (28 cases) the returned value "
        "is extracted by symbolic forward substitution and equals the contraction of the coefficient window [span-degree, span] "
        "with the value/derivative basis routine applied to the knots, degree, point and span (cell size) of the same dimension; "
        "the uniform cubic basis equals the cardinal cubic B-spline, sums to 1, has non-negative Bernstein coefficients, its "
        "derivative routine is d/dx of it and sums to 0; uniform span search incl. right end point; periodic wrap; evaluators do "
        "not write into the coefficient array. Cox-de Boor recursion and binary span search are not decided.")
    chk.assumptions += ["nu_basis_funs / nu_basis_funs_1st_der / nu_find_span compute the non-vanishing B-splines, their derivatives and the span (declined part)"]
    chk.in_file(U.NU)
    for fam, rel in (("nu", U.NU), ("cu", U.CU)):
        for e in EVALUATORS:
            check_evaluator(chk, rel, f"{fam}_{e}")
    cardinal_cubic(chk)
    dispatch_and_wrap(chk)
    no_coeff_mutation(chk)
    chk.floor("E4-evaluator", 28)
    chk.floor("F8-", 14)
    chk.floor("E1-dispatch", 7)
